"""throw-away: wrap line ranges of check() in `with ctx.section(name):` (deleted after use)"""
import sys
def wrap(path, ranges, indent="    "):
    """ranges: list of (start_marker, end_marker_or_None, name, prelude_lines); markers are unique substrings of a line;
    the block is [line containing start, line containing end) ; end None = end of enclosing top-level function."""
    lines = open(path).read().split("\n")
    def find(marker, frm=0):
        hits = [i for i in range(frm, len(lines)) if marker in lines[i]]
        assert hits, marker
        return hits[0]
    # resolve all first (on original text), then apply bottom-up
    res = []
    for start, end, name, prelude in ranges:
        s = find(start)
        if end is None:
            e = s
            while e + 1 < len(lines) and (lines[e + 1].startswith(" ") or lines[e + 1] == ""):
                e += 1
            e += 1
            while lines[e - 1] == "":
                e -= 1
        else:
            e = find(end, s + 1)
        res.append((s, e, name, prelude))
    res.sort(reverse=True)
    for s, e, name, prelude in res:
        body = [(indent + l if l.strip() else l) for l in lines[s:e]]
        pre = [indent + indent + p for p in prelude]
        lines[s:e] = [f'{indent}with ctx.section("{name}"):'] + pre + body
    open(path, "w").write("\n".join(lines))
