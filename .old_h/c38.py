"""C38 - Telnet carries application bytes transparently."""
from __future__ import annotations

import ast
import itertools
from collections import ChainMap

from sa.astx import NotConst, call_name, const_eval, src, statements
from sa.selftest import Mutant, Silent
from sa.source import AnalysisError, class_assigns, methods, mro_lookup
from sa.props._lib_h import MiniInterp, ModelError, edge_path, self_attr

PROPERTY = "C38"
TELNET = "conch/telnet.py"
M = "twisted.conch.telnet."
TECHNIQUE = "finite evaluation of the extracted write methods and receive automaton (own interpreter)"
EXPLANATION = (
    "Writer: TelnetTransport.write / writeSequence / requestNegotiation are evaluated as whole methods (MRO resolution, explicit base-class "
    "delegation, helper functions, conditionals and named temporaries, by a whitelisted interpreter - no twisted code is run) on every single "
    "byte, byte pairs, the empty string and strings with 0xFF / LF at the first, middle and last position; what reaches transport.write must "
    "equal the ideal escaper (IAC doubled, LF -> CR LF, everything else untouched); writeSequence must put the same bytes on the wire as write() "
    "of the concatenation (F38) for lists, tuples, one-shot iterators and generators, and may iterate its parameter only once unless it "
    "materialised it first; sub-negotiations must be IAC SB about <IAC-doubled payload> IAC SE. Reader: the per-byte state machine of "
    "Telnet.dataReceived is evaluated on an exhaustive finite corpus of CR-free application strings rich in IAC/LF/command bytes, interleaved "
    "commands and sub-negotiations, under whole / byte-wise / every two-way segmentation, against an RFC 854 reference decoder: delivered bytes, "
    "command events, their order and the final state must agree (an UnboundLocalError / AttributeError of the modelled code is a failed run), the "
    "chunk-local buffer must be flushed at the end of every chunk; structurally, every local read in a state's branch must be bound earlier in "
    "the same branch (parser state that outlives a byte lives on the instance). Also: every state string assigned has a branch, unknown states "
    "raise, only dataReceived writes the parse state. Not decided: behaviour for application data containing CR (excluded by the statement)."
)
ASSUMPTIONS = [
    "the receive automaton's only cross-chunk state is self.state / self.command / self.commands (checked: chunk-local buffer is flushed)",
    "application data contains no CR (precondition of the property)",
]

IACB, LFB, CRB, NULB = b"\xff", b"\n", b"\r", b"\0"


# ---- constants -----------------------------------------------------------------------------

def telnet_consts(mod):
    env = {}
    for st in mod.tree.body:
        if isinstance(st, ast.Assign) and len(st.targets) == 1 and isinstance(st.targets[0], ast.Name):
            v = st.value
            if isinstance(v, ast.Call) and call_name(v) == "_chr" and len(v.args) == 1:
                try:
                    env[st.targets[0].id] = bytes((const_eval(v.args[0], env),))
                except (NotConst, ValueError, TypeError):
                    pass
            else:
                try:
                    env[st.targets[0].id] = const_eval(v, env)
                except NotConst:
                    pass
    return env


# ---- writer pipeline -----------------------------------------------------------------------

class _WInterp(MiniInterp):
    """MiniInterp whose calls are resolved inside the telnet module: transport sinks, explicit base-class delegation,
    self.<method>() through the MRO of the dynamic class, module-level helper functions."""

    def __init__(self, func, mod, dyn_cls, consts, sinks, used):
        MiniInterp.__init__(self, func, {}, {}, consts)
        self.mod, self.dyn_cls, self.sinks, self.used = mod, dyn_cls, sinks, used

    def ev(self, n):
        if isinstance(n, ast.Call) and not n.keywords:
            d = call_name(n)
            if d in ("self.transport.write", "self._write") and len(n.args) == 1:
                v = self.ev(n.args[0])
                if not isinstance(v, (bytes, bytearray)):
                    raise ModelError(f"TypeError: transport.write({type(v).__name__})")
                self.sinks.append(bytes(v))
                return None
            if d == "self.transport.writeSequence" and len(n.args) == 1:
                self.sinks.append(b"".join(self.ev(n.args[0])))
                return None
            if isinstance(n.func, ast.Attribute) and isinstance(n.func.value, ast.Name):
                recv = n.func.value.id
                if recv == "self" and isinstance((mro_lookup(self.mod, self.dyn_cls, n.func.attr) or (None, None))[1], ast.FunctionDef):
                    return eval_method(self.mod, self.dyn_cls, self.dyn_cls, n.func.attr, [self.ev(a) for a in n.args], self.consts, self.sinks, self.used)
                base = self.mod.find(recv) if recv not in self.loc else None
                if isinstance(base, ast.ClassDef) and n.args and src(n.args[0]) == "self":
                    return eval_method(self.mod, base, self.dyn_cls, n.func.attr, [self.ev(a) for a in n.args[1:]], self.consts, self.sinks, self.used)
            if isinstance(n.func, ast.Name) and n.func.id not in self.loc:
                h = self.mod.find(n.func.id)
                if isinstance(h, ast.FunctionDef) and getattr(h, "_parent", None) is self.mod.tree:
                    self.used.add(h.name)
                    sub = _WInterp(_noself(h), self.mod, self.dyn_cls, self.consts, self.sinks, self.used)
                    return sub.call(*[self.ev(a) for a in n.args])
        return MiniInterp.ev(self, n)


def _noself(fn):
    """module-level helper: MiniInterp.call() skips the first parameter (self); give helpers a dummy one"""
    f2 = ast.parse(ast.unparse(fn)).body[0]
    f2.args.args.insert(0, ast.arg(arg="__self__"))
    return f2


def eval_method(mod, lookup_cls, dyn_cls, name, args, consts, sinks, used, depth=0):
    r = mro_lookup(mod, lookup_cls, name)
    if r is None or not isinstance(r[1], ast.FunctionDef):
        raise AnalysisError(f"C38: no method {name} resolvable on {lookup_cls.name}")
    owner, f = r
    if len(used) > 40:
        raise AnalysisError("C38: method evaluation too deep")
    used.add(f"{owner.name}.{name}")
    return _WInterp(f, mod, dyn_cls, consts, sinks, used).call(*args)


def ideal(data: bytes) -> bytes:
    return data.replace(IACB, IACB * 2).replace(LFB, CRB + LFB)


# ---- receive automaton: extraction by whitelisted interpretation --------------------------------

class _SelfToName(ast.NodeTransformer):
    def visit_Attribute(self, node):
        self.generic_visit(node)
        if isinstance(node.value, ast.Name) and node.value.id == "self":
            return ast.copy_location(ast.Name(id="self__" + node.attr, ctx=node.ctx), node)
        return node


class ModelRaise(Exception):
    pass


class Reader:
    """Evaluates the statements of Telnet.dataReceived over concrete bytes with sa.astx.const_eval for
    every expression.  Only the statement shapes enumerated in _exec are understood; anything else is an
    AnalysisError (never a verdict)."""

    CALLBACKS = {"self__applicationDataReceived": "app", "self__commandReceived": "cmd", "self__negotiate": "neg"}

    def __init__(self, func, consts, initial_state):
        # re-parse instead of deepcopy: the engine's nodes carry _parent links up to the module
        self.func = _SelfToName().visit(ast.parse(ast.unparse(func)).body[0])
        self.consts = dict(consts)
        self.param = func.args.args[1].arg
        self.local_names = {x.id for x in ast.walk(func) if isinstance(x, ast.Name) and isinstance(x.ctx, ast.Store)}
        self.initial_state = initial_state
        self.reset()

    @property
    def state(self):
        return self.persist.get("self__state")

    def reset(self):
        self.persist = {"self__state": self.initial_state}
        self.events = []
        self.trace = []      # (state before, byte) per consumed byte
        self.unflushed = b""

    def _ev(self, node, env):
        try:
            return const_eval(node, env)
        except NotConst as e:
            if str(e).startswith("self__"):
                raise ModelRaise(f"AttributeError: {str(e)[6:]}")     # attribute deleted / never set at this point
            if str(e) in self.local_names:
                raise ModelRaise(f"UnboundLocalError: {e}")          # a local that was bound in an earlier dataReceived() call only
            raise AnalysisError(f"C38: expression of dataReceived not evaluable: {src(node)[:80]} ({e})")

    def _set(self, env, name, value):
        if name.startswith("self__"):
            self.persist[name] = value
        else:
            self._loc[name] = value

    def feed(self, chunk: bytes):
        self._loc = {self.param: chunk}
        env = ChainMap(self._loc, self.persist, self.consts)
        self._dirty = set()
        self._block(self.func.body, env)
        for k in sorted(self._dirty):
            v = self._loc.get(k)
            if isinstance(v, list) and v and all(isinstance(x, bytes) for x in v):
                self.unflushed += b"".join(v)

    def _block(self, stmts, env):
        for st in stmts:
            self._exec(st, env)

    def _exec(self, st, env):
        if isinstance(st, ast.Expr) and isinstance(st.value, ast.Constant):
            return
        if isinstance(st, ast.Pass):
            return
        if isinstance(st, ast.Assign) and len(st.targets) == 1 and isinstance(st.targets[0], ast.Name):
            self._set(env, st.targets[0].id, self._ev(st.value, env))
            return
        if isinstance(st, ast.If):
            self._block(st.body if self._ev(st.test, env) else st.orelse, env)
            return
        if isinstance(st, ast.For) and isinstance(st.target, ast.Name) and not st.orelse:
            it = st.iter
            if isinstance(it, ast.Call) and call_name(it) == "iterbytes" and len(it.args) == 1:
                seq = [bytes((c,)) for c in self._ev(it.args[0], env)]
            else:
                raise AnalysisError(f"C38: loop of dataReceived not recognised: for .. in {src(it)}")
            for b in seq:
                self.trace.append((self.persist.get("self__state"), b))
                self._loc[st.target.id] = b
                self._block(st.body, env)
            return
        if isinstance(st, ast.Delete):
            for t in st.targets:
                if isinstance(t, ast.Name):
                    (self.persist if t.id.startswith("self__") else self._loc).pop(t.id, None)
                elif isinstance(t, ast.Subscript) and isinstance(t.value, ast.Name) and isinstance(t.slice, ast.Slice) \
                        and t.slice.lower is None and t.slice.upper is None and isinstance(env.get(t.value.id), list):
                    del env[t.value.id][:]
                    self._dirty.discard(t.value.id)
                else:
                    raise AnalysisError(f"C38: del form not recognised: {src(st)}")
            return
        if isinstance(st, ast.Raise):
            raise ModelRaise(src(st)[:60])
        if isinstance(st, ast.Expr) and isinstance(st.value, ast.Call):
            c = st.value
            if isinstance(c.func, ast.Attribute) and isinstance(c.func.value, ast.Name) and isinstance(env.get(c.func.value.id), list) and not c.keywords:
                lst = env[c.func.value.id]
                args = [self._ev(a, env) for a in c.args]
                if c.func.attr == "append" and len(args) == 1:
                    lst.append(args[0])
                    self._dirty.add(c.func.value.id)
                    return
                if c.func.attr == "extend" and len(args) == 1:
                    lst.extend(args[0])
                    self._dirty.add(c.func.value.id)
                    return
                if c.func.attr == "clear" and not args:
                    del lst[:]
                    self._dirty.discard(c.func.value.id)
                    return
            if isinstance(c.func, ast.Name) and c.func.id in self.CALLBACKS:
                args = [self._ev(a, env) for a in c.args]
                if self.CALLBACKS[c.func.id] == "app":
                    self._dirty -= {n.id for a in c.args for n in ast.walk(a) if isinstance(n, ast.Name)}
                self.events.append((self.CALLBACKS[c.func.id],) + tuple(tuple(a) if isinstance(a, list) else a for a in args))
                return
        raise AnalysisError(f"C38: statement of dataReceived not in the recognised subset: {src(st)[:90]}")


def reference(wire: bytes, C):
    """RFC 854 reference decoder -> (events, final state); events coalesce adjacent application data."""
    st, ev, app, cmd, sub = "data", [], b"", None, None
    simple = {C[k] for k in ("EOR", "NOP", "DM", "BRK", "IP", "AO", "AYT", "EC", "EL", "GA")}
    opt = {C[k] for k in ("WILL", "WONT", "DO", "DONT")}

    def flush():
        nonlocal app
        if app:
            ev.append(("app", app))
            app = b""
    for v in wire:
        b = bytes((v,))
        if st == "data":
            if b == IACB:
                st = "escaped"
            elif b == CRB:
                st = "newline"
            else:
                app += b
        elif st == "escaped":
            if b == IACB:
                app += b
                st = "data"
            elif b == C["SB"]:
                st, sub = "subnegotiation", []
            elif b in simple:
                st = "data"
                flush()
                ev.append(("cmd", b, None))
            elif b in opt:
                st, cmd = "command", b
            else:
                return None
        elif st == "command":
            st = "data"
            flush()
            ev.append(("cmd", cmd, b))
        elif st == "newline":
            st = "data"
            if b == LFB:
                app += LFB
            elif b == NULB:
                app += CRB
            else:
                return None
        elif st == "subnegotiation":
            if b == IACB:
                st = "subnegotiation-escaped"
            else:
                sub.append(b)
        elif st == "subnegotiation-escaped":
            if b == C["SE"]:
                st = "data"
                flush()
                ev.append(("neg", tuple(sub)))
            else:
                st = "subnegotiation"
                sub.append(b)
    flush()
    return ev, st


def coalesce(events):
    out = []
    for e in events:
        if e[0] == "app" and out and out[-1][0] == "app":
            out[-1] = ("app", out[-1][1] + e[1])
        else:
            out.append(e)
    return out


def byte_name(b, C):
    for k in ("IAC", "SB", "SE", "WILL", "WONT", "DO", "DONT", "NOP", "GA", "LF", "CR", "NULL"):
        if C.get(k) == b:
            return k
    return "other"


def corpus(C):
    """(label, wire) pairs.  Application strings are CR-free; wires are built with the *ideal* writer."""
    alpha = [IACB, LFB, b"a", NULB, C["SE"], C["SB"], C["WILL"], C["DONT"], C["NOP"]]
    apps = [b""]
    for n in (1, 2):
        apps += [b"".join(t) for t in itertools.product(alpha, repeat=n)]
    apps += [b"".join(t) for t in itertools.product(alpha[:6], repeat=3)]
    for v in range(256):
        if v != 13:
            b = bytes((v,))
            apps += [b, IACB + b, b + LFB]
    seen = set()
    for a in apps:
        if a not in seen:
            seen.add(a)
            yield "app", ideal(a)
    cmds = [IACB + C["NOP"], IACB + C["GA"], IACB + C["WILL"] + b"\x01", IACB + C["DONT"] + IACB, IACB + C["DO"] + LFB,
            IACB + C["SB"] + b"\x1f" + b"ab" + IACB + C["SE"], IACB + C["SB"] + b"\x22" + IACB + IACB + b"x" + IACB + IACB + IACB + C["SE"],
            IACB + C["SB"] + b"\x01" + C["SE"] + CRB + LFB + IACB + C["SE"]]
    small = [b"", b"a", IACB, LFB, b"a" + LFB, IACB + b"a"]
    for c in cmds:
        for s1 in small:
            for s2 in small:
                yield "cmd", ideal(s1) + c + ideal(s2)
    yield "cmd", ideal(b"x") + cmds[0] + cmds[2] + ideal(b"y" + LFB) + cmds[5] + ideal(IACB)


def segmentations(wire: bytes):
    yield "whole", [wire]
    if len(wire) > 1:
        yield "bytewise", [wire[i:i + 1] for i in range(len(wire))]
        if len(wire) <= 12:
            for i in range(1, len(wire)):
                yield f"split@{i}", [wire[:i], wire[i:]]


def check(ctx):
    _ok_rd = False
    mod = ctx.mod(TELNET)
    C = telnet_consts(mod)
    for k, v in (("IAC", 255), ("SB", 250), ("SE", 240), ("WILL", 251), ("WONT", 252), ("DO", 253), ("DONT", 254), ("NOP", 241), ("GA", 249)):
        ctx.check(C.get(k) == bytes((v,)), "constants/rfc854", f"{M}{k}", f"{k} is {C.get(k)!r}, RFC 854 says {v}")
    tt = ctx.cls(TELNET, "TelnetTransport")
    tel = ctx.cls(TELNET, "Telnet")

    alpha = [IACB, LFB, b"a", NULB, C.get("SE", b"\xf0"), C.get("WILL", b"\xfb")]
    with ctx.section('writer/pipeline'):
        # the whole write() method (MRO, explicit base delegation, helpers, conditionals) is evaluated on a finite set of inputs
        qw = M + "TelnetTransport.write"
        used = set()

        def wire(data):
            sinks = []
            eval_method(mod, tt, tt, "write", [data], C, sinks, used)
            return b"".join(sinks)
        singles = [bytes((v,)) for v in range(256) if v != 13]
        probes = [b""] + singles + [x + y for x in alpha for y in alpha]
        for x in (IACB, LFB):
            probes += [x + b"ab", b"a" + x + b"b", b"ab" + x, x + x + b"a", b"a" + x + x, x + b"a" + x, x * 3]
        probes += [IACB + LFB + b"a", LFB + IACB, b"a" + LFB + IACB + b"b"]
        out = {d: wire(d) for d in probes}
        for nm in sorted(used):
            ctx.functions.add(f"{TELNET}:{nm}")
        ctx.note(f"write() evaluated on {len(probes)} inputs through {sorted(used)}")
        bad_iac = [d for d in probes if IACB in d and out[d].count(IACB) != 2 * d.count(IACB)]
        ctx.check(not bad_iac, "writer/iac-doubled", qw + " | IAC",
                  f"application byte 0xFF is not always sent as IAC IAC: write({bad_iac[0] if bad_iac else b''!r}) puts {out[bad_iac[0]] if bad_iac else b''!r} on the wire "
                  "and the peer reads a telnet command")
        bad_lf = [d for d in probes if LFB in d and out[d].replace(IACB * 2, IACB) != d.replace(LFB, CRB + LFB)]
        ctx.check(not bad_lf, "writer/lf-to-crlf", qw + " | LF",
                  f"LF is not always sent as CR LF: write({bad_lf[0] if bad_lf else b''!r}) -> {out[bad_lf[0]] if bad_lf else b''!r}")
        others = [d for d in singles if d not in (IACB, LFB) and out[d] != d]
        ctx.check(not others, "writer/other-bytes-untouched", qw + " | other bytes", f"write() rewrites bytes that need no escaping: {others[:3]!r}")
        mism = [d for d in probes if out[d] != ideal(d)]
        ctx.check(not mism, "writer/matches-ideal-escaper", qw + " | all probes",
                  f"write({mism[0] if mism else b''!r}) -> {out[mism[0]] if mism else b''!r} differs from IAC-doubling + LF->CRLF ({ideal(mism[0]) if mism else b''!r})",
                  detail=f"{len(probes)} inputs")
        ctx.floor("writer/matches-ideal-escaper", len(probes), 300, "probe inputs")
    with ctx.section('writer/writeSequence'):
        r = mro_lookup(mod, tt, "writeSequence")
        ctx.need(r is not None and isinstance(r[1], ast.FunctionDef), "writeSequence resolvable on TelnetTransport")
        owner = r[0]
        ctx.functions.add(f"{TELNET}:{owner.name}.writeSequence")
        qs = M + f"TelnetTransport.writeSequence (resolved: {owner.name}.writeSequence)"
        seqs = [[b"a\xffb\n"], [IACB, LFB], [], [b"", b"x"], [b"ab", b"cd"], [IACB], [b"a", IACB + IACB, LFB + b"z"]]
        bad = None
        forms = (("list", list), ("tuple", tuple), ("one-shot iterator", lambda x: iter(list(x))), ("generator", lambda x: (e for e in list(x))))
        n_ws = 0
        for sq in seqs:
            for fname_, mk in forms:
                sinks = []
                n_ws += 1
                try:
                    eval_method(mod, tt, tt, "writeSequence", [mk(sq)], C, sinks, set())
                    got = b"".join(sinks)
                except ModelError as e:
                    got = f"<raises {e}>".encode()
                if got != ideal(b"".join(sq)) and bad is None:
                    bad = (sq, got, fname_)
        ctx.check(bad is None, "writeSequence/same-escaping-as-write", qs,
                  f"writeSequence({bad[0] if bad else []!r}) given as a {bad[2] if bad else ''} puts {bad[1] if bad else b''!r} on the wire; write() of the concatenation would send "
                  f"{ideal(b''.join(bad[0])) if bad else b''!r} (IAC doubled, LF -> CR LF): the sequence bypasses the escaping or gains/loses bytes",
                  detail=f"{n_ws} evaluations over lists, tuples, one-shot iterators and generators")
        # structurally: the iterable parameter is consumed at most once on any path unless it was materialised first
        wsf = r[1]
        g = ctx.cfg(wsf)
        sp_ = wsf.args.args[1].arg

        def uses_param(x):
            return isinstance(x, ast.Name) and x.id == sp_ and isinstance(x.ctx, ast.Load)

        def consumes(node):
            """AST sub-nodes of a CFG node that iterate the raw parameter"""
            out = []
            roots = [node.ast.iter] if node.kind == "for" else [node.ast]
            if node.kind == "for" and uses_param(node.ast.iter):
                out.append("for")
            for r_ in roots:
                for x in ast.walk(r_):
                    if isinstance(x, (ast.ListComp, ast.GeneratorExp, ast.SetComp, ast.DictComp)) and any(uses_param(gc.iter) for gc in x.generators):
                        out.append("comprehension")
                    if isinstance(x, ast.Call) and any(uses_param(a) for a in x.args) and call_name(x) not in ("len", "isinstance", "type", "bool", "id"):
                        out.append(src(x.func)[:30] + "()")
                    if isinstance(x, ast.Starred) and uses_param(x.value):
                        out.append("*unpack")
            return out
        sites = [n.id for n in g.nodes if n.ast is not None and n.kind in ("stmt", "test", "for", "with") and g.reachable(n.id) and consumes(n)]
        mat = [n for n in sites if g.node(n).kind == "stmt" and isinstance(g.node(n).ast, ast.Assign)
               and any(isinstance(t, ast.Name) and t.id == sp_ for t in g.node(n).ast.targets)
               and isinstance(g.node(n).ast.value, ast.Call) and call_name(g.node(n).ast.value) in ("list", "tuple") and len(consumes(g.node(n))) == 1]
        ctx.need(sites, "writeSequence: the sequence parameter is used")
        twice = None
        # only sites that can see the raw parameter count: after `seq = list(seq)` the name denotes a re-iterable list
        raw = [n for n in sites if edge_path(g, [g.entry], [n], avoid_nodes=[m for m in mat if m != n]) is not None]
        for a_ in raw:
            if a_ in mat:
                continue        # from here on the name denotes a list / tuple
            if len(consumes(g.node(a_))) > 1:
                twice = twice or (a_, a_)
            targets = [x for x in raw if not (x == a_ and g.node(a_).kind == "for")]     # re-entering a for head is the same iteration
            w = edge_path(g, [a_], targets, avoid_nodes=[m for m in mat if m not in targets], strict=True)
            if w is not None:
                twice = twice or (a_, w[-1])
        ctx.check(twice is None, "writeSequence/iterable-consumed-once", M + f"TelnetTransport.writeSequence (resolved: {owner.name}.writeSequence) | <iterable parameter>",
                  f"the iterable passed to writeSequence is iterated twice ({g.node(twice[0]).text() if twice else ''} ... then {g.node(twice[1]).text() if twice else ''}): a generator / "
                  "one-shot iterator is exhausted by the first pass, so elements are silently dropped")
    with ctx.section('writer/requestNegotiation'):
        qn = M + "Telnet.requestNegotiation"
        ctx.func(TELNET, "Telnet.requestNegotiation")
        badn = None
        for about in (b"\x1f", b"\x22"):
            for payload in (b"", b"a", IACB, IACB * 2, b"a" + IACB + C["SE"], C["SE"], IACB + b"a", b"ab" + IACB):
                sinks = []
                eval_method(mod, tt, tt, "requestNegotiation", [about, payload], C, sinks, set())
                got = b"".join(sinks)
                want = IACB + C["SB"] + about + payload.replace(IACB, IACB * 2) + IACB + C["SE"]
                if got != want and badn is None:
                    badn = (payload, got, want)
        framed = badn is None or (badn[1].startswith(IACB + C["SB"]) and badn[1].endswith(IACB + C["SE"]))
        ctx.check(badn is None or not framed, "subnegotiation/iac-doubled", qn,
                  f"sub-negotiation payload {badn[0] if badn else b''!r} is sent as {badn[1] if badn else b''!r}, expected {badn[2] if badn else b''!r}: an unescaped 0xFF 0xF0 "
                  "inside it ends the sub-negotiation early and the rest is read as application data")
        ctx.check(framed, "subnegotiation/framing", qn, f"the sub-negotiation is not framed as IAC SB <about> <data> IAC SE: {badn[1] if badn else b''!r}")
    with ctx.section('reader/anchors'):
        dr = ctx.func(TELNET, "Telnet.dataReceived")
        qd = M + "Telnet.dataReceived"
        default = class_assigns(tel).get("state")
        ctx.need(isinstance(default, ast.Constant), "Telnet.state class default")
        _ok_rd = True
    with ctx.section('reader/states'):
        ctx.need(_ok_rd, 'anchors of reader (section skipped)')
        handled = set()
        for n in ast.walk(dr):
            if isinstance(n, ast.Compare) and len(n.ops) == 1 and isinstance(n.ops[0], ast.Eq) and self_attr(n.left, "state") \
                    and isinstance(n.comparators[0], ast.Constant):
                handled.add(n.comparators[0].value)
        assigned = {}
        assigned[default.value] = "class default"
        n_sw = 0
        for cls in (tel, tt):
            for name, f in methods(cls).items():
                for st in statements(f):
                    if isinstance(st, ast.Assign) and any(self_attr(t, "state") for t in st.targets):
                        n_sw += 1
                        ctx.check(cls is tel and name == "dataReceived", "reader/who-writes-state", ctx.construct(f"{M}{cls.name}.{name}", st),
                                  "the parse state is written outside dataReceived")
                        if isinstance(st.value, ast.Constant):
                            assigned.setdefault(st.value.value, f"{cls.name}.{name}")
                        else:
                            ctx.check(False, "reader/state-has-branch", ctx.construct(f"{M}{cls.name}.{name}", st), "parse state assigned from a non-constant")
        ctx.floor("reader/who-writes-state", n_sw, 8, "state writes")
        for s in sorted(assigned):
            ctx.check(s in handled, "reader/state-has-branch", f"{qd} | state {s!r}",
                      f"state {s!r} (assigned in {assigned[s]}) has no branch in dataReceived: the next byte raises and the connection's parser is stuck")

    with ctx.section('reader/state-on-instance'):
        loops_ = [st for st in dr.body if isinstance(st, ast.For)]
        ctx.need(loops_, "dataReceived: for b in iterbytes(data)")
        loop_ = loops_[0]
        stored_in_loop = {x.id for x in ast.walk(loop_) if isinstance(x, ast.Name) and isinstance(x.ctx, ast.Store)}
        loop_vars = {x.id for x in ast.walk(loop_.target) if isinstance(x, ast.Name)}
        chain_ = [st for st in loop_.body if isinstance(st, ast.If)]
        ctx.need(chain_, "dataReceived: if self.state == ... chain")
        branches = []
        node_ = chain_[0]
        while True:
            t_ = node_.test
            label = t_.comparators[0].value if isinstance(t_, ast.Compare) and self_attr(t_.left, "state") and isinstance(t_.comparators[0], ast.Constant) else src(t_)[:30]
            branches.append((label, node_.body))
            if len(node_.orelse) == 1 and isinstance(node_.orelse[0], ast.If):
                node_ = node_.orelse[0]
            else:
                break
        n_reads = 0
        for label, body_ in branches:
            wrap = ast.Module(body=list(body_), type_ignores=[])
            stores = sorted((x.lineno, x.col_offset, x.id) for x in ast.walk(wrap) if isinstance(x, ast.Name) and isinstance(x.ctx, (ast.Store, ast.Del)))
            for x in ast.walk(wrap):
                if isinstance(x, ast.Name) and isinstance(x.ctx, ast.Load) and x.id in stored_in_loop and x.id not in loop_vars:
                    n_reads += 1
                    earlier = any(nm == x.id and (ln, col) < (x.lineno, x.col_offset) for ln, col, nm in stores)
                    ctx.check(earlier, "reader/state-on-instance", f"{qd} | state {label!r} reads local {x.id}",
                              f"in state {label!r} the local `{x.id}` is read but it is bound only while handling an earlier byte (another state): when the chunk ends "
                              "between the two bytes the next dataReceived() call starts with fresh locals -> UnboundLocalError / the pending command is lost. "
                              "State that outlives one byte must live on the instance")
        ctx.floor("reader/state-on-instance", n_reads, 2, "reads of per-iteration locals")
    with ctx.section('reader/automaton'):
        ctx.need(_ok_rd, 'anchors of reader (section skipped)')
        rd = Reader(dr, C, default.value)
        rd2 = Reader(dr, C, default.value)
        n_runs = 0
        reported = set()

        def report(rule, construct, fails, witness=""):
            if (rule, construct) in reported:
                return
            reported.add((rule, construct))
            ctx.violation(rule, construct, fails, witness)

        n_wires = 0
        for label, wire in corpus(C):
            if len(reported) >= 3:
                break       # enough distinct diagnoses; the corpus is only a witness generator from here on
            ref = reference(wire, C)
            if ref is None:
                raise AnalysisError("C38: corpus wire outside the reference decoder")
            want_ev, want_state = ref
            n_wires += 1
            for sname, chunks in segmentations(wire):
                n_runs += 1
                rd.reset()
                err = None
                try:
                    for ch in chunks:
                        rd.feed(ch)
                except ModelRaise as e:
                    err = str(e)
                got = coalesce(rd.events)
                if err is None and got == want_ev and rd.state == want_state and not rd.unflushed:
                    continue
                if rd.unflushed and err is None and coalesce(rd.events + [("app", rd.unflushed)]) != got:
                    report("reader/flush-at-chunk-end", qd + " | <end of chunk>",
                           f"application bytes buffered during a chunk are dropped when the chunk ends: wire {wire!r} delivered as {chunks!r} loses {rd.unflushed!r}")
                    continue
                cls_ = classify(got, want_ev, err, rd.state, want_state)
                last = rd.trace[-1] if rd.trace else ("data", b"")
                key = find_divergence(rd2, C, wire, chunks) or last
                report("reader/round-trip", f"{qd} | state {key[0]!r} x {byte_name(key[1], C)}",
                       f"{cls_}: wire {wire!r} ({sname}) is decoded as {got!r} / state {rd.persist.get('self__state')!r}"
                       f"{' / raises ' + err if err else ''}; RFC 854 reference: {want_ev!r} / {want_state!r}")
        ctx.extra["automaton_runs"] = n_runs
        ctx.extra["wires"] = n_wires
        if not any(r == "reader/round-trip" for r, _ in reported):
            ctx.ok("reader/round-trip", qd, f"{n_wires} wires x segmentations = {n_runs} runs agree with the RFC 854 reference decoder")
        if not any(r == "reader/flush-at-chunk-end" for r, _ in reported):
            ctx.ok("reader/flush-at-chunk-end", qd + " | <end of chunk>")
        ctx.floor("reader/round-trip", n_wires, 900, "wires")

    with ctx.section('reader/delivery-unchanged'):
        adr = ctx.func(TELNET, "TelnetTransport.applicationDataReceived")
        dparam = adr.args.args[1].arg
        fw = [c for c in ast.walk(adr) if isinstance(c, ast.Call) and call_name(c) == "self.protocol.dataReceived"]
        ctx.check(len(fw) == 1 and len(fw[0].args) == 1 and isinstance(fw[0].args[0], ast.Name) and fw[0].args[0].id == dparam
                  and not any(isinstance(st, (ast.Assign, ast.AugAssign)) for st in statements(adr)),
                  "reader/delivery-unchanged", M + "TelnetTransport.applicationDataReceived",
                  "decoded application bytes are not passed to protocol.dataReceived exactly once and unmodified")

    with ctx.section('reader/unknown-state-raises'):
        ctx.need(_ok_rd, 'anchors of reader (section skipped)')
        top = [st for st in dr.body if isinstance(st, ast.For)]
        ctx.need(top, "dataReceived: for b in iterbytes(data)")
        chain_if = [st for st in top[0].body if isinstance(st, ast.If)]
        ctx.need(chain_if, "dataReceived: if self.state == ... chain")
        node = chain_if[0]
        while len(node.orelse) == 1 and isinstance(node.orelse[0], ast.If):
            node = node.orelse[0]
        ctx.check(any(isinstance(s, ast.Raise) for s in node.orelse), "reader/unknown-state-raises", qd + " | <else>",
                  "an unknown parse state is silently ignored (bytes are dropped) instead of raising")


def reference_step(st, b, C):
    simple = {C[k] for k in ("EOR", "NOP", "DM", "BRK", "IP", "AO", "AYT", "EC", "EL", "GA")}
    opt = {C[k] for k in ("WILL", "WONT", "DO", "DONT")}
    if st == "data":
        return "escaped" if b == IACB else "newline" if b == CRB else "data"
    if st == "escaped":
        return "data" if b == IACB or b in simple else "subnegotiation" if b == C["SB"] else "command" if b in opt else "?"
    if st in ("command", "newline"):
        return "data"
    if st == "subnegotiation":
        return "subnegotiation-escaped" if b == IACB else st
    if st == "subnegotiation-escaped":
        return "data" if b == C["SE"] else "subnegotiation"
    return "?"


def classify(got, want, err, st, want_st):
    if err:
        return "the receiver raises"
    g = b"".join(e[1] for e in got if e[0] == "app")
    w = b"".join(e[1] for e in want if e[0] == "app")
    if g != w:
        if len(g) < len(w):
            return "application bytes are lost or altered"
        return "application bytes are duplicated or altered"
    if [e for e in got if e[0] != "app"] != [e for e in want if e[0] != "app"]:
        return "commands are mis-read"
    if got != want:
        return "application data and commands are delivered out of order"
    return f"parser left in state {st!r} instead of {want_st!r}"


def find_divergence(rd, C, wire, chunks):
    """Shortest prefix of the wire (fed with the same chunking) whose decoding already disagrees with the
    reference on that prefix; returns the (state, byte) transition executed last."""
    total = 0
    bounds = []
    for ch in chunks:
        total += len(ch)
        bounds.append(total)
    for n in range(1, len(wire) + 1):
        pre = wire[:n]
        ref = reference(pre, C)
        rd.reset()
        cut = [0] + [b for b in bounds if b < n] + [n]
        try:
            for a, b in zip(cut, cut[1:]):
                rd.feed(pre[a:b])
        except ModelRaise:
            return rd.trace[-1] if rd.trace else None
        if ref is None:
            continue
        got = coalesce(rd.events + ([("app", rd.unflushed)] if rd.unflushed else []))
        if got != ref[0] or rd.state != ref[1]:
            return rd.trace[-1] if rd.trace else None
    return None


T = TELNET
MUTANTS = [
    Mutant("writeSequence-measures-then-joins", T, "    def writeSequence(self, seq):\n        self.write(b\"\".join(seq))\n\n\nclass TelnetBootstrapProtocol",
           "    def writeSequence(self, seq):\n        if sum(len(piece) for piece in seq):\n            self.write(b\"\".join(seq))\n\n\nclass TelnetBootstrapProtocol",
           expect_rule="writeSequence/"),
    Mutant("iac-escape-skipped-when-first-byte", T, "        ProtocolTransportMixin.write(self, data.replace(b\"\\xff\", b\"\\xff\\xff\"))",
           "        if IAC in data[1:]:\n            data = data.replace(IAC, IAC * 2)\n        ProtocolTransportMixin.write(self, data)", expect_rule="writer/iac-doubled"),
    Mutant("lf-translation-only-for-multibyte-writes", T, "        self.transport.write(data.replace(b\"\\n\", b\"\\r\\n\"))",
           "        if len(data) > 1:\n            data = data.replace(b\"\\n\", b\"\\r\\n\")\n        self.transport.write(data)", expect_rule="writer/lf-to-crlf"),
    Mutant("subnegotiation-buffer-kept-in-a-local", T, "                    self.state = \"subnegotiation\"\n                    self.commands = []\n", "                    self.state = \"subnegotiation\"\n                    commands = []\n",
           more=[(T, "                if b == IAC:\n                    self.state = \"subnegotiation-escaped\"\n                else:\n                    self.commands.append(b)\n",
                  "                if b == IAC:\n                    self.state = \"subnegotiation-escaped\"\n                else:\n                    commands.append(b)\n"),
                 (T, "                    commands = self.commands\n                    del self.commands\n", ""),
                 (T, "                    self.state = \"subnegotiation\"\n                    self.commands.append(b)\n", "                    self.state = \"subnegotiation\"\n                    commands.append(b)\n")],
           expect_rule="reader/state-on-instance"),
    Mutant("pending-command-byte-in-a-local", T, "                    self.state = \"command\"\n                    self.command = b\n", "                    self.state = \"command\"\n                    pending = b\n",
           more=[(T, "                command = self.command\n                del self.command\n", "                command = pending\n")], expect_rule="reader/round-trip"),
    Mutant("helper-escapes-wrong-byte", T, "        ProtocolTransportMixin.write(self, data.replace(b\"\\xff\", b\"\\xff\\xff\"))",
           "        escaped = _doubleIAC(data)\n        ProtocolTransportMixin.write(self, escaped)",
           more=[(T, "class ProtocolTransportMixin:\n", "def _doubleIAC(data):\n    return data.replace(DONT, DONT * 2)\n\n\nclass ProtocolTransportMixin:\n")], expect_rule="writer/iac-doubled"),
    Mutant("revert-F38-writeSequence", T, "    def writeSequence(self, seq):\n        self.write(b\"\".join(seq))\n\n\nclass TelnetBootstrapProtocol", "\n\nclass TelnetBootstrapProtocol",
           expect_rule="writeSequence/same-escaping-as-write"),
    Mutant("drop-iac-doubling", T, "        ProtocolTransportMixin.write(self, data.replace(b\"\\xff\", b\"\\xff\\xff\"))", "        ProtocolTransportMixin.write(self, data)",
           expect_rule="writer/iac-doubled"),
    Mutant("escaped-iac-not-delivered", T, "                if b == IAC:\n                    appDataBuffer.append(b)\n                    self.state = \"data\"\n",
           "                if b == IAC:\n                    self.state = \"data\"\n", expect_rule="reader/round-trip"),
    Mutant("crlf-restored-as-crlf", T, "                if b == b\"\\n\":\n                    appDataBuffer.append(b\"\\n\")\n", "                if b == b\"\\n\":\n                    appDataBuffer.append(b\"\\r\\n\")\n",
           expect_rule="reader/round-trip"),
    Mutant("no-flush-at-chunk-end", T, "                raise ValueError(\"How'd you do this?\")\n\n        if appDataBuffer:\n            self.applicationDataReceived(b\"\".join(appDataBuffer))\n",
           "                raise ValueError(\"How'd you do this?\")\n", expect_rule="reader/flush-at-chunk-end"),
    Mutant("flush-without-clear-before-command", T, "                if appDataBuffer:\n                    self.applicationDataReceived(b\"\".join(appDataBuffer))\n                    del appDataBuffer[:]\n                self.commandReceived(command, b)\n",
           "                if appDataBuffer:\n                    self.applicationDataReceived(b\"\".join(appDataBuffer))\n                self.commandReceived(command, b)\n", expect_rule="reader/round-trip"),
    Mutant("subneg-escape-state-not-left", T, "                else:\n                    self.state = \"subnegotiation\"\n                    self.commands.append(b)\n", "                else:\n                    self.commands.append(b)\n",
           expect_rule="reader/round-trip"),
    Mutant("negotiation-payload-unescaped", T, "        data = data.replace(IAC, IAC * 2)\n        self._write(IAC + SB + about + data + IAC + SE)", "        self._write(IAC + SB + about + data + IAC + SE)",
           expect_rule="subnegotiation/iac-doubled"),
    Mutant("lf-translation-dropped", T, "        self.transport.write(data.replace(b\"\\n\", b\"\\r\\n\"))", "        self.transport.write(data)", expect_rule="writer/lf-to-crlf"),
    Mutant("new-state-without-branch", T, "                elif b == SB:\n                    self.state = \"subnegotiation\"\n", "                elif b == SB:\n                    self.state = \"subnegotiating\"\n",
           expect_rule="reader/state-has-branch"),
    Mutant("delivery-strips-nul", T, "    def applicationDataReceived(self, data):\n        self.protocol.dataReceived(data)\n",
           "    def applicationDataReceived(self, data):\n        self.protocol.dataReceived(data.replace(b\"\\0\", b\"\"))\n", expect_rule="reader/delivery-unchanged"),
    Mutant("command-arg-state-reset-late", T, "            elif self.state == \"command\":\n                self.state = \"data\"\n                command = self.command\n",
           "            elif self.state == \"command\":\n                command = self.command\n", expect_rule="reader/round-trip"),
]
SILENT = [
    Silent("writeSequence-materialise-then-fast-path", T, "    def writeSequence(self, seq):\n        self.write(b\"\".join(seq))\n\n\nclass TelnetBootstrapProtocol",
           "    def writeSequence(self, seq):\n        seq = list(seq)\n        if any(IAC in piece or b\"\\n\" in piece for piece in seq):\n            self.write(b\"\".join(seq))\n        else:\n            self.transport.writeSequence(seq)\n\n\nclass TelnetBootstrapProtocol"),
    Silent("iac-escape-only-when-present", T, "        ProtocolTransportMixin.write(self, data.replace(b\"\\xff\", b\"\\xff\\xff\"))",
           "        if data.find(IAC) >= 0:\n            data = data.replace(IAC, IAC * 2)\n        ProtocolTransportMixin.write(self, data)"),
    Silent("write-named-temporary-and-helper", T, "        ProtocolTransportMixin.write(self, data.replace(b\"\\xff\", b\"\\xff\\xff\"))",
           "        escaped = _doubleIAC(data)\n        ProtocolTransportMixin.write(self, escaped)",
           more=[(T, "class ProtocolTransportMixin:\n", "def _doubleIAC(data):\n    return data.replace(IAC, IAC * 2)\n\n\nclass ProtocolTransportMixin:\n")]),
    Silent("writeSequence-per-element-loop", T, "    def writeSequence(self, seq):\n        self.write(b\"\".join(seq))\n\n\nclass TelnetBootstrapProtocol",
           "    def writeSequence(self, seq):\n        for piece in seq:\n            self.write(piece)\n\n\nclass TelnetBootstrapProtocol"),
    Silent("write-escapes-in-two-statements", T, "        ProtocolTransportMixin.write(self, data.replace(b\"\\xff\", b\"\\xff\\xff\"))",
           "        data = data.replace(IAC, IAC + IAC)\n        ProtocolTransportMixin.write(self, data)"),
    Silent("reader-uses-extend-and-clear", T, "                if b == IAC:\n                    appDataBuffer.append(b)\n                    self.state = \"data\"\n",
           "                if b == IAC:\n                    self.state = \"data\"\n                    appDataBuffer.extend([IAC])\n"),
    Silent("writeSequence-escapes-per-element", T, "    def writeSequence(self, seq):\n        self.write(b\"\".join(seq))\n\n\nclass TelnetBootstrapProtocol",
           "    def writeSequence(self, seq):\n        self.transport.writeSequence([s.replace(IAC, IAC * 2).replace(b\"\\n\", b\"\\r\\n\") for s in seq])\n\n\nclass TelnetBootstrapProtocol"),
]
