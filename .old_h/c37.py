"""C37 - SSH wire primitives and keys round-trip (structural agreement of writers and readers)."""
from __future__ import annotations

import ast
import struct

from sa.astx import NotConst, call_attr, call_name, const_eval, dotted, src, statements
from sa.selftest import Mutant, Silent
from sa.source import AnalysisError, methods
from sa.props._lib_h import const_is, flatten_add, lin, need, struct_fmt_norm

PROPERTY = "C37"
CM = "conch/ssh/common.py"
KY = "conch/ssh/keys.py"
QC = "twisted.conch.ssh.common."
QK = "twisted.conch.ssh.keys.Key."
TECHNIQUE = "writer/reader schema extraction and table agreement (struct formats, field order, key-type sets)"
EXPLANATION = (
    "Primitives: NS packs the length of exactly the bytes it appends; getNS/getMP unpack the same normalised struct format, slice header "
    "and body at offsets that add up (c, c+4, c+4+len, advance 4+len) and return the rest; MP's zero case equals the packed zero length, its "
    "sign-padding test is evaluated on all 256 leading bytes (pad iff >= 0x80, exactly one zero byte) and getMP reads unsigned big-endian. "
    "Keys: for blob/_fromString_BLOB, privateBlob/_fromString_PRIVATE_BLOB, _toString_AGENTV3/_fromString_AGENTV3 and "
    "_toString_LSH/_fromString_{PUBLIC,PRIVATE}_LSH the ordered field schema (kind NS/MP, count, component name) extracted from every "
    "key-type branch of the writer equals the schema the reader's branch for the same wire type consumes; every type a writer can emit has a "
    "reader branch; type tags agree with sshType(); every data[...] component exists in data() for that key class. Containers: the "
    "openssh-key-v1 writer and reader agree on magic, cipher/KDF names, key size, rounds, field order and the check-word offsets; PEM kinds = "
    "types the PEM writer accepts. Dispatch: every name _guessStringType returns and every _to*/_from* helper called exists; what the writers "
    "emit (type tags, armour lines, braces, length-prefixed tags) is classified by _guessStringType as the matching parser. Not decided: "
    "value-level equality of parsed keys, fingerprints, passphrase cryptography (cryptography library)."
)
ASSUMPTIONS = [
    "cryptography's int_to_bytes yields minimal big-endian bytes; load_pem_private_key / private_bytes are inverse (library contract)",
    "sexpy.pack / sexpy.parse are inverse on nested lists of bytes",
]

# how twisted's key class names map to SSH wire type tags (RFC 4253 6.6, RFC 5656, RFC 8709); EC is a family
WIRE = {"RSA": b"ssh-rsa", "DSA": b"ssh-dss", "Ed25519": b"ssh-ed25519", "EC": "<curve>"}
DATA_CLASS = {"RSAPublicKey": ("RSA", "public"), "RSAPrivateKey": ("RSA", "private"), "DSAPublicKey": ("DSA", "public"),
              "DSAPrivateKey": ("DSA", "private"), "EllipticCurvePublicKey": ("EC", "public"), "EllipticCurvePrivateKey": ("EC", "private"),
              "Ed25519PublicKey": ("Ed25519", "public"), "Ed25519PrivateKey": ("Ed25519", "private")}


def _c(node, env=None):
    try:
        return const_eval(node, env or {})
    except NotConst:
        return None


def _slice(e):
    if isinstance(e, ast.Subscript) and isinstance(e.slice, ast.Slice) and e.slice.step is None:
        return e.value, e.slice.lower, e.slice.upper
    return None


def _ordered_calls(node, names):
    cs = [c for c in ast.walk(node) if isinstance(c, ast.Call) and (call_name(c) in names or call_attr(c) in names)]
    return sorted(cs, key=lambda c: (c.lineno, c.col_offset))


# ---- writer / reader schema extraction ------------------------------------------------------

def type_branches(func, style):
    """{key: [stmts]} for the if/elif chain of a function.  style 'writer': tests  type == "RSA" / self.type() == "RSA";
    style 'reader': tests  keyType == b"..." / keyType in _curveTable / keyType in [b"..", ..]."""
    out = {}

    def key_of(test):
        if isinstance(test, ast.Compare) and len(test.ops) == 1:
            l, r, op = test.left, test.comparators[0], test.ops[0]
            if isinstance(l, ast.Constant) and isinstance(op, ast.Eq) and not isinstance(r, ast.Constant):
                l, r = r, l
            if style == "writer" and isinstance(op, ast.Eq) and isinstance(r, ast.Constant) and isinstance(r.value, str) \
                    and (src(l) in ("type", "self.type()", "keyType")):
                return [r.value]
            if style == "reader" and isinstance(l, ast.Name):
                if isinstance(op, ast.Eq) and isinstance(r, ast.Constant) and isinstance(r.value, bytes):
                    return [r.value]
                if isinstance(op, ast.In) and src(r) == "_curveTable":
                    return ["<curve>"]
                if isinstance(op, ast.In) and isinstance(r, (ast.List, ast.Tuple)) and all(isinstance(e, ast.Constant) for e in r.elts):
                    return [e.value for e in r.elts]
        return None

    def visit(stmts_):
        for st in stmts_:
            if isinstance(st, ast.If):
                ks = key_of(st.test)
                if ks is not None:
                    for k in ks:
                        out.setdefault(k, st.body)
                    visit(st.orelse)
                else:
                    visit(st.body)
                    visit(st.orelse)
    visit(func.body)
    return out


def writer_schema(body):
    """[(kind, name)] of the NS/MP calls concatenated in the first Return / `values = (...)` of a branch."""
    for st in body:
        tgt = None
        if isinstance(st, ast.Return) and st.value is not None:
            tgt = st.value
        elif isinstance(st, ast.Assign) and isinstance(st.value, ast.Tuple) and any(isinstance(t, ast.Name) and t.id == "values" for t in st.targets):
            return [("MP", _wname(e)) for e in st.value.elts]
        if tgt is not None:
            ops = flatten_add(tgt)
            out = []
            for o in ops:
                if isinstance(o, ast.Call) and call_attr(o) in ("NS", "MP") and len(o.args) == 1:
                    out.append((call_attr(o), _wname(o.args[0])))
                else:
                    return None
            return out
    return None


def _wname(a):
    if isinstance(a, ast.Subscript) and src(a.value) == "data" and isinstance(a.slice, ast.Constant):
        return "data:" + a.slice.value
    if isinstance(a, ast.Constant):
        return a.value
    return src(a)


def reader_schema(body):
    """[(kind, name or None)] consumed by the getNS/getMP calls of a branch, in source order."""
    out = []
    wrapper = ast.Module(body=list(body), type_ignores=[])
    for c in _ordered_calls(wrapper, ("getNS", "getMP")):
        kind = "NS" if call_attr(c) == "getNS" else "MP"
        n = _c(c.args[1]) if len(c.args) > 1 else 1
        if not isinstance(n, int):
            return None
        par = getattr(c, "_parent", None)
        names = [None] * n
        if isinstance(par, ast.Assign) and par.value is c and isinstance(par.targets[0], (ast.Tuple, ast.List)):
            tg = [src(e) for e in par.targets[0].elts]
            if len(tg) == n + 1:
                names = tg[:-1]
        out += [(kind, nm) for nm in names]
    return out


def lsh_writer(func):
    """{(visibility, type name): [field names]} from the nested list literals handed to sexpy.pack."""
    out = {}
    for c in ast.walk(func):
        if isinstance(c, ast.Call) and call_name(c) == "sexpy.pack" and c.args and isinstance(c.args[0], ast.List):
            try:
                top = c.args[0].elts[0]
                head = _c(top.elts[0])
                inner = top.elts[1]
                tname = _c(inner.elts[0])
                fields = []
                for fl in inner.elts[1:]:
                    fields.append((_c(fl.elts[0]), fl.elts[1]))
                out[(head, tname)] = fields
            except (AttributeError, IndexError):
                raise AnalysisError("C37: sexpy.pack literal shape not recognised")
    return out


def lsh_reader(func):
    """(head literal asserted, {type name: (set of kd[...] keys used, asserted len or None)})"""
    head = None
    types = {}
    for st in ast.walk(func):
        if isinstance(st, ast.Assert) and isinstance(st.test, ast.Compare) and src(st.test.left) == "sexp[0]":
            head = _c(st.test.comparators[0])
    for st in ast.walk(func):
        if isinstance(st, ast.If) and isinstance(st.test, ast.Compare) and src(st.test.left) == "sexp[1][0]" and isinstance(st.test.ops[0], ast.Eq):
            tn = _c(st.test.comparators[0])
            used = set()
            n = None
            for x in st.body:
                for y in ast.walk(x):
                    if isinstance(y, ast.Subscript) and src(y.value) == "kd" and isinstance(y.slice, ast.Constant):
                        used.add(y.slice.value)
                    if isinstance(y, ast.Assert) and isinstance(y.test, ast.Compare) and src(y.test.left) == "len(kd)":
                        n = _c(y.test.comparators[0])
            types[tn] = (used, n)
    return head, types


def eval_startswith(test, data: bytes):
    """evaluate a test built from  data.startswith(CONST), and/or/not."""
    if isinstance(test, ast.BoolOp):
        vals = [eval_startswith(v, data) for v in test.values]
        return all(vals) if isinstance(test.op, ast.And) else any(vals)
    if isinstance(test, ast.UnaryOp) and isinstance(test.op, ast.Not):
        return not eval_startswith(test.operand, data)
    if isinstance(test, ast.Call) and isinstance(test.func, ast.Attribute) and test.func.attr == "startswith" and src(test.func.value) == "data" and len(test.args) == 1:
        p = _c(test.args[0])
        if isinstance(p, bytes):
            return data.startswith(p)
    raise AnalysisError(f"C37: _guessStringType test not recognised: {src(test)[:80]}")


def guess(func, data: bytes):
    for st in func.body:
        if isinstance(st, ast.Expr) and isinstance(st.value, ast.Constant):
            continue
        if isinstance(st, ast.If) and not st.orelse:
            if eval_startswith(st.test, data):
                first = st.body[0]
                if isinstance(first, ast.Return) and isinstance(first.value, ast.Constant):
                    return first.value.value
                if isinstance(first, ast.Raise):
                    return "<raise>"
                rets = {r.value.value for r in ast.walk(st) if isinstance(r, ast.Return) and isinstance(r.value, ast.Constant)}
                return "|".join(sorted(rets))
        else:
            raise AnalysisError(f"C37: _guessStringType statement not recognised: {src(st)[:60]}")
    return None


def check(ctx):
    _ok_pr = False; _ok_ky = False; _ok_dc = False; _ok_lw = False; _ok_v1 = False; _ok_pem = False; _ok_gs = False; curve_keys = []
    with ctx.section('primitives/anchors'):
        fns = {n: ctx.func(CM, n) for n in ("NS", "getNS", "MP", "getMP")}
        fmts = {}
        _ok_pr = True
    for name in ("NS", "MP"):
        with ctx.section(f"primitives/writer/{name}"):
            ctx.need(_ok_pr, 'anchors of primitives (section skipped)')
            f = fns[name]
            q = QC + name
            rets = [st for st in statements(f) if isinstance(st, ast.Return) and st.value is not None]
            main = [r for r in rets if any(isinstance(c, ast.Call) and call_name(c) in ("struct.pack", "pack") for c in ast.walk(r.value))]
            ctx.need(main, f"{name}: return struct.pack(...) + bytes")
            ops = flatten_add(main[0].value)
            ok = len(ops) == 2 and isinstance(ops[0], ast.Call) and len(ops[0].args) == 2 and isinstance(ops[1], ast.Name) \
                and src(ops[0].args[1]) == f"len({ops[1].id})"
            ctx.check(ok, "primitive/length-of-what-is-appended", ctx.construct(q, main[0]),
                      f"{name} does not emit pack(fmt, len(x)) + x for one and the same x: the length prefix can differ from the bytes that follow")
            if ok:
                fmts[name] = _c(ops[0].args[0])
                ctx.check(struct_fmt_norm(fmts[name]) == ("big", "L"), "primitive/length-format", q, f"length prefix format {fmts[name]!r} is not a big-endian uint32 (RFC 4251 5)")
                # every rebinding of x happens before the return: trivially true for straight-line code; check no rebinding of x after len() is not needed
    with ctx.section('primitives/NS-encodes-first'):
        ctx.need(_ok_pr, 'anchors of primitives (section skipped)')
        f = fns["NS"]
        tp = f.args.args[0].arg
        enc = [st for st in statements(f) if isinstance(st, ast.Assign) and any(isinstance(t, ast.Name) and t.id == tp for t in st.targets)]
        for st in enc:
            ctx.check(isinstance(st.value, ast.Call) and call_attr(st.value) == "encode" and src(st.value.func.value) == tp, "primitive/length-of-what-is-appended",
                      ctx.construct(QC + "NS", st), "NS rebinds its argument to something other than its encoding")
    for name, wname in (("getNS", "NS"), ("getMP", "MP")):
        with ctx.section(f"primitives/reader/{name}"):
            ctx.need(_ok_pr, 'anchors of primitives (section skipped)')
            f = fns[name]
            q = QC + name
            sp_, cp = f.args.args[0].arg, f.args.args[1].arg
            ups = [c for c in ast.walk(f) if isinstance(c, ast.Call) and call_name(c) in ("struct.unpack", "unpack")]
            ctx.need(len(ups) == 1 and len(ups[0].args) == 2, f"{name}: one struct.unpack")
            rf = _c(ups[0].args[0])
            W = struct.calcsize(rf) if isinstance(rf, str) else None
            ctx.check(isinstance(rf, str) and wname in fmts and struct_fmt_norm(rf) == struct_fmt_norm(fmts[wname]), "primitive/format-agreement", q,
                      f"{name} unpacks {rf!r} but {wname} packs {fmts.get(wname)!r}")
            ust = ups[0]._parent
            ctx.need(isinstance(ust, ast.Assign) and isinstance(ust.targets[0], ast.Tuple) and len(ust.targets[0].elts) == 1, f"{name}: (l,) = unpack")
            lv = src(ust.targets[0].elts[0])
            hs = _slice(ups[0].args[1])
            cvs = [st.targets[0].id for st in f.body if isinstance(st, ast.Assign) and const_is(st.value, 0) and isinstance(st.targets[0], ast.Name)]
            ctx.need(cvs and hs is not None, f"{name}: cursor and header slice")
            cv = cvs[0]
            ok = src(hs[0]) == sp_ and hs[1] is not None and hs[2] is not None and lin(hs[1]) == (frozenset({(cv, 1)}), 0) and lin(hs[2]) == (frozenset({(cv, 1)}), W)
            ctx.check(ok, "primitive/offsets", ctx.construct(q, ust), f"the length prefix is not read from {sp_}[{cv}:{cv}+{W}]")
            # body slice: the other slice of the source inside the loop
            loops = [st for st in f.body if isinstance(st, ast.For)]
            ctx.need(loops, f"{name}: for loop")
            ctx.check(src(loops[0].iter) == f"range({cp})", "primitive/offsets", q + " | count", f"{name} does not iterate range({cp})")
            bodies = [x for x in ast.walk(loops[0]) if _slice(x) and src(_slice(x)[0]) == sp_ and x is not ups[0].args[1]]
            okb = len(bodies) == 1 and _slice(bodies[0])[1] is not None and _slice(bodies[0])[2] is not None \
                and lin(_slice(bodies[0])[1]) == (frozenset({(cv, 1)}), W) and lin(_slice(bodies[0])[2]) == (frozenset({(cv, 1), (lv, 1)}), W)
            ctx.check(okb, "primitive/offsets", q + " | body", f"the value is not {sp_}[{cv}+{W}:{cv}+{W}+{lv}]: bytes are skipped or shared between consecutive values")
            adv = [st for st in ast.walk(loops[0]) if isinstance(st, ast.AugAssign) and isinstance(st.target, ast.Name) and st.target.id == cv]
            oka = len(adv) == 1 and isinstance(adv[0].op, ast.Add) and lin(adv[0].value) == (frozenset({(lv, 1)}), W)
            ctx.check(oka, "primitive/offsets", q + " | advance", f"the cursor does not advance by {W} + {lv}")
            ret = [st for st in f.body if isinstance(st, ast.Return)]
            okr = False
            if ret:
                ops = flatten_add(ret[0].value)
                okr = len(ops) == 2 and isinstance(ops[0], ast.Call) and dotted(ops[0].func) == "tuple" and isinstance(ops[1], ast.Tuple) and len(ops[1].elts) == 1 \
                    and _slice(ops[1].elts[0]) and src(_slice(ops[1].elts[0])[0]) == sp_ and src(_slice(ops[1].elts[0])[1]) == cv and _slice(ops[1].elts[0])[2] is None
                acc = ops[0].args[0].id if okr and isinstance(ops[0].args[0], ast.Name) else None
                apps = [c for c in ast.walk(loops[0]) if isinstance(c, ast.Call) and call_name(c) == f"{acc}.append"]
                okr = okr and len(apps) == 1
            ctx.check(okr, "primitive/rest-returned", q, f"{name} does not return the values in order followed by the unread rest {sp_}[{cv}:]")
            if name == "getMP":
                fb = [c for c in ast.walk(f) if isinstance(c, ast.Call) and call_name(c) == "int.from_bytes"]
                ctx.check(len(fb) == 1 and len(fb[0].args) == 2 and const_is(fb[0].args[1], "big") and not any(k.arg == "signed" and not const_is(k.value, False) for k in fb[0].keywords)
                          and fb[0].args[0] is bodies[0] if okb else False, "primitive/mp-unsigned-big-endian", q, "getMP does not read the body as an unsigned big-endian integer")
    with ctx.section('primitives/MP-details'):
        ctx.need(_ok_pr, 'anchors of primitives (section skipped)')
        f = fns["MP"]
        q = QC + "MP"
        np_ = f.args.args[0].arg
        zero = [st for st in f.body if isinstance(st, ast.If) and isinstance(st.test, ast.Compare) and src(st.test) == f"{np_} == 0"]
        okz = bool(zero) and isinstance(zero[0].body[0], ast.Return) and "MP" in fmts and _c(zero[0].body[0].value) == struct.pack(fmts["MP"], 0)
        ctx.check(okz, "primitive/mp-zero", q, "MP(0) is not the packed zero length (an empty mpint)")
        pad = [st for st in f.body if isinstance(st, ast.If) and st not in zero]
        ctx.need(pad, "MP: sign padding if")
        bnv = [t.id for st in f.body if isinstance(st, ast.Assign) and isinstance(st.value, ast.Call) and call_attr(st.value) == "int_to_bytes" for t in st.targets if isinstance(t, ast.Name)]
        ctx.need(bnv, "MP: bn = int_to_bytes(number)")
        bn = bnv[0]
        wrong = []
        for v in range(256):
            try:
                got = bool(const_eval(pad[0].test, {bn: bytes((v, 1))}))
            except NotConst as e:
                need(ctx, False, f"MP padding test not evaluable ({e})")
            if got != (v >= 128):
                wrong.append(v)
        ctx.check(not wrong, "primitive/mp-sign-padding", ctx.construct(q, pad[0].test),
                  f"a zero byte is prepended iff the leading byte is >= 0x80 fails for leading bytes {wrong[:4]}: such values decode as negative (other SSH "
                  "implementations) or carry a non-minimal encoding")
        st = pad[0].body[0]
        okp = isinstance(st, ast.Assign) and src(st.targets[0]) == bn and len(flatten_add(st.value)) == 2 and _c(flatten_add(st.value)[0]) == b"\0" and src(flatten_add(st.value)[1]) == bn
        ctx.check(okp, "primitive/mp-sign-padding", ctx.construct(q, st), "the sign padding is not exactly one leading zero byte")

    with ctx.section('keys/anchors'):
        ky = ctx.mod(KY)
        kcls = ctx.cls(KY, "Key")
        km = methods(kcls)
        _ok_ky = True
    with ctx.section('keys/type-tags'):
        ctx.need(_ok_ky, 'anchors of keys (section skipped)')
        st_f = ctx.func(KY, "Key.sshType")
        dicts = [d for d in ast.walk(st_f) if isinstance(d, ast.Dict)]
        ctx.need(dicts, "sshType: literal table")
        table = {_c(k): _c(v) for k, v in zip(dicts[0].keys, dicts[0].values)}
        for t, w in WIRE.items():
            if t != "EC":
                ctx.check(table.get(t) == w, "keys/type-tags", f"{QK}sshType | {t}", f"sshType maps {t} to {table.get(t)!r}; RFC 4253/8709 name is {w!r}")
        curve_keys = []
        ct = ky.module_assign("_curveTable")
        s2n = ky.module_assign("_secToNist")
        ctx.need(isinstance(ct, ast.Dict) and isinstance(s2n, ast.Dict), "_curveTable / _secToNist")
        curve_keys = [_c(k) for k in ct.keys]
        nist = [_c(v) for v in s2n.values]
        ctx.check(sorted(curve_keys) == sorted(b"ecdsa-sha2-" + n for n in nist), "keys/type-tags", "twisted.conch.ssh.keys._curveTable ~ _secToNist",
                  f"curve table keys {curve_keys} are not 'ecdsa-sha2-' + the NIST names {nist}: sshType() of an EC key is not a key of _curveTable and cannot be parsed back")
    with ctx.section('keys/data-components'):
        ctx.need(_ok_ky, 'anchors of keys (section skipped)')
        data_f = ctx.func(KY, "Key.data")
        comps = {}
        for st in ast.walk(data_f):
            if isinstance(st, ast.If) and isinstance(st.test, ast.Call) and dotted(st.test.func) == "isinstance" and isinstance(st.test.args[1], ast.Attribute):
                cls_ = st.test.args[1].attr
                for r in st.body:
                    if isinstance(r, ast.Return) and isinstance(r.value, ast.Dict) and cls_ in DATA_CLASS:
                        comps[DATA_CLASS[cls_]] = {_c(k) for k in r.value.keys}
        ctx.floor("keys/data-components", len(comps), 8, "data() branches")

        def check_components(q, t, vis, schema):
            have = comps.get((t, vis), set())
            for kind, nm in schema:
                if isinstance(nm, str) and nm.startswith("data:"):
                    ctx.check(nm[5:] in have, "keys/data-components", f"{q} | {t} {nm[5:]}",
                              f"the {vis} {t} serialiser reads data()[{nm[5:]!r}] which data() does not provide for that key class (KeyError)")

        pairs = [("blob", "_fromString_BLOB", "public", 1), ("privateBlob", "_fromString_PRIVATE_BLOB", "private", 1), ("_toString_AGENTV3", "_fromString_AGENTV3", "private", 0)]
        n_schema_box = [0]
        _ok_dc = True
    for wn, rn, vis, skip in pairs:
        with ctx.section(f"keys/schema/{wn}"):
            ctx.need(_ok_dc, 'anchors of keys (section skipped)')
            wf, rf_ = ctx.func(KY, f"Key.{wn}"), ctx.func(KY, f"Key.{rn}")
            qw, qr = QK + wn, QK + rn
            wb = type_branches(wf, "writer")
            rb = type_branches(rf_, "reader")
            ctx.need(wb and rb, f"type dispatch of {wn} / {rn}")
            for t in sorted(wb):
                ws = writer_schema(wb[t])
                need(ctx, ws is not None, f"{wn}[{t}] schema")
                tag = WIRE.get(t)
                if not ctx.check(tag is not None, "keys/writer-types", f"{qw} | {t}", f"{wn} has a branch for an unknown key class {t!r}"):
                    continue
                if skip:
                    first = ws[0]
                    oktag = first[0] == "NS" and (first[1] == tag if t != "EC" else first[1] == "data:curve")
                    ctx.check(oktag, "keys/type-tags", f"{qw} | {t} tag", f"the {t} {wn} does not start with NS({tag!r}); it starts with {first!r}")
                check_components(qw, t, vis, ws)
                if not ctx.check(tag in rb, "keys/every-written-type-is-readable", f"{qr} | {t}",
                                 f"{wn} can serialise a {t} key but {rn} has no branch for wire type {tag!r}: the key does not parse back"):
                    continue
                rs = reader_schema(rb[tag])
                need(ctx, rs is not None, f"{rn}[{tag}] schema")
                wfields = ws[skip:]
                n_schema_box[0] += 1
                ctx.check([k for k, _ in wfields] == [k for k, _ in rs], "keys/field-schema", f"{qw} ~ {rn} | {t}",
                          f"{wn} writes {[k for k, _ in wfields]} for {t} but {rn} reads {[k for k, _ in rs]}: fields are mis-aligned")
                if [k for k, _ in wfields] == [k for k, _ in rs]:
                    for i, ((k, wnm), (_, rnm)) in enumerate(zip(wfields, rs)):
                        if k == "MP" and isinstance(wnm, str) and wnm.startswith("data:") and rnm is not None:
                            ctx.check(wnm[5:] == rnm, "keys/field-order", f"{qw} ~ {rn} | {t} field {i}",
                                      f"field {i} of a {t} key is written from component {wnm[5:]!r} but read as {rnm!r}: components are swapped")
            # reader feeds the right constructor arguments (name = same name)
            for tag, body in rb.items():
                for c in ast.walk(ast.Module(body=list(body), type_ignores=[])):
                    if isinstance(c, ast.Call) and call_attr(c) in ("_fromRSAComponents", "_fromDSAComponents"):
                        for kw in c.keywords:
                            if isinstance(kw.value, ast.Name):
                                ctx.check(kw.arg == kw.value.id, "keys/field-order", f"{qr} | {tag!r} {kw.arg}=",
                                          f"{rn} passes the value read as {kw.value.id!r} as component {kw.arg!r}")
    with ctx.section('keys/schema-floor'):
        ctx.floor("keys/field-schema", n_schema_box[0], 9, "type branches compared")
    with ctx.section('keys/ec-point'):
        ctx.need(_ok_ky, 'anchors of keys (section skipped)')
        rb = type_branches(km["_fromString_BLOB"], "reader")
        ecb = rb.get("<curve>", [])
        subs = [x for x in ast.walk(ast.Module(body=list(ecb), type_ignores=[])) if isinstance(x, ast.Subscript) and isinstance(x.value, ast.Call) and call_attr(x.value) == "getNS"]
        ctx.check(len(subs) == 1 and _c(subs[0].slice) == 1 and _c(subs[0].value.args[1]) == 2, "keys/field-schema", QK + "_fromString_BLOB | EC point",
                  "the EC point is not taken from the second of the two strings following the type tag")
    with ctx.section('keys/ed25519-private'):
        ctx.need(_ok_ky, 'anchors of keys (section skipped)')
        rb = type_branches(km["_fromString_PRIVATE_BLOB"], "reader")
        edb = rb.get(b"ssh-ed25519", [])
        ks = [st for st in edb if isinstance(st, ast.Assign) and _slice(st.value) and _slice(st.value)[1] is None]
        ctx.check(len(ks) == 1 and _c(_slice(ks[0].value)[2]) == 32, "keys/field-schema", QK + "_fromString_PRIVATE_BLOB | Ed25519 k",
                  "the Ed25519 private scalar is not the first 32 bytes of the 'k || a' string")
        wb = type_branches(km["privateBlob"], "writer")
        wsed = writer_schema(wb.get("Ed25519", []))
        ctx.check(wsed is not None and wsed[-1] == ("NS", "data['k'] + data['a']"), "keys/field-schema", QK + "privateBlob | Ed25519 k||a", "Ed25519 private blob does not end with NS(k || a)")

    with ctx.section('keys/lsh-writer'):
        ctx.need(_ok_ky, 'anchors of keys (section skipped)')
        lw = lsh_writer(ctx.func(KY, "Key._toString_LSH"))
        ctx.floor("keys/lsh", len(lw), 4, "sexpy.pack literals")
        _ok_lw = True
    for rn, head in (("_fromString_PUBLIC_LSH", b"public-key"), ("_fromString_PRIVATE_LSH", b"private-key")):
        with ctx.section(f"keys/lsh/{rn}"):
            ctx.need(_ok_lw, 'anchors of keys (section skipped)')
            rh, rt = lsh_reader(ctx.func(KY, f"Key.{rn}"))
            qr = QK + rn
            ctx.check(rh == head, "keys/lsh", qr + " | head", f"{rn} asserts head {rh!r}, expected {head!r}")
            written = {tn: fl for (h, tn), fl in lw.items() if h == head}
            ctx.check(bool(written), "keys/lsh", QK + f"_toString_LSH | {head!r}", f"_toString_LSH never writes a {head!r} expression")
            for tn, fl in sorted(written.items()):
                names = [n for n, v in fl]
                if not ctx.check(tn in rt, "keys/every-written-type-is-readable", f"{qr} | {tn!r}",
                                 f"_toString_LSH writes key type {tn!r} under {head!r} but {rn} has no branch for it"):
                    continue
                used, n = rt[tn]
                ctx.check(used <= set(names), "keys/lsh", f"{qr} | {tn!r} fields", f"{rn} needs fields {sorted(used - set(names))} that _toString_LSH does not write for {tn!r}")
                ctx.check(n is None or n == len(names), "keys/lsh", f"{qr} | {tn!r} count", f"{rn} asserts {n} fields for {tn!r}; _toString_LSH writes {len(names)}")
                for nm, v in fl:
                    sl = _slice(v)
                    ctx.check(sl is not None and isinstance(sl[0], ast.Call) and call_attr(sl[0]) == "MP" and _c(sl[1]) == 4 and sl[2] is None, "keys/lsh",
                              f"{QK}_toString_LSH | {head!r} {tn!r} {nm!r}", "an LSH number is not MP(x)[4:] (mpint body without its length prefix, re-prefixed by the reader)")

    with ctx.section('v1/anchors'):
        ctx.need(_ok_ky, 'anchors of v1 (section skipped)')
        wv, rv = ctx.func(KY, "Key._toPrivateOpenSSH_v1"), ctx.func(KY, "Key._fromPrivateOpenSSH_v1")
        qw, qr = QK + "_toPrivateOpenSSH_v1", QK + "_fromPrivateOpenSSH_v1"

        def consts_assigned(f, name):
            return [_c(st.value) for st in ast.walk(f) if isinstance(st, ast.Assign) and any(isinstance(t, ast.Name) and t.id == name for t in st.targets)]
        _ok_v1 = True
    with ctx.section('v1/names-and-sizes'):
        ctx.need(_ok_v1, 'anchors of v1 (section skipped)')
        wmag = [c.value for c in ast.walk(wv) if isinstance(c, ast.Constant) and isinstance(c.value, bytes) and c.value.startswith(b"openssh-key")]
        rmag = [c.value for c in ast.walk(rv) if isinstance(c, ast.Constant) and isinstance(c.value, bytes) and c.value.startswith(b"openssh-key")]
        ctx.check(len(set(wmag)) == 1 and set(rmag) == set(wmag) and len(rmag) >= 2, "container/v1-magic", qw + " ~ _fromPrivateOpenSSH_v1",
                  f"magic written {wmag} vs checked/stripped {rmag}")
        wc = [c for c in consts_assigned(wv, "cipherName") if c and c != b"none"]
        rc = set()
        for t in ast.walk(rv):
            if isinstance(t, ast.Compare) and src(t.left) == "cipher" and isinstance(t.ops[0], ast.In):
                rc |= set(_c(t.comparators[0]) or ())
        for c in wc:
            ctx.check(c in rc, "container/v1-cipher", f"{qw} | {c!r}", f"private keys are encrypted with {c!r} but the reader only accepts {sorted(rc)}")
            # key size: reader derives it from the name
            ks_r = [st.value for st in ast.walk(rv) if isinstance(st, ast.Assign) and src(st.targets[0]) == "keySize"]
            ks_w = [x for x in consts_assigned(wv, "keySize") if isinstance(x, int)]
            ok = bool(ks_r) and bool(ks_w) and _c(ks_r[0], {"cipher": c}) == ks_w[0]
            ctx.check(ok, "container/v1-cipher", f"{qw} | {c!r} key size", f"writer uses a {ks_w} byte key, reader derives {_c(ks_r[0], {'cipher': c}) if ks_r else None} from the cipher name")
        ctx.floor("container/v1-cipher", len(wc), 1)
        wk = [c for c in consts_assigned(wv, "kdfName") if c and c != b"none"]
        rk = {_c(t.comparators[0]) for t in ast.walk(rv) if isinstance(t, ast.Compare) and src(t.left) == "kdf" and isinstance(t.ops[0], ast.Eq)}
        for k in wk:
            ctx.check(k in rk, "container/v1-kdf", f"{qw} | {k!r}", f"KDF {k!r} is written but the reader only knows {sorted(x for x in rk if x)}")
        rounds_w = [x for x in consts_assigned(wv, "rounds") if isinstance(x, int)]
        kdfc = [c for c in ast.walk(wv) if isinstance(c, ast.Call) and call_name(c) == "bcrypt.kdf"]
        okr = len(kdfc) == 1 and len(kdfc[0].args) >= 4 and bool(rounds_w) and (_c(kdfc[0].args[3]) == rounds_w[0] or src(kdfc[0].args[3]) == "rounds")
        ctx.check(okr, "container/v1-kdf", qw + " | rounds", "the number of bcrypt rounds recorded in the file differs from the number used to derive the key")
        for f_, q_ in ((wv, qw), (rv, qr)):
            kc = [c for c in ast.walk(f_) if isinstance(c, ast.Call) and call_name(c) == "bcrypt.kdf"]
            ok = len(kc) == 1 and src(kc[0].args[2]) == "keySize + ivSize"
            cip = [c for c in ast.walk(f_) if isinstance(c, ast.Call) and call_name(c) == "Cipher"]
            ok = ok and len(cip) == 1 and "[:keySize]" in src(cip[0].args[0]) and "[keySize:keySize + ivSize]" in src(cip[0].args[1]) and "modes.CTR" in src(cip[0].args[1])
            ctx.check(ok, "container/v1-cipher", q_ + " | key/iv split", "key and IV are not derived as kdf(..)[:keySize] and [keySize:keySize+ivSize] in CTR mode")
    with ctx.section('v1/field-order'):
        ctx.need(_ok_v1, 'anchors of v1 (section skipped)')
        blob_st = [st for st in wv.body if isinstance(st, ast.Assign) and src(st.targets[0]) == "blob"]
        ctx.need(blob_st, "_toPrivateOpenSSH_v1: blob = ...")
        wseq = []
        for o in flatten_add(blob_st[0].value):
            if isinstance(o, ast.Call) and call_attr(o) == "NS":
                wseq.append("NS")
            elif isinstance(o, ast.Call) and call_name(o) == "struct.pack":
                wseq.append("U32=" + src(o.args[1]))
            elif isinstance(o, ast.Constant):
                wseq.append("MAGIC")
            else:
                wseq.append("?" + src(o)[:20])
        rseq = ["MAGIC"]
        def top_level(c):
            n = c
            while not isinstance(n, ast.stmt):
                n = n._parent
            return n._parent is rv
        for c in [c for c in _ordered_calls(rv, ("getNS", "struct.unpack")) if top_level(c)]:
            if call_attr(c) == "getNS" and src(c.args[0]).startswith(("keyList", "rest")):
                rseq += ["NS"] * (_c(c.args[1]) if len(c.args) > 1 else 1)
            elif call_name(c) == "struct.unpack" and src(c.args[1]).startswith("rest"):
                rseq.append("U32=1")
        ctx.check(wseq == rseq, "container/v1-field-order", qw + " ~ _fromPrivateOpenSSH_v1", f"writer lays out {wseq}, reader consumes {rseq}")
        nkeys = [t for t in ast.walk(rv) if isinstance(t, ast.Compare) and src(t.left) == "n" and isinstance(t.ops[0], ast.NotEq)]
        ctx.check(bool(nkeys) and _c(nkeys[0].comparators[0]) == 1, "container/v1-field-order", qr + " | key count", "reader does not insist on exactly the one key the writer stores")
    with ctx.section('v1/check-words'):
        ctx.need(_ok_v1, 'anchors of v1 (section skipped)')
        pk = [st for st in wv.body if isinstance(st, ast.Assign) and src(st.targets[0]) == "privKeyList"]
        ctx.need(pk, "_toPrivateOpenSSH_v1: privKeyList = ...")
        ops = flatten_add(pk[0].value)
        chk = [c for c in consts_assigned(wv, "check")]
        chk_call = [st.value for st in wv.body if isinstance(st, ast.Assign) and src(st.targets[0]) == "check"]
        n_chk = _c(chk_call[0].args[0]) if chk_call and isinstance(chk_call[0], ast.Call) and chk_call[0].args else None
        okw = len(ops) == 4 and src(ops[0]) == "check" and src(ops[1]) == "check" and src(ops[2]) == "self.privateBlob()" and isinstance(ops[3], ast.Call) and call_attr(ops[3]) == "NS"
        ctx.check(okw and n_chk == 4, "container/v1-check-words", ctx.construct(qw, pk[0]), "the decrypted list is not check || check || privateBlob || NS(comment) with a 4-byte check word")
        rsl = sorted((src(c.args[1]) for c in ast.walk(rv) if isinstance(c, ast.Call) and call_name(c) == "struct.unpack" and src(c.args[1]).startswith("privKeyList")))
        fin = [c for c in ast.walk(rv) if isinstance(c, ast.Call) and call_attr(c) == "_fromString_PRIVATE_BLOB"]
        cmpc = [t for t in ast.walk(rv) if isinstance(t, ast.Compare) and {src(t.left), src(t.comparators[0])} == {"check1", "check2"} and isinstance(t.ops[0], ast.NotEq)]
        ctx.check(rsl == ["privKeyList[4:8]", "privKeyList[:4]"] and len(fin) == 1 and src(fin[0].args[0]) == "privKeyList[8:]" and bool(cmpc), "container/v1-check-words", qr,
                  "reader does not compare the two 4-byte check words and parse the private blob from offset 8")
    with ctx.section('pem-kinds'):
        ctx.need(_ok_ky, 'anchors of pem-kinds (section skipped)')
        pem_r = ctx.func(KY, "Key._fromPrivateOpenSSH_PEM")
        kinds = set()
        for t in ast.walk(pem_r):
            if isinstance(t, ast.Compare) and src(t.left) == "kind" and isinstance(t.ops[0], ast.In):
                kinds |= set(_c(t.comparators[0]) or ())
        pem_w = ctx.func(KY, "Key._toPrivateOpenSSH_PEM")
        excl = {_c(t.comparators[0]) for t in ast.walk(pem_w) if isinstance(t, ast.Compare) and src(t.left) == "self.type()" and isinstance(t.ops[0], ast.NotEq)}
        writes = {t.encode() for t in WIRE if t not in excl}
        ctx.check(writes <= kinds, "container/pem-kinds", QK + "_toPrivateOpenSSH_PEM ~ _fromPrivateOpenSSH_PEM",
                  f"PEM is written for key classes {sorted(writes)} but only {sorted(kinds)} are read back")

        _ok_pem = True
    with ctx.section('dispatch/names'):
        ctx.need(_ok_ky, 'anchors of dispatch (section skipped)')
        gf = ctx.func(KY, "Key._guessStringType")
        names = {r.value.value for r in ast.walk(gf) if isinstance(r, ast.Return) and isinstance(r.value, ast.Constant) and isinstance(r.value.value, str)}
        ctx.floor("dispatch/guess-names", len(names), 5)
        for n in sorted(names):
            ctx.check(f"_fromString_{n.upper()}" in km, "dispatch/guess-names", f"{QK}_guessStringType | {n!r}", f"_guessStringType returns {n!r} but Key has no _fromString_{n.upper()}")
        tos = sorted(n[len("_toString_"):] for n in km if n.startswith("_toString_"))
        parsers = {"OPENSSH": ["_fromString_PUBLIC_OPENSSH", "_fromString_PRIVATE_OPENSSH"], "LSH": ["_fromString_PUBLIC_LSH", "_fromString_PRIVATE_LSH"], "AGENTV3": ["_fromString_AGENTV3"]}
        for t in tos:
            ctx.check(t in parsers and all(p in km for p in parsers[t]), "dispatch/format-has-parser", f"{QK}_toString_{t}", f"format {t} can be written but has no parser(s) {parsers.get(t)}")
        ctx.floor("dispatch/format-has-parser", len(tos), 3)
        n_calls = 0
        for name, fn in km.items():
            for c in ast.walk(fn):
                if isinstance(c, ast.Call) and isinstance(c.func, ast.Attribute) and isinstance(c.func.value, ast.Name) and c.func.value.id in ("self", "cls") \
                        and (c.func.attr.startswith("_from") or c.func.attr.startswith("_to")):
                    n_calls += 1
                    ctx.check(c.func.attr in km, "dispatch/helper-exists", f"{QK}{name} | {c.func.attr}", f"{name} calls {c.func.attr} which Key does not define")
        ctx.floor("dispatch/helper-exists", n_calls, 15)
        _ok_gs = True
    with ctx.section('dispatch/guess-tags'):
        ctx.need(_ok_gs, 'anchors of dispatch (section skipped)')
        tags = [w for t, w in WIRE.items() if t != "EC"] + curve_keys
        for tag in tags:
            ctx.check(guess(gf, tag + b" AAAAB3Nza comment") == "public_openssh", "dispatch/guess-recognises-written", f"{QK}_guessStringType | {tag!r} text",
                      f"a public OpenSSH line starting with {tag!r} is classified as {guess(gf, tag + b' AAAA')!r}")
            blobhead = struct.pack(">L", len(tag)) + tag + b"\0\0\0\1\1"
            ctx.check(guess(gf, blobhead) == "agentv3|blob", "dispatch/guess-recognises-written", f"{QK}_guessStringType | {tag!r} blob",
                      f"a binary blob starting with NS({tag!r}) is classified as {guess(gf, blobhead)!r}")
    with ctx.section('dispatch/guess-armour'):
        ctx.need(_ok_gs, 'anchors of dispatch (section skipped)')
        ctx.need(_ok_v1 and _ok_pem, "v1 / PEM anchors (section skipped)")
        armour = [c.value for c in ast.walk(wv) if isinstance(c, ast.Constant) and isinstance(c.value, bytes) and c.value.startswith(b"-----BEGIN")]
        ctx.need(armour, "v1 BEGIN line")
        ctx.check(guess(gf, armour[0] + b"\nAAAA\n") == "private_openssh", "dispatch/guess-recognises-written", f"{QK}_guessStringType | v1 armour", "the v1 armour line is not classified private_openssh")
        po = ctx.func(KY, "Key._fromString_PRIVATE_OPENSSH")
        disc = [t for t in ast.walk(po) if isinstance(t, ast.Compare) and isinstance(t.ops[0], ast.Eq) and isinstance(t.left, ast.Subscript) and isinstance(t.comparators[0], ast.Constant)]
        okd = False
        if disc and _slice(disc[0].left):
            lo, hi = _c(_slice(disc[0].left)[1]), _c(_slice(disc[0].left)[2])
            okd = armour[0][lo:hi] == disc[0].comparators[0].value
            kl = [st.value for st in ast.walk(pem_r) if isinstance(st, ast.Assign) and src(st.targets[0]) == "kind"]
            okd = okd and bool(kl) and _slice(kl[0]) is not None and (_c(_slice(kl[0])[1]), _c(_slice(kl[0])[2])) == (lo, hi) \
                and all((b"-----BEGIN " + k + b" PRIVATE KEY-----")[lo:hi] == k for k in kinds)
        ctx.check(okd, "dispatch/guess-recognises-written", QK + "_fromString_PRIVATE_OPENSSH | v1 vs PEM",
                  "the armour-line slice that tells v1 from PEM (and names the PEM kind) does not extract 'OPENSSH' / the kind from '-----BEGIN <kind> PRIVATE KEY-----'")
    with ctx.section('dispatch/guess-lsh'):
        ctx.need(_ok_gs, 'anchors of dispatch (section skipped)')
        lshw = ctx.func(KY, "Key._toString_LSH")
        br = [c.value for r in ast.walk(lshw) if isinstance(r, ast.Return) and r.value is not None for c in flatten_add(r.value)[:1] if isinstance(c, ast.Constant)]
        ctx.check(bool(br) and guess(gf, br[0] + b"KDEwOnB1YmxpYy1rZXk=}") == "public_lsh", "dispatch/guess-recognises-written", f"{QK}_guessStringType | LSH public", "a public LSH key ({...}) is not classified public_lsh")
        ctx.check(guess(gf, b"(11:private-key(3:dsa") == "private_lsh", "dispatch/guess-recognises-written", f"{QK}_guessStringType | LSH private", "a private LSH s-expression is not classified private_lsh")

    with ctx.section('keys/fixed-width'):
        _fixed_width(ctx)
    with ctx.section('provenance/binary-input'):
        _provenance(ctx)

# ---- fixed-width fields ------------------------------------------------------------------------------------

def _conv_kind(e, al):
    """how an operand of a byte concatenation is sized: ('const', n) / ('fixed', width text) / ('minimal',) / ('opaque',)"""
    from sa.props._lib_h import csrc
    if isinstance(e, ast.Constant) and isinstance(e.value, bytes):
        return ("const", len(e.value))
    if isinstance(e, ast.Call):
        nm = call_attr(e)
        if nm == "int_to_bytes":
            if len(e.args) == 2 and not const_is(e.args[1], None):
                return ("fixed", csrc(e.args[1], al))
            kw = [k for k in e.keywords if k.arg == "length"]
            if kw and not const_is(kw[0].value, None):
                return ("fixed", csrc(kw[0].value, al))
            return ("minimal",)
        if nm == "to_bytes" and e.args:
            w = e.args[0]
            if any(isinstance(x, ast.Attribute) and x.attr == "bit_length" for x in ast.walk(w)):
                return ("minimal",)
            order = e.args[1] if len(e.args) > 1 else next((k.value for k in e.keywords if k.arg == "byteorder"), None)
            if order is not None and not const_is(order, "big"):
                return ("opaque",)
            return ("fixed", csrc(w, al))
        if nm in ("rjust", "zfill") and e.args:
            return ("fixed", csrc(e.args[0], al))
    if isinstance(e, ast.Subscript) and isinstance(e.value, ast.Call) and call_attr(e.value) == "MP":
        return ("minimal",)
    return ("opaque",)


def _width_for_key_size(width_text):
    """evaluate a width expression over the key sizes of the supported curves; None when not evaluable"""
    tree = ast.parse(width_text, mode="eval").body

    class R(ast.NodeTransformer):
        def visit_Attribute(self, node):
            if node.attr == "key_size":
                return ast.Name(id="KS", ctx=ast.Load())
            return self.generic_visit(node)
    tree = ast.fix_missing_locations(R().visit(tree))
    out = {}
    for ks in (256, 384, 521):
        v = _c(tree, {"KS": ks})
        if not isinstance(v, int):
            return None
        out[ks] = v
    return out


def _fixed_width(ctx):
    from sa.props._lib_h import local_aliases, pure_expr
    kcls = ctx.cls(KY, "Key")
    km = methods(kcls)
    n_cat = 0
    # (1) general: inside an NS(...) payload built by concatenation no operand may be a minimal-length integer encoding
    for name, fn in km.items():
        al = local_aliases(fn, allow=pure_expr)
        for c in ast.walk(fn):
            if isinstance(c, ast.Call) and call_attr(c) == "NS" and len(c.args) == 1:
                ops = flatten_add(c.args[0])
                if len(ops) < 2:
                    continue
                n_cat += 1
                kinds = [_conv_kind(o, al) for o in ops]
                bad = [src(o)[:50] for o, k in zip(ops, kinds) if k == ("minimal",)]
                ctx.check(not bad, "keys/fixed-width-fields", f"{QK}{name} | {src(c)[:80]}",
                          f"a variable-length integer encoding ({bad}) is concatenated without its own length prefix: values with leading zero bytes give a "
                          "shorter string, the reader cannot find the field boundaries (fromString(toString()) fails / fingerprint differs)")
    ctx.floor("keys/fixed-width-fields", n_cat, 2, "concatenated NS payloads")
    # (2) the EC public point: 0x04 || X || Y with both coordinates padded to the field width; the reader hands the string to
    #     from_encoded_point, which requires exactly 1 + 2 * ceil(key_size / 8) bytes
    wb = type_branches(km["blob"], "writer")
    rb = type_branches(km["_fromString_BLOB"], "reader")
    ctx.need("EC" in wb and "<curve>" in rb, "EC branches of blob / _fromString_BLOB")
    reader_fixed = any(isinstance(c, ast.Call) and call_attr(c) in ("from_encoded_point", "_fromECEncodedPoint") for st in rb["<curve>"] for c in ast.walk(st))
    ctx.check(reader_fixed, "keys/fixed-width-fields", QK + "_fromString_BLOB | EC point consumer",
              "the reader no longer hands the point to a SEC1 decoder (fixed 1 + 2*width bytes): writer/reader width kinds must be re-established")
    al = local_aliases(km["blob"], allow=pure_expr)
    pts = []
    for st in wb["EC"]:
        for c in ast.walk(st):
            if isinstance(c, ast.Call) and call_attr(c) == "NS" and len(c.args) == 1 and len(flatten_add(c.args[0])) >= 2:
                pts.append(c)
    if ctx.check(len(pts) == 1, "keys/fixed-width-fields", QK + "blob | EC point", f"the EC branch of blob() has {len(pts)} concatenated point strings (one expected)"):
        ops = flatten_add(pts[0].args[0])
        kinds = [_conv_kind(o, al) for o in ops]
        shape = len(ops) == 3 and kinds[0] == ("const", 1) and _c(ops[0]) == b"\x04" and kinds[1][0] == "fixed" and kinds[2][0] == "fixed"
        ctx.check(shape, "keys/fixed-width-fields", QK + "blob | EC point layout",
                  f"the EC point is not 0x04 || X || Y with X and Y converted at a fixed width (operand kinds: {kinds}); the reader (from_encoded_point) requires "
                  "1 + 2*ceil(key_size/8) bytes, so a coordinate with a leading zero byte makes the blob unparseable")
        if shape:
            ctx.check(kinds[1][1] == kinds[2][1], "keys/fixed-width-fields", QK + "blob | EC point widths agree", f"X is {kinds[1][1]} bytes wide but Y is {kinds[2][1]}")
            ws = _width_for_key_size(kinds[1][1])
            ctx.check(ws == {256: 32, 384: 48, 521: 66}, "keys/fixed-width-fields", QK + "blob | EC coordinate width",
                      f"coordinate width {kinds[1][1]} evaluates to {ws} for key sizes 256/384/521; SEC1 requires 32/48/66 bytes")
            names = [src(o.args[0]) if isinstance(o, ast.Call) and o.args and call_attr(o) == "int_to_bytes" else src(o.func.value) if isinstance(o, ast.Call) and isinstance(o.func, ast.Attribute) else "?"
                     for o in ops[1:]]
            ctx.check(names == ["data['x']", "data['y']"], "keys/field-order", QK + "blob | EC point X then Y", f"the point is built from {names}, expected x then y")
    # (3) Ed25519: the private scalar is the first 32 bytes of k||a on the reader side and data()['k'] is the raw 32-byte seed on the writer side
    data_f = km["data"]
    raw = [c for c in ast.walk(data_f) if isinstance(c, ast.Call) and call_attr(c) in ("private_bytes", "public_bytes") and "Raw" in src(c)]
    ctx.check(len(raw) >= 3, "keys/fixed-width-fields", QK + "data | Ed25519 raw encodings", "Ed25519 components are no longer taken as the fixed-size Raw encodings (32 bytes)")


# ---- provenance: the byte string handed to a binary parser is the caller's byte string ---------------------

_MODIFIERS = {"strip", "lstrip", "rstrip", "replace", "translate", "split", "rsplit", "splitlines", "decode", "lower", "upper", "expandtabs",
              "partition", "rpartition", "removeprefix", "removesuffix", "center", "ljust", "rjust", "zfill", "join"}


def _modifications(expr, name):
    """kinds of value-changing operations applied (directly or nested) to local ``name`` inside expr."""
    out = []
    for n in ast.walk(expr):
        if isinstance(n, ast.Call) and isinstance(n.func, ast.Attribute) and n.func.attr in _MODIFIERS \
                and any(isinstance(x, ast.Name) and x.id == name for x in ast.walk(n.func.value)):
            out.append("." + n.func.attr + "()")
        if isinstance(n, ast.Subscript) and any(isinstance(x, ast.Name) and x.id == name for x in ast.walk(n.value)) \
                and not any(isinstance(c, ast.Call) and call_attr(c) in ("getNS", "getMP") for c in ast.walk(n.value)):
            out.append("[" + src(n.slice) + "]")
    return out


def _parser_kind(fn):
    """'binary' when the parser feeds its data parameter straight into the length-prefixed readers (getNS / getMP / struct.unpack),
    'text' when it first goes through an armour / line / s-expression decoder; None when it does neither."""
    if len(fn.args.args) < 2:
        return None
    p = fn.args.args[1].arg
    raw = decoded = False
    for c in ast.walk(fn):
        if not isinstance(c, ast.Call) or not c.args:
            continue
        a0 = c.args[0]
        direct = isinstance(a0, ast.Name) and a0.id == p
        inside = any(isinstance(x, ast.Name) and x.id == p for x in ast.walk(a0))
        nm = call_attr(c)
        if nm in ("getNS", "getMP", "unpack") and direct:
            raw = True
        if nm in ("decodebytes", "b64decode", "parse", "load_pem_private_key", "load_ssh_public_key", "_fromPrivateOpenSSH_v1", "_fromPrivateOpenSSH_PEM") and inside:
            decoded = True
    for n in ast.walk(fn):
        if isinstance(n, ast.Call) and isinstance(n.func, ast.Attribute) and n.func.attr in ("splitlines", "split", "startswith") \
                and any(isinstance(x, ast.Name) and x.id == p for x in ast.walk(n.func.value)):
            decoded = True
    if raw and not decoded:
        return "binary"
    if decoded:
        return "text"
    return None


def _provenance(ctx):
    from sa.props._lib_h import edge_path, stmts as cfg_stmts, assigned_pairs
    kcls = ctx.cls(KY, "Key")
    km = methods(kcls)
    kinds = {n[len("_fromString_"):]: _parser_kind(fn) for n, fn in km.items() if n.startswith("_fromString_")}
    binary = sorted(k for k, v in kinds.items() if v == "binary")
    text = sorted(k for k, v in kinds.items() if v == "text")
    ctx.note(f"parser classes: binary={binary} text={text}")
    ctx.need(len(binary) >= 3 and len(text) >= 3 and None not in kinds.values(), f"classification of _fromString_* parsers ({kinds})")
    # (1) inside Key.fromString: every rebinding of the data parameter that can reach the dispatch
    f = ctx.func(KY, "Key.fromString")
    g = ctx.cfg(f)
    q = QK + "fromString"
    dp, tp = f.args.args[1].arg, f.args.args[2].arg
    mvars = {t.id for st in statements(f) if isinstance(st, ast.Assign) and isinstance(st.value, ast.Call) and dotted(st.value.func) == "getattr"
             and any("_fromString_" in src(a) for a in st.value.args) for t in st.targets if isinstance(t, ast.Name)}
    ctx.need(mvars, "fromString: method = getattr(cls, f'_fromString_{type.upper()}')")
    disp = g.find(lambda x: isinstance(x, ast.Call) and isinstance(x.func, ast.Name) and x.func.id in mvars)
    ctx.need(disp, "fromString: method(data ...) dispatch")

    def text_only_edges():
        """test edges on which the format is known to be a text format"""
        out = []
        for t in g.ids(lambda n: n.kind == "test"):
            e = g.node(t).ast
            if not (isinstance(e, ast.Compare) and len(e.ops) == 1 and src(e.left) in (tp, f"{tp}.lower()", f"{tp}.upper()")):
                continue
            r = e.comparators[0]
            vals = [r.value] if isinstance(r, ast.Constant) else [x.value for x in r.elts] if isinstance(r, (ast.Tuple, ast.List, ast.Set)) and all(isinstance(x, ast.Constant) for x in r.elts) else None
            if vals is None or not all(isinstance(v, str) for v in vals):
                continue
            up = {v.upper() for v in vals}
            if isinstance(e.ops[0], (ast.In, ast.Eq)) and up <= set(text):
                out.append((t, "T"))
            if isinstance(e.ops[0], (ast.NotIn, ast.NotEq)) and set(binary) <= up:
                out.append((t, "T"))
            if isinstance(e.ops[0], (ast.In, ast.Eq)) and set(binary) <= up:
                out.append((t, "F"))
        return out
    tedges = text_only_edges()
    n_sites = 0
    for n in cfg_stmts(g, lambda st: isinstance(st, (ast.Assign, ast.AugAssign, ast.AnnAssign))):
        st = g.node(n).ast
        pairs_ = assigned_pairs(st) if isinstance(st, (ast.Assign, ast.AnnAssign)) else [(st.target, st.value)]
        for t, v in pairs_:
            if not (isinstance(t, ast.Name) and t.id == dp):
                continue
            n_sites += 1
            if edge_path(g, [n], disp, strict=True) is None:
                continue
            mods = _modifications(v, dp) if v is not None else ["<unpacking>"]
            conv = isinstance(v, ast.Call) and call_attr(v) == "encode" and src(v.func.value) == dp
            if isinstance(st, ast.AugAssign):
                mods = mods or ["augmented assignment"]
            if conv:
                guarded = any(isinstance(g.node(t_).ast, ast.Call) and dotted(g.node(t_).ast.func) == "isinstance" and lab == "T" for t_, lab in g.edge_guards(n))
                ctx.check(guarded, "input/binary-formats-unmodified", ctx.construct(q, st), "the input is re-encoded without being known to be a str")
                continue
            if not mods and v is not None and src(v) in (dp, f"bytes({dp})"):
                ctx.ok("input/binary-formats-unmodified", ctx.construct(q, st))
                continue
            only_text = bool(tedges) and edge_path(g, [g.entry], [n], avoid_edges=tedges) is None
            ctx.check(only_text, "input/binary-formats-unmodified", ctx.construct(q, st),
                      f"fromString rewrites the key data ({', '.join(mods) or src(v)[:40]}) before dispatching to the parsers, also for the binary formats "
                      f"{binary}: a blob whose last byte happens to be 0x20 / 0x09-0x0d (or whatever the operation removes) loses it - the key fails to parse or "
                      "silently parses to a different key")
    for d in disp:
        for c in [x for x in ast.walk(g.node(d).ast) if isinstance(x, ast.Call) and isinstance(x.func, ast.Name) and x.func.id in mvars]:
            n_sites += 1
            a0 = c.args[0] if c.args else None
            mods = _modifications(a0, dp) if a0 is not None else ["<no data argument>"]
            ok = isinstance(a0, ast.Name) and a0.id == dp
            only_text = bool(tedges) and edge_path(g, [g.entry], [d], avoid_edges=tedges) is None
            ctx.check(ok or only_text, "input/binary-formats-unmodified", ctx.construct(q, c),
                      f"the parser is not handed the caller's byte string but {src(a0)[:50] if a0 is not None else '?'} ({', '.join(mods)}): binary formats {binary} lose bytes")
    ctx.floor("input/binary-formats-unmodified", n_sites, 2, "data rebinding / dispatch sites in fromString")
    # fromFile passes the file content on unchanged
    ff = ctx.func(KY, "Key.fromFile")
    for c in ast.walk(ff):
        if isinstance(c, ast.Call) and call_attr(c) == "fromString" and c.args:
            bad = [n.func.attr for n in ast.walk(c.args[0]) if isinstance(n, ast.Call) and isinstance(n.func, ast.Attribute) and n.func.attr in _MODIFIERS]
            ctx.check(not bad and not any(isinstance(n, ast.Subscript) for n in ast.walk(c.args[0])), "input/binary-formats-unmodified", ctx.construct(QK + "fromFile", c),
                      f"fromFile modifies the file content ({bad}) before parsing: binary key files lose bytes")
    # (2) at the head of each binary parser: the parameter reaches getNS / getMP unmodified
    for k in binary:
        fn = km["_fromString_" + k]
        ctx.functions.add(f"{KY}:Key._fromString_{k}")
        p = fn.args.args[1].arg
        qn = QK + "_fromString_" + k
        firsts = _ordered_calls(fn, ("getNS", "getMP"))
        ctx.need(firsts, f"_fromString_{k}: getNS/getMP")
        first = firsts[0]
        ok = isinstance(first.args[0], ast.Name) and first.args[0].id == p
        ctx.check(ok, "input/binary-formats-unmodified", f"{qn} | first field", f"the first length-prefixed field is read from {src(first.args[0])[:50]}, not from the raw parameter {p}")
        for st in ast.walk(fn):
            if isinstance(st, ast.Assign) and (st.lineno, st.col_offset) < (first.lineno, first.col_offset) and st.value is not first \
                    and not any(c is first for c in ast.walk(st.value)):
                mods = _modifications(st.value, p)
                if mods:
                    ctx.check(False, "input/binary-formats-unmodified", ctx.construct(qn, st),
                              f"the binary {k} parser trims / rewrites its input ({', '.join(mods)}) before reading the length-prefixed fields")


MUTANTS = [
    Mutant("ec-point-minimal-coordinates", KY, "                    + utils.int_to_bytes(data[\"x\"], byteLength)\n                    + utils.int_to_bytes(data[\"y\"], byteLength)\n",
           "                    + data[\"x\"].to_bytes((data[\"x\"].bit_length() + 7) // 8, \"big\")\n                    + data[\"y\"].to_bytes((data[\"y\"].bit_length() + 7) // 8, \"big\")\n",
           expect_rule="keys/fixed-width-fields"),
    Mutant("ec-point-y-width-dropped", KY, "                    + utils.int_to_bytes(data[\"y\"], byteLength)\n", "                    + utils.int_to_bytes(data[\"y\"])\n", expect_rule="keys/fixed-width-fields"),
    Mutant("ec-width-floor-instead-of-ceil", KY, "            byteLength = (self._keyObject.curve.key_size + 7) // 8\n", "            byteLength = self._keyObject.curve.key_size // 8\n", expect_rule="keys/fixed-width-fields"),
    Mutant("dispatch-trims-trailing-whitespace", KY, "            if passphrase:\n                raise BadKeyError(\"key not encrypted\")\n            return method(data)\n",
           "            if passphrase:\n                raise BadKeyError(\"key not encrypted\")\n            return method(data.rstrip())\n", expect_rule="input/binary-formats-unmodified"),
    Mutant("hoisted-strip-for-all-formats", KY, "        passphrase = _normalizePassphrase(passphrase)\n        if type is None:\n            type = cls._guessStringType(data)\n",
           "        passphrase = _normalizePassphrase(passphrase)\n        data = data.strip(b\" \\t\\r\\n\")\n        if type is None:\n            type = cls._guessStringType(data)\n",
           expect_rule="input/binary-formats-unmodified"),
    Mutant("blob-parser-tolerates-trailing-newline", KY, "        keyType, rest = common.getNS(blob)\n        if keyType == b\"ssh-rsa\":\n            e, n, rest = common.getMP(rest, 2)",
           "        blob = blob.rstrip(b\"\\n\")\n        keyType, rest = common.getNS(blob)\n        if keyType == b\"ssh-rsa\":\n            e, n, rest = common.getMP(rest, 2)", expect_rule="input/binary-formats-unmodified"),
    Mutant("getNS-cursor-skips-prefix-only", CM, "        ns.append(s[c + 4 : 4 + l + c])\n        c += 4 + l\n", "        ns.append(s[c + 4 : 4 + l + c])\n        c += l\n", expect_rule="primitive/offsets"),
    Mutant("mp-sign-test-wrong-mask", CM, "    if ord(bn[0:1]) & 128:", "    if ord(bn[0:1]) > 128:", expect_rule="primitive/mp-sign-padding"),
    Mutant("ns-length-before-encoding", CM, "    if isinstance(t, str):\n        t = t.encode(\"utf-8\")\n    return struct.pack(\"!L\", len(t)) + t",
           "    n = len(t)\n    if isinstance(t, str):\n        t = t.encode(\"utf-8\")\n    return struct.pack(\"!L\", n) + t", expect_rule="primitive/length-of-what-is-appended"),
    Mutant("getMP-little-endian", CM, "        mp.append(int.from_bytes(data[c + 4 : c + 4 + length], \"big\"))", "        mp.append(int.from_bytes(data[c + 4 : c + 4 + length], \"little\"))",
           expect_rule="primitive/mp-unsigned-big-endian"),
    Mutant("private-blob-drops-ed25519", KY, "        elif type == \"Ed25519\":\n            return (\n                common.NS(b\"ssh-ed25519\")\n                + common.NS(data[\"a\"])\n                + common.NS(data[\"k\"] + data[\"a\"])\n            )\n        else:",
           "        elif type == \"Ed25519\":\n            return (\n                common.NS(b\"ssh-ed25519\")\n                + common.NS(data[\"k\"] + data[\"a\"])\n            )\n        else:", expect_rule="keys/field-schema"),
    Mutant("reader-loses-dsa-branch", KY, "        elif keyType == b\"ssh-dss\":\n            p, q, g, y, x, rest = common.getMP(rest, 5)\n            return cls._fromDSAComponents(y=y, g=g, p=p, q=q, x=x)\n", "",
           expect_rule="keys/every-written-type-is-readable"),
    Mutant("rsa-blob-components-swapped", KY, "            e, n, rest = common.getMP(rest, 2)", "            n, e, rest = common.getMP(rest, 2)", expect_rule="keys/field-order"),
    Mutant("agent-rsa-order", KY, "                    data[\"e\"],\n                    data[\"d\"],\n                    data[\"n\"],\n", "                    data[\"e\"],\n                    data[\"n\"],\n                    data[\"d\"],\n",
           expect_rule="keys/field-order"),
    Mutant("lsh-private-type-renamed", KY, "        elif sexp[1][0] == b\"rsa-pkcs1\":", "        elif sexp[1][0] == b\"rsa-pkcs1-sha1\":", expect_rule="keys/every-written-type-is-readable"),
    Mutant("v1-cipher-not-accepted", KY, "            cipherName = b\"aes256-ctr\"", "            cipherName = b\"aes256-cbc\"", expect_rule="container/v1-cipher"),
    Mutant("v1-check-offset", KY, "        return cls._fromString_PRIVATE_BLOB(privKeyList[8:])", "        return cls._fromString_PRIVATE_BLOB(privKeyList[4:])", expect_rule="container/v1-check-words"),
    Mutant("guess-misses-ed25519-blob", KY, "            or data.startswith(b\"\\x00\\x00\\x00\\x0bssh-ed25519\")\n", "", expect_rule="dispatch/guess-recognises-written"),
    Mutant("curve-table-name", KY, "    b\"secp384r1\": b\"nistp384\",", "    b\"secp384r1\": b\"nistp-384\",", expect_rule="keys/type-tags"),
    Mutant("blob-typo-component", KY, "            return common.NS(b\"ssh-rsa\") + common.MP(data[\"e\"]) + common.MP(data[\"n\"])", "            return common.NS(b\"ssh-rsa\") + common.MP(data[\"e\"]) + common.MP(data[\"N\"])",
           expect_rule="keys/data-components"),
]
SILENT = [
    Silent("ec-point-to_bytes-fixed-width", KY, "                    + utils.int_to_bytes(data[\"x\"], byteLength)\n                    + utils.int_to_bytes(data[\"y\"], byteLength)\n",
           "                    + data[\"x\"].to_bytes(byteLength, \"big\")\n                    + data[\"y\"].to_bytes(byteLength, \"big\")\n"),
    Silent("ec-width-inlined", KY, "            byteLength = (self._keyObject.curve.key_size + 7) // 8\n", "            fieldBits = self._keyObject.curve.key_size\n            byteLength = (fieldBits + 7) // 8\n"),
    Silent("strip-hoisted-for-text-formats-only", KY, "        if type is None:\n            raise BadKeyError(f\"cannot guess the type of {data!r}\")\n",
           "        if type is None:\n            raise BadKeyError(f\"cannot guess the type of {data!r}\")\n        if type.lower() in (\"public_openssh\", \"private_openssh\"):\n            data = data.strip()\n"),
    Silent("text-parser-strips-itself", KY, "        blob = decodebytes(data.split()[1])\n        return cls._fromString_BLOB(blob)", "        data = data.strip()\n        blob = decodebytes(data.split()[1])\n        return cls._fromString_BLOB(blob)"),
    Silent("getNS-slices-rewritten", CM, "        (l,) = struct.unpack(\"!L\", s[c : c + 4])\n        ns.append(s[c + 4 : 4 + l + c])\n        c += 4 + l\n",
           "        (l,) = struct.unpack(\">L\", s[c : 4 + c])\n        ns.append(s[4 + c : c + l + 4])\n        c += l + 4\n"),
    Silent("mp-mask-hex", CM, "    if ord(bn[0:1]) & 128:", "    if bn[0] >= 0x80:"),
    Silent("reader-elif-to-if-chain", KY, "        if keyType == b\"ssh-rsa\":\n            n, e, d, u, p, q, rest = common.getMP(rest, 6)\n            return cls._fromRSAComponents(n=n, e=e, d=d, p=p, q=q)\n        elif keyType == b\"ssh-dss\":",
           "        if b\"ssh-rsa\" == keyType:\n            n, e, d, u, p, q, rest = common.getMP(rest, 6)\n            return cls._fromRSAComponents(n=n, e=e, d=d, p=p, q=q)\n        if keyType == b\"ssh-dss\":"),
]
