"""C35 - SSH transport delivers packets intact and detects tampering."""
from __future__ import annotations

import ast
import struct

from sa.astx import NotConst, call_attr, call_name, const_eval, dotted, src, statements, walk_local
from sa.selftest import Mutant, Silent
from sa.source import class_assigns
from sa.props._lib_h import (assigned_pairs, call_nodes, calls_at, const_is, csrc, def_nodes, edge_path, flatten_add,
                              guarded_by_edges, lin, lincmp_c, local_aliases, need, pure_expr, reaching_defs, self_attr, stmts,
                              MiniInterp, ModelError,
                              struct_fmt_norm, succ_on, tests, truth_edges)

PROPERTY = "C35"
TR = "conch/ssh/transport.py"
QT = "twisted.conch.ssh.transport.SSHTransportBase."
QS = "twisted.conch.ssh.transport.SSHCiphers."
TECHNIQUE = "CFG must-pass/dominance, table and sibling agreement, finite evaluation of version exchange"
EXPLANATION = (
    "getPacket: the payload return (and the decompressor) is reachable only through 'no MAC configured' or a true "
    "currentEncryptions.verify(incomingPacketSequence, packet, mac) whose packet is the very value the payload is sliced from; a MAC "
    "mismatch and every other sendDisconnect site cannot reach the payload return; incomingPacketSequence is bumped exactly once per "
    "delivered packet and never otherwise; the first block is decrypted only when a whole block is buffered and never twice (stashed in "
    "self.first on 'need more data', consumed when re-used); the whole-packet wait is exactly len(buf) >= 4 + packetLen + macLen; header "
    "format and offsets agree between sendPacket and getPacket; the length limit admits RFC 4253's 35000 bytes. sendPacket: padding "
    "arithmetic evaluated exhaustively for block sizes 8/16 (RFC 4253 6), MAC computed over the packet that is encrypted with the "
    "pre-increment outgoingPacketSequence, one increment per write, compression flushed per packet and applied before framing. "
    "SSHCiphers.makeMAC/verify authenticate the same string with direction-correct keys and compare whole digests; setKeys is direction "
    "consistent. Tables: supportedMACs/ciphers/compressions are handled. Key re-exchange queue is flushed in order. Version exchange: "
    "4 KiB limit, banner lines skipped, bytes after the version line preserved, and the extracted dataReceived is evaluated (whitelisted "
    "interpreter, getPacket/sendDisconnect stubbed) on banner/version/tail streams under every two-way split against the reference 'first "
    "complete line starting with SSH-, judged on the accumulated buffer'; two segmentation defects of the version exchange are reported as "
    "known findings F35a/F35b. Single-assignment arithmetic temporaries are substituted before any normalisation. Not decided: the "
    "cryptography itself, key exchange, segmentation invariance of the encrypted packet stream beyond the clauses above."
)
ASSUMPTIONS = [
    "currentEncryptions is an SSHCiphers (verify / makeMAC / encrypt / decrypt are the methods analysed here)",
    "zlib flush mode 2 is Z_SYNC_FLUSH, 3 is Z_FULL_FLUSH (stdlib constants)",
]

CE = "self.currentEncryptions"
VDS = CE + ".verifyDigestSize"
DBS = CE + ".decBlockSize"
BUFLEN = "len(self.buf)"


def _cmp_edges(g, al, terms, c, at_least=False):
    wt = frozenset((k, v) for k, v in terms.items() if v)
    out = []
    for t in g.ids(lambda n: n.kind == "test"):
        e = g.node(t).ast
        for lab, neg in (("T", False), ("F", True)):
            nf = lincmp_c(e, al, negate=neg)
            if nf is not None and nf[0] == wt and (nf[1] == c or (at_least and nf[1] >= c)):
                out.append((t, lab))
    return out


def _other(lab):
    return "F" if lab == "T" else "T"


def _slice_parts(e):
    if isinstance(e, ast.Subscript) and isinstance(e.slice, ast.Slice) and e.slice.step is None:
        return e.value, e.slice.lower, e.slice.upper
    return None


def _incrs(g, attr):
    """[(node, ok)] for self.<attr> += 1 / self.<attr> = self.<attr> + 1; other writes give ok False."""
    out = []
    for n in stmts(g, lambda st: isinstance(st, (ast.AugAssign, ast.Assign))):
        st = g.node(n).ast
        if isinstance(st, ast.AugAssign) and self_attr(st.target, attr):
            out.append((n, isinstance(st.op, ast.Add) and const_is(st.value, 1)))
        elif isinstance(st, ast.Assign):
            for t, v in assigned_pairs(st):
                if self_attr(t, attr):
                    out.append((n, v is not None and lin(v) == (frozenset({(f"self.{attr}", 1)}), 1)))
    return out


def _bytes_consts(node):
    try:
        return const_eval(node, {})
    except NotConst:
        return None


def check(ctx):
    _ok_gp = False; _ok_sp = False; _ok_nk = False; _ok_dr = False; rfmt = None; pst = None
    mod = ctx.mod(TR)
    mconst = {}
    for st in mod.tree.body:
        if isinstance(st, ast.Assign) and len(st.targets) == 1 and isinstance(st.targets[0], ast.Name) and isinstance(st.value, ast.Constant):
            mconst[st.targets[0].id] = st.value.value

    with ctx.section('getPacket/anchors'):
        f = ctx.func(TR, "SSHTransportBase.getPacket")
        g = ctx.cfg(f)
        q = QT + "getPacket"
        al = local_aliases(f, allow=pure_expr)
        rets = stmts(g, lambda st: isinstance(st, ast.Return) and st.value is not None and not const_is(st.value, None))
        ctx.need(rets, "getPacket: return <payload>")
        ctx.check(len(rets) == 1 and isinstance(g.node(rets[0]).ast.value, ast.Name), "deliver/single-return", q, "getPacket has several / computed payload returns")
        ret = rets[0]
        pay = g.node(ret).ast.value.id if isinstance(g.node(ret).ast.value, ast.Name) else None
        pk_var = None
        if pay:
            for d in def_nodes(g, pay):
                for t, v in assigned_pairs(g.node(d).ast):
                    sp = _slice_parts(v) if v is not None else None
                    if isinstance(t, ast.Name) and t.id == pay and sp and isinstance(sp[0], ast.Name):
                        pk_var = sp[0].id
                        pay_slice = (d, sp)
        ctx.need(pk_var, "getPacket: payload = packet[hdr:-padding]")
        ups = [st for st in statements(f) if isinstance(st, ast.Assign) and isinstance(st.value, ast.Call) and call_name(st.value) in ("struct.unpack", "unpack")
               and isinstance(st.targets[0], (ast.Tuple, ast.List))]
        ctx.need(ups, "getPacket: struct.unpack of the header")
        rfmt = const_eval(ups[0].value.args[0], {})
        L, PAD = [src(e) for e in ups[0].targets[0].elts][:2]
        hdr = struct.calcsize(rfmt)
        first_name = src(_slice_parts(ups[0].value.args[1])[0]) if _slice_parts(ups[0].value.args[1]) else "first"
        consume = stmts(g, lambda st: isinstance(st, ast.Assign) and any(self_attr(t, "buf") and v is not None and _slice_parts(v) and self_attr(_slice_parts(v)[0], "buf")
                                                                         and _slice_parts(v)[1] is not None and L in csrc(_slice_parts(v)[1], al) for t, v in assigned_pairs(st)))
        disc = call_nodes(g, lambda c: call_name(c) == "self.sendDisconnect")
        ver_tests = tests(g, lambda e: isinstance(e, ast.Call) and csrc(e.func, al) == CE + ".verify")
        decomp = call_nodes(g, lambda c: csrc(c.func, al) == "self.incomingCompression.decompress")
        _ok_gp = True
    with ctx.section('getPacket/mac'):
        ctx.need(_ok_gp, 'anchors of getPacket (section skipped)')
        ms_falsy = truth_edges(g, lambda e: csrc(e, al) == VDS, False)
        ms_truthy = truth_edges(g, lambda e: csrc(e, al) == VDS, True)
        ctx.check(bool(ver_tests), "mac/verified-before-delivery", q + " | verify()", "getPacket never calls currentEncryptions.verify: a tampered packet is delivered")
        passes = [(t, "T") for t in ver_tests] + ms_falsy
        for sink, what in [(ret, "returned to the dispatcher")] + [(d, "fed to the decompressor") for d in decomp]:
            w = edge_path(g, [g.entry], [sink], avoid_edges=passes)
            ctx.check(w is None, "mac/verified-before-delivery", ctx.construct(q, g.node(sink).ast),
                      f"a payload can be {what} although a MAC is configured and verify() did not succeed", witness=g.describe(w))
        # MAC mismatch -> DISCONNECT_MAC_ERROR
        mac_disc = [d for d in disc if any("DISCONNECT_MAC_ERROR" in src(c.args[0]) for c in calls_at(g, d, lambda c: call_name(c) == "self.sendDisconnect") if c.args)]
        for t in ver_tests:
            w = edge_path(g, succ_on(g, t, "F"), [g.exit], avoid_nodes=mac_disc)
            ctx.check(bool(mac_disc) and w is None, "mac/mismatch-disconnects", ctx.construct(q, g.node(t).ast),
                      "a MAC mismatch does not lead to sendDisconnect(DISCONNECT_MAC_ERROR)", witness=g.describe(w))
        for d in disc:
            w = edge_path(g, [d], [ret], strict=True)
            ctx.check(w is None, "deliver/nothing-after-disconnect", ctx.construct(q, g.node(d).ast),
                      "after sendDisconnect the packet is still delivered", witness=g.describe(w))
        ctx.floor("deliver/nothing-after-disconnect", len(disc), 4, "sendDisconnect sites in getPacket")
        for t in ver_tests:
            c = [x for x in walk_local(g.node(t).ast) if isinstance(x, ast.Call) and csrc(x.func, al) == CE + ".verify"][0]
            cc = ctx.construct(q, c)
            ok3 = len(c.args) == 3
            ctx.check(ok3 and src(c.args[0]) == "self.incomingPacketSequence", "mac/covers-sequence-number", cc,
                      "verify() is not given self.incomingPacketSequence: replayed / reordered / dropped packets are accepted")
            ctx.check(ok3 and isinstance(c.args[1], ast.Name) and c.args[1].id == pk_var, "mac/authenticates-what-is-delivered", cc,
                      f"verify() authenticates {src(c.args[1]) if ok3 else '?'} but the payload is sliced from {pk_var}")
            if ok3 and isinstance(c.args[2], ast.Name):
                mv = c.args[2].id
                good = False
                for d in reaching_defs(g, mv, t):
                    prs = assigned_pairs(g.node(d).ast)
                    m = [v for tt, v in prs if isinstance(tt, ast.Name) and tt.id == mv and v is not None]
                    b = [v for tt, v in prs if self_attr(tt, "buf") and v is not None]
                    if m and b:
                        s1, s2 = _slice_parts(m[0]), _slice_parts(b[0])
                        good = bool(s1 and s2 and self_attr(s1[0], "buf") and self_attr(s2[0], "buf") and s1[1] is None and s2[2] is None
                                    and s1[2] is not None and s2[1] is not None and csrc(s1[2], al) == VDS and csrc(s2[1], al) == VDS)
                ctx.check(good, "mac/mac-bytes-cut-from-buffer", cc, "the MAC compared is not exactly the verifyDigestSize bytes following the packet, removed from the buffer")
            else:
                ctx.check(False, "mac/mac-bytes-cut-from-buffer", cc, "MAC argument shape not recognised")
        # packet = first + decrypt(rest)
        for d in def_nodes(g, pk_var):
            for t, v in assigned_pairs(g.node(d).ast):
                if isinstance(t, ast.Name) and t.id == pk_var and v is not None:
                    ops = flatten_add(v)
                    okp = len(ops) == 2 and isinstance(ops[0], ast.Name) and isinstance(ops[1], ast.Call) and csrc(ops[1].func, al) == CE + ".decrypt"
                    ctx.check(okp, "decrypt/packet-is-first-block-plus-rest", ctx.construct(q, g.node(d).ast), "the plaintext packet is not <first block> + decrypt(<rest>)")
                    if okp:
                        first_var = ops[0].id
                        sp = _slice_parts(ops[1].args[0])
                        ctx.check(sp is not None and sp[2] is None and sp[1] is not None and csrc(sp[1], al) == DBS, "decrypt/packet-is-first-block-plus-rest",
                                  ctx.construct(q, g.node(d).ast) + " | rest", "the rest handed to decrypt() does not start after the first cipher block: a block is decrypted twice or skipped")
    with ctx.section('getPacket/header'):
        ctx.need(_ok_gp, 'anchors of getPacket (section skipped)')
        sp = _slice_parts(ups[0].value.args[1])
        ctx.check(struct_fmt_norm(rfmt) == ("big", "LB") and sp is not None and isinstance(sp[0], ast.Name) and sp[1] is None and sp[2] is not None and src(sp[2]) == str(hdr),
                  "header/format", ctx.construct(q, ups[0]), f"the header is not read as big-endian uint32 length + uint8 padding from the first {hdr} bytes")
        d_, ps = pay_slice
        ctx.check(ps[1] is not None and src(ps[1]) == str(hdr) and ps[2] is not None and src(ps[2]) == f"-{PAD}", "header/payload-bounds", ctx.construct(q, g.node(d_).ast),
                  f"the payload is not packet[{hdr}:-{PAD}] (header and random padding stripped)")
    with ctx.section('getPacket/sequence'):
        ctx.need(_ok_gp, 'anchors of getPacket (section skipped)')
        incs = _incrs(g, "incomingPacketSequence")
        inn = [n for n, ok in incs]
        for n, ok in incs:
            c = ctx.construct(q, g.node(n).ast)
            ctx.check(ok, "sequence/incoming-once-per-packet", c, "incomingPacketSequence is not advanced by exactly 1")
            w = edge_path(g, [n], [g.exit], avoid_nodes=[ret], strict=True)
            ctx.check(w is None, "sequence/incoming-once-per-packet", c + " | only when delivered",
                      "the sequence number advances although no packet is delivered: every later MAC check fails", witness=g.describe(w))
            w = edge_path(g, [n], inn, strict=True)
            ctx.check(w is None, "sequence/incoming-once-per-packet", c + " | once", "advanced twice for one packet", witness=g.describe(w))
            w = edge_path(g, [n], ver_tests, strict=True)
            ctx.check(w is None, "sequence/incoming-once-per-packet", c + " | after verify", "advanced before the MAC is verified with it", witness=g.describe(w))
        w = edge_path(g, [g.entry], [ret], avoid_nodes=inn)
        ctx.check(bool(inn) and w is None, "sequence/incoming-once-per-packet", q, "a packet is delivered without advancing incomingPacketSequence", witness=g.describe(w))
    with ctx.section('getPacket/first-block'):
        ctx.need(_ok_gp, 'anchors of getPacket (section skipped)')
        dec_first = call_nodes(g, lambda c: csrc(c.func, al) == CE + ".decrypt" and c.args and _slice_parts(c.args[0]) is not None
                               and self_attr(_slice_parts(c.args[0])[0], "buf") and _slice_parts(c.args[0])[1] is None)
        ctx.need(dec_first, "getPacket: decrypt(self.buf[:bs])")
        have_block = _cmp_edges(g, al, {BUFLEN: 1, DBS: -1}, 0, at_least=True)
        stash_t = tests(g, lambda e: isinstance(e, ast.Call) and dotted(e.func) == "hasattr" and len(e.args) == 2 and src(e.args[0]) == "self" and const_is(e.args[1], "first"))
        for d in dec_first:
            c = calls_at(g, d, lambda c: csrc(c.func, al) == CE + ".decrypt")[0]
            sp = _slice_parts(c.args[0])
            ctx.check(sp[2] is not None and csrc(sp[2], al) == DBS, "segmentation/first-block", ctx.construct(q, c) + " | width", "the first decryption is not exactly one cipher block")
            ctx.check(bool(have_block) and guarded_by_edges(g, d, have_block), "segmentation/first-block", ctx.construct(q, c),
                      "the first block is decrypted before a whole cipher block is buffered: the cipher stream is advanced over partial data")
            ctx.check(bool(stash_t) and guarded_by_edges(g, d, [(t, "F") for t in stash_t]), "segmentation/first-block-decrypted-once", ctx.construct(q, c),
                      "the first block is decrypted again although an already decrypted copy is stashed in self.first (CBC/CTR state corrupted when a packet "
                      "arrives in two segments)")
    with ctx.section('getPacket/whole-packet'):
        ctx.need(_ok_gp, 'anchors of getPacket (section skipped)')
        ctx.need(consume, "getPacket: self.buf = self.buf[4 + packetLen:] (after substituting single-assignment locals)")
        whole = _cmp_edges(g, al, {BUFLEN: 1, L: -1, VDS: -1}, 4)
        for cn in consume:
            cc = ctx.construct(q, g.node(cn).ast)
            ctx.check(bool(whole) and guarded_by_edges(g, cn, whole), "segmentation/wait-for-whole-packet", cc,
                      f"the packet is cut from the buffer without the exact guard len(buf) >= 4 + {L} + macLen: a packet (or its MAC) split across "
                      "deliveries is truncated, or a complete final packet is never delivered")
            prs = assigned_pairs(g.node(cn).ast)
            enc = [v for t, v in prs if isinstance(t, ast.Name) and v is not None and _slice_parts(v) and self_attr(_slice_parts(v)[0], "buf")]
            rest = [v for t, v in prs if self_attr(t, "buf") and v is not None]
            ok = bool(enc) and bool(rest) and _slice_parts(enc[0])[1] is None and _slice_parts(rest[0])[2] is None \
                and lin(_slice_parts(enc[0])[2], al) == (frozenset({(L, 1)}), 4) and lin(_slice_parts(rest[0])[1], al) == (frozenset({(L, 1)}), 4)
            ctx.check(ok, "segmentation/consume-exactly-packet", cc, f"the bytes taken and the bytes left do not meet at 4 + {L}")
        stash = stmts(g, lambda st: isinstance(st, ast.Assign) and any(self_attr(t, "first") and isinstance(v, ast.Name) and v.id == first_name for t, v in assigned_pairs(st)))
        short = [d for t, lab in whole for d in succ_on(g, t, _other(lab))]
        w = edge_path(g, short, [g.exit], avoid_nodes=stash)
        ctx.check(bool(stash) and w is None, "segmentation/first-block-kept", q + " | <need more data>",
                  "when the rest of the packet has not arrived yet the decrypted first block is thrown away: it is decrypted a second time on the next "
                  "delivery (works only for the 'none' cipher)", witness=g.describe(w))
        reuse = stmts(g, lambda st: isinstance(st, ast.Assign) and any(isinstance(t, ast.Name) and t.id == first_name and v is not None and self_attr(v, "first") for t, v in assigned_pairs(st)))
        clear = stmts(g, lambda st: (isinstance(st, ast.Delete) and any(self_attr(t, "first") for t in st.targets))) + stash
        for r in reuse:
            w = edge_path(g, [r], [g.exit], avoid_nodes=clear, strict=True)
            ctx.check(w is None, "segmentation/first-block-consumed-once", ctx.construct(q, g.node(r).ast),
                      "a stashed first block stays in self.first after its packet was consumed: it is taken as the header of the next packet", witness=g.describe(w))
            ctx.check(bool(stash_t) and guarded_by_edges(g, r, [(t, "T") for t in stash_t]), "segmentation/first-block-consumed-once", ctx.construct(q, g.node(r).ast) + " | guard",
                      "self.first is read although it may not exist")
        ctx.check(bool(reuse), "segmentation/first-block-kept", q + " | <reuse>", "the stashed first block is never used again")
    with ctx.section('getPacket/lengths'):
        ctx.need(_ok_gp, 'anchors of getPacket (section skipped)')
        def is_align(e):
            if isinstance(e, ast.Compare) and len(e.ops) == 1 and isinstance(e.ops[0], (ast.Eq, ast.NotEq)) and const_is(e.comparators[0], 0):
                l = e.left
                return isinstance(l, ast.BinOp) and isinstance(l.op, ast.Mod) and csrc(l.right, al) == DBS and lin(l.left, al) == (frozenset({(L, 1)}), 4)
            return False
        at = tests(g, is_align)
        aligned = [(t, "T" if isinstance(g.node(t).ast.ops[0], ast.Eq) else "F") for t in at]
        ctx.check(bool(aligned) and guarded_by_edges(g, ret, aligned), "length/block-aligned", q, f"a packet whose length (4 + {L}) is not a multiple of the block size is not rejected")
        def is_declen(e):
            if isinstance(e, ast.Compare) and len(e.ops) == 1 and isinstance(e.ops[0], (ast.Eq, ast.NotEq)):
                d = lin(ast.BinOp(left=e.left, op=ast.Sub(), right=e.comparators[0]), al)
                return d in ((frozenset({(f"len({pk_var})", 1), (L, -1)}), -4), (frozenset({(f"len({pk_var})", -1), (L, 1)}), 4))
            return False
        dt = tests(g, is_declen)
        okl = [(t, "T" if isinstance(g.node(t).ast.ops[0], ast.Eq) else "F") for t in dt]
        ctx.check(bool(okl) and guarded_by_edges(g, ret, okl), "length/decrypted-length", q, f"a packet whose decrypted length differs from 4 + {L} is not rejected")
        big = []
        for t in g.ids(lambda n: n.kind == "test"):
            for lab, neg in (("T", False), ("F", True)):
                nf = lincmp_c(g.node(t).ast, al, negate=neg)
                if nf is not None and nf[0] == frozenset({(L, 1)}):
                    big.append((t, lab, nf[1]))
        ctx.check(bool(big) and all(c - 1 >= 35000 for t, lab, c in big), "length/limit-admits-rfc-minimum", q,
                  f"the packet length limit ({[c - 1 for t, lab, c in big]}) is missing or below the 35000 bytes every implementation must accept (RFC 4253 6.1)")
        for t, lab, c in big:
            w = edge_path(g, succ_on(g, t, lab), [g.exit], avoid_nodes=disc)
            ctx.check(w is None and guarded_by_edges(g, (consume or [ret])[0], [(t, _other(lab))]), "length/limit-admits-rfc-minimum", ctx.construct(q, g.node(t).ast),
                      "an over-long length field neither disconnects nor prevents the consumption", witness=g.describe(w))
    with ctx.section('getPacket/decompression'):
        ctx.need(_ok_gp, 'anchors of getPacket (section skipped)')
        for d in decomp:
            st = g.node(d).ast
            ctx.check(guarded_by_edges(g, d, truth_edges(g, lambda e: self_attr(e, "incomingCompression"), True)) and isinstance(st, ast.Assign)
                      and any(isinstance(t, ast.Name) and t.id == pay for t in st.targets) and [src(a) for a in st.value.args] == [pay],
                      "compression/decompress-payload", ctx.construct(q, st), "decompression is not 'payload = incomingCompression.decompress(payload)' under 'if self.incomingCompression'")

    with ctx.section('sendPacket/anchors'):
        f = ctx.func(TR, "SSHTransportBase.sendPacket")
        g = ctx.cfg(f)
        q = QT + "sendPacket"
        al = local_aliases(f)
        mt, pl = f.args.args[1].arg, f.args.args[2].arg
        wr = call_nodes(g, lambda c: call_name(c) == "self.transport.write")
        ctx.need(wr, "sendPacket: self.transport.write")
        _ok_sp = True
    with ctx.section('sendPacket/sequence-and-mac'):
        ctx.need(_ok_sp, 'anchors of sendPacket (section skipped)')
        incs = _incrs(g, "outgoingPacketSequence")
        onn = [n for n, ok in incs]
        mac_calls = call_nodes(g, lambda c: csrc(c.func, al) == CE + ".makeMAC")
        for n, ok in incs:
            c = ctx.construct(q, g.node(n).ast)
            ctx.check(ok, "sequence/outgoing-once-per-packet", c, "outgoingPacketSequence is not advanced by exactly 1")
            w = g.must_precede(wr, [n], exc=False)
            ctx.check(w is None, "sequence/outgoing-once-per-packet", c + " | only when written",
                      "the sequence number advances for a packet that was queued, not written: the peer's MAC check fails from then on", witness=g.describe(w))
            w = edge_path(g, [n], onn, strict=True)
            ctx.check(w is None, "sequence/outgoing-once-per-packet", c + " | once", "advanced twice for one packet")
            w = edge_path(g, [n], mac_calls, strict=True)
            ctx.check(w is None, "sequence/outgoing-once-per-packet", c + " | after MAC", "advanced before the MAC is computed with it", witness=g.describe(w))
        for wn in wr:
            w = edge_path(g, [wn], [g.exit], avoid_nodes=onn, strict=True)
            ctx.check(bool(onn) and w is None, "sequence/outgoing-once-per-packet", q, "a packet is written without advancing outgoingPacketSequence", witness=g.describe(w))
        ctx.check(len(mac_calls) == 1, "mac/sender", q + " | makeMAC", f"sendPacket has {len(mac_calls)} makeMAC sites")
        for mn in mac_calls:
            c = calls_at(g, mn, lambda c: csrc(c.func, al) == CE + ".makeMAC")[0]
            encs = calls_at(g, mn, lambda c: csrc(c.func, al) == CE + ".encrypt")
            ok = len(c.args) == 2 and src(c.args[0]) == "self.outgoingPacketSequence"
            ctx.check(ok, "mac/covers-sequence-number", ctx.construct(q, c), "makeMAC is not given self.outgoingPacketSequence")
            ok = len(encs) == 1 and len(c.args) == 2 and isinstance(c.args[1], ast.Name) and [src(a) for a in encs[0].args] == [src(c.args[1])]
            ctx.check(ok, "mac/sender", ctx.construct(q, c), "the MAC is not computed over the very (plaintext) packet that is encrypted")
            if ok:
                par = getattr(c, "_parent", None)
                ctx.check(isinstance(par, ast.BinOp) and isinstance(par.op, ast.Add) and par.right is c and encs[0] in list(ast.walk(par.left)), "mac/sender",
                          ctx.construct(q, c) + " | order", "the MAC is not appended after the ciphertext")
                pkv = c.args[1].id
                # what is written is that ciphertext+MAC
                wcall = calls_at(g, wr[0], lambda c: call_name(c) == "self.transport.write")[0]
                wv = wcall.args[0]
                ok2 = (isinstance(wv, ast.Name) and any(mn == d for d in reaching_defs(g, wv.id, wr[0]))) or mn == wr[0]
                ctx.check(ok2, "mac/sender", ctx.construct(q, wcall), "what is written to the transport is not encrypt(packet) + makeMAC(seq, packet)")
    with ctx.section('sendPacket/framing'):
        ctx.need(_ok_sp, 'anchors of sendPacket (section skipped)')
        packs = [c for c in ast.walk(f) if isinstance(c, ast.Call) and call_name(c) in ("struct.pack", "pack")]
        ctx.need(len(packs) == 1 and len(packs[0].args) == 3, "sendPacket: struct.pack(fmt, length, padlen)")
        pk = packs[0]
        sfmt = const_eval(pk.args[0], {})
        ctx.check(rfmt is not None and struct_fmt_norm(sfmt) == struct_fmt_norm(rfmt), "header/format", ctx.construct(q, pk), f"sender packs the header as {sfmt!r}, receiver unpacks {rfmt!r}")
        pst = pk
        while not isinstance(pst, ast.stmt):
            pst = pst._parent
        ops = flatten_add(pst.value) if isinstance(pst, ast.Assign) else []
        shape = len(ops) == 3 and ops[0] is pk and isinstance(ops[1], ast.Name) and isinstance(ops[2], ast.Call) and len(ops[2].args) == 1
        ctx.check(shape, "framing/packet-layout", ctx.construct(q, pst), "the packet is not header + payload + random padding")
        bad = None
        n_eval = 0
        if shape:
            payv = ops[1].id
            for B in (8, 16):
                for n in range(0, 72):
                    env = {pl: b"x" * n, mt: 94}
                    try:
                        _run_straight(f.body, env, pst, {CE + ".encBlockSize": B}, al)
                        length, padf, padn = const_eval(pk.args[1], env), const_eval(pk.args[2], env), const_eval(ops[2].args[0], env)
                        body = env[payv]
                    except (NotConst, KeyError) as e:
                        need(ctx, False, f"sendPacket framing not evaluable ({e})")
                    n_eval += 1
                    total = 4 + 1 + len(body) + padn
                    if not (len(body) == n + 1 and padf == padn and 4 <= padn <= 255 and length == total - 4 and total % max(B, 8) == 0):
                        bad = bad or f"block size {B}, payload {n} bytes: length field {length}, padding field {padf}, padding bytes {padn}, packet {total} bytes"
        ctx.check(bad is None, "framing/padding-arithmetic", q + " | <length, padding>",
                  f"RFC 4253 6 violated (padding >= 4, total a multiple of the block size, length = payload + padding + 1): {bad}", detail=f"{n_eval} evaluations")
    with ctx.section('sendPacket/compression'):
        ctx.need(_ok_sp, 'anchors of sendPacket (section skipped)')
        comp = call_nodes(g, lambda c: csrc(c.func, al) == "self.outgoingCompression.compress")
        ctx.check(len(comp) == 1, "compression/sender", q + " | compress", f"{len(comp)} compress sites")
        for cn in comp:
            st = g.node(cn).ast
            ops2 = flatten_add(st.value) if isinstance(st, ast.Assign) else []
            ok = len(ops2) == 2 and all(isinstance(o, ast.Call) for o in ops2) and csrc(ops2[0].func, al) == "self.outgoingCompression.compress" \
                and csrc(ops2[1].func, al) == "self.outgoingCompression.flush" and len(ops2[1].args) == 1
            mode = None
            if ok:
                a = ops2[1].args[0]
                mode = a.value if isinstance(a, ast.Constant) else {"zlib.Z_SYNC_FLUSH": 2, "zlib.Z_FULL_FLUSH": 3}.get(src(a))
            ctx.check(ok and mode in (2, 3), "compression/flushed-per-packet", ctx.construct(q, st),
                      "the compressed payload is not compress(payload) + flush(Z_SYNC_FLUSH): the peer cannot decompress the packet until later data arrives")
            ctx.check(guarded_by_edges(g, cn, truth_edges(g, lambda e: self_attr(e, "outgoingCompression"), True)), "compression/sender", ctx.construct(q, st) + " | guard",
                      "compress is not under 'if self.outgoingCompression'")
            framing = stmts(g, lambda s_: s_ is pst) + stmts(g, lambda s_: isinstance(s_, ast.Assign) and any(isinstance(t, ast.Name) and v is not None and f"len({pl})" in src(v) for t, v in assigned_pairs(s_)))
            w = edge_path(g, framing, [cn], strict=True)
            ctx.check(w is None, "compression/sender", ctx.construct(q, st) + " | before framing", "the payload is compressed after its length was measured", witness=g.describe(w))
            typed = stmts(g, lambda s_: isinstance(s_, ast.Assign) and any(isinstance(t, ast.Name) and t.id == pl and v is not None and mt in src(v) for t, v in assigned_pairs(s_)))
            w = g.must_precede(typed, [cn], exc=False)
            ctx.check(bool(typed) and w is None, "compression/sender", ctx.construct(q, st) + " | type byte inside", "the message type byte is not part of the compressed payload",
                      witness=g.describe(w))
    with ctx.section('sendPacket/rekey-queue'):
        ctx.need(_ok_sp, 'anchors of sendPacket (section skipped)')
        qapp = call_nodes(g, lambda c: call_name(c) == "self._blockedByKeyExchange.append")
        ctx.check(len(qapp) == 1, "rekey/queue", q + " | append", "messages blocked by a key exchange are not queued at the tail of _blockedByKeyExchange")
        for a in qapp:
            c = calls_at(g, a, lambda c: call_name(c) == "self._blockedByKeyExchange.append")[0]
            ctx.check(src(c.args[0]) == f"({mt}, {pl})", "rekey/queue", ctx.construct(q, c), "what is queued is not (messageType, payload)")
            w = edge_path(g, [a], wr, strict=True)
            ctx.check(w is None, "rekey/queue", ctx.construct(q, c) + " | not also sent", "a queued message is also sent immediately", witness=g.describe(w))

    with ctx.section('_newKeys/flush'):
        f = ctx.func(TR, "SSHTransportBase._newKeys")
        g = ctx.cfg(f)
        q = QT + "_newKeys"
        loops = [n for n in g.ids(lambda n: n.kind == "for") if isinstance(g.node(n).ast.iter, ast.Name)]
        sp_ = call_nodes(g, lambda c: call_name(c) == "self.sendPacket")
        ok = False
        if loops and sp_:
            fr = g.node(loops[0]).ast
            holder = fr.iter.id
            defs = reaching_defs(g, holder, loops[0])
            ok_src = bool(defs) and all(any(isinstance(t, ast.Name) and t.id == holder and v is not None and self_attr(v, "_blockedByKeyExchange") for t, v in assigned_pairs(g.node(d).ast)) for d in defs)
            ctx.check(ok_src, "rekey/flush-in-order", ctx.construct(q, fr), "the messages re-sent after NEWKEYS are not the queue, in queue order")
            c = calls_at(g, sp_[0], lambda c: call_name(c) == "self.sendPacket")[0]
            tg = [src(e) for e in fr.target.elts] if isinstance(fr.target, (ast.Tuple, ast.List)) else []
            ctx.check(tg == [src(a) for a in c.args], "rekey/flush-in-order", ctx.construct(q, c), "queued (type, payload) pairs are re-sent with different fields")
            resets = stmts(g, lambda st: isinstance(st, ast.Assign) and any(self_attr(t, "_blockedByKeyExchange") for t, v in assigned_pairs(st)))
            done = stmts(g, lambda st: isinstance(st, ast.Assign) and any(self_attr(t, "_keyExchangeState") and v is not None and src(v) == "self._KEY_EXCHANGE_NONE" for t, v in assigned_pairs(st)))
            for what, nodes, why in (("the queue is detached", resets, "messages sent while flushing are lost or re-queued into the list being iterated"),
                                     ("_keyExchangeState returns to _KEY_EXCHANGE_NONE", done, "the queued messages are queued again instead of being sent")):
                w = g.must_precede(nodes, loops, exc=False)
                ctx.check(bool(nodes) and w is None, "rekey/flush-in-order", q + f" | {what}", f"re-sending starts before {what}: {why}", witness=g.describe(w))
            ok = True
        ctx.check(ok, "rekey/flush-in-order", q, "the queue of messages blocked during key exchange is never flushed")
        sw = stmts(g, lambda st: isinstance(st, ast.Assign) and any(self_attr(t, "currentEncryptions") and v is not None and self_attr(v, "nextEncryptions") for t, v in assigned_pairs(st)))
        w = edge_path(g, [g.entry], loops or [g.exit], avoid_nodes=sw)
        ctx.check(bool(sw) and w is None, "rekey/flush-in-order", q + " | new keys first", "queued messages are sent before the new keys are in use", witness=g.describe(w))
        _ok_nk = True
    with ctx.section('_newKeys/compression-table'):
        ctx.need(_ok_nk, 'anchors of _newKeys (section skipped)')
        ca = class_assigns(ctx.cls(TR, "SSHTransportBase"))
        comps = _bytes_consts(ca.get("supportedCompressions"))
        ctx.need(isinstance(comps, list), "supportedCompressions literal")
        handled = {"out": {}, "in": {}}
        for t in g.ids(lambda n: n.kind == "test"):
            e = g.node(t).ast
            if isinstance(e, ast.Compare) and len(e.ops) == 1 and isinstance(e.ops[0], ast.Eq) and isinstance(e.comparators[0], ast.Constant):
                for d, attr in (("out", "outgoingCompressionType"), ("in", "incomingCompressionType")):
                    if self_attr(e.left, attr):
                        handled[d][e.comparators[0].value] = t
        for name in comps:
            if name == b"none":
                continue
            for d, attr, ctor in (("out", "outgoingCompression", "compressobj"), ("in", "incomingCompression", "decompressobj")):
                t = handled[d].get(name)
                okc = False
                if t is not None:
                    for s_ in succ_on(g, t, "T"):
                        st = g.node(s_).ast
                        okc = okc or (isinstance(st, ast.Assign) and any(self_attr(tt, attr) and isinstance(v, ast.Call) and call_attr(v) == ctor for tt, v in assigned_pairs(st)))
                ctx.check(okc, "tables/compression-handled", f"{q} | {name!r} {d}",
                          f"compression {name!r} is offered in supportedCompressions but _newKeys does not install a zlib.{ctor} for the "
                          f"{'outgoing' if d == 'out' else 'incoming'} direction: one side compresses and the other does not")
    with ctx.section('tables'):
        ca = class_assigns(ctx.cls(TR, "SSHTransportBase"))
        ccls = ctx.cls(TR, "SSHCiphers")
        cca = class_assigns(ccls)
        macmap = cca.get("macMap")
        ciphmap = cca.get("cipherMap")
        ctx.need(isinstance(macmap, ast.Dict) and isinstance(ciphmap, ast.Dict), "SSHCiphers.macMap / cipherMap")
        mkeys = {_bytes_consts(k) for k in macmap.keys}
        ckeys = {_bytes_consts(k) for k in ciphmap.keys}
        macs = _bytes_consts(ca.get("supportedMACs"))
        ctx.need(isinstance(macs, list), "supportedMACs literal")
        for m in macs:
            ctx.check(m in mkeys, "tables/mac-known", f"{QT}supportedMACs | {m!r}", f"MAC {m!r} is offered but SSHCiphers.macMap has no entry: _getMAC raises KeyError after negotiation")
        ctx.floor("tables/mac-known", len(macs), 3)
        gsc = ctx.func(TR, "_getSupportedCiphers")
        lists = [_bytes_consts(st.value) for st in statements(gsc) if isinstance(st, ast.Assign) and isinstance(st.value, ast.List) and st.value.elts]
        ctx.need(lists and isinstance(lists[0], list), "_getSupportedCiphers: candidate list")
        for c in lists[0]:
            ctx.check(c in ckeys, "tables/cipher-known", f"twisted.conch.ssh.transport._getSupportedCiphers | {c!r}", f"cipher {c!r} is a candidate but SSHCiphers.cipherMap has no entry")
        ctx.floor("tables/cipher-known", len(lists[0]), 4)
        ctx.check(b"none" in mkeys and b"none" in ckeys, "tables/none-entries", QS + "macMap/cipherMap | none",
                  "the initial (pre-key-exchange) 'none' cipher / MAC has no table entry")

    with ctx.section('SSHCiphers/makeMAC~verify'):
        mm = ctx.func(TR, "SSHCiphers.makeMAC")
        vf = ctx.func(TR, "SSHCiphers.verify")
        shapes = {}
        for fn, direction in ((mm, "out"), (vf, "in")):
            q = QS + fn.name
            mac_attr = f"{direction}MAC"
            wrong = "inMAC" if direction == "out" else "outMAC"
            ctx.check(not any(isinstance(n, ast.Attribute) and n.attr == wrong for n in ast.walk(fn)), "mac/direction", q,
                      f"{fn.name} uses self.{wrong}: the {'outgoing' if direction == 'out' else 'incoming'} MAC is computed with the key of the other direction")
            seqp, datap = fn.args.args[1].arg, fn.args.args[2].arg
            reb = [st for st in statements(fn) if isinstance(st, ast.Assign) and any(isinstance(t, ast.Name) and t.id == datap for t in st.targets)]
            okr = False
            fmt = None
            if len(reb) == 1:
                ops = flatten_add(reb[0].value)
                if len(ops) == 2 and isinstance(ops[0], ast.Call) and call_name(ops[0]) in ("struct.pack", "pack") and len(ops[0].args) == 2 \
                        and src(ops[0].args[1]) == seqp and src(ops[1]) == datap:
                    fmt = const_eval(ops[0].args[0], {})
                    okr = struct_fmt_norm(fmt) == ("big", "L")
            ctx.check(okr, "mac/covers-sequence-number", q, f"the authenticated string is not uint32(sequence number) || packet in {fn.name}")
            hm = [c for c in ast.walk(fn) if isinstance(c, ast.Call) and call_name(c) in ("hmac.HMAC", "hmac.new", "HMAC")]
            okh = len(hm) == 1 and len(hm[0].args) == 3 and src(hm[0].args[0]) == f"self.{mac_attr}.key" and src(hm[0].args[1]) == datap and src(hm[0].args[2]) == f"self.{mac_attr}[0]"
            ctx.check(okh, "mac/siblings-agree", q, f"{fn.name} does not compute HMAC(self.{mac_attr}.key, seq||packet, self.{mac_attr}[0])")
            shapes[direction] = (fmt, [src(a).replace(mac_attr, "XMAC") for a in hm[0].args] if hm else None)
            g = ctx.cfg(fn)
            off = truth_edges(g, lambda e, a=mac_attr: src(e) == f"self.{a}[0]", False)
            ctx.check(bool(off), "mac/none-path", q, f"{fn.name} has no branch for 'no MAC configured'")
            if hm and okh:
                hn = g.ids_of(hm[0])
                on = truth_edges(g, lambda e, a=mac_attr: src(e) == f"self.{a}[0]", True)
                ctx.check(bool(hn) and guarded_by_edges(g, hn[0], on) if on else True, "mac/none-path", q + " | hmac guarded", "HMAC computed although no MAC is configured")
        ctx.check(shapes["out"] == shapes["in"], "mac/siblings-agree", QS + "makeMAC ~ verify",
                  f"makeMAC and verify authenticate different strings / digests: {shapes['out']} vs {shapes['in']}")
    with ctx.section('SSHCiphers/verify-compare'):
        vf = ctx.func(TR, "SSHCiphers.verify")
        g = ctx.cfg(vf)
        q = QS + "verify"
        macp = vf.args.args[3].arg
        dig = {t.id for st in statements(vf) if isinstance(st, ast.Assign) and isinstance(st.value, ast.Call) and call_attr(st.value) == "digest" for t in st.targets if isinstance(t, ast.Name)}
        rr = stmts(g, lambda st: isinstance(st, ast.Return))
        seen_cmp = False
        for r in rr:
            v = g.node(r).ast.value
            if isinstance(v, ast.Call) and call_name(v) == "hmac.compare_digest":
                ab = {src(a) for a in v.args}
            elif isinstance(v, ast.Compare) and len(v.ops) == 1 and isinstance(v.ops[0], ast.Eq):
                ab = {src(v.left), src(v.comparators[0])}
            else:
                ab = None
            if ab is not None and ab & dig:
                seen_cmp = True
                ctx.check(ab == {macp} | (ab & dig) and len(ab) == 2, "mac/whole-digest-compared", ctx.construct(q, g.node(r).ast),
                          "verify() does not compare the complete received MAC with the complete computed digest")
            elif ab is not None and macp in ab:
                ctx.check(ab == {macp, "b''"}, "mac/none-path", ctx.construct(q, g.node(r).ast), "without a MAC configured verify() must accept only an empty MAC")
            else:
                ctx.check(False, "mac/whole-digest-compared", ctx.construct(q, g.node(r).ast), "verify() returns something that is not a comparison of the MAC")
        ctx.check(seen_cmp, "mac/whole-digest-compared", q, "verify() never compares the computed digest with the received MAC")
    with ctx.section('SSHCiphers/setKeys'):
        sk = ctx.func(TR, "SSHCiphers.setKeys")
        q = QS + "setKeys"

        def direction(name):
            for p, d in (("out", "out"), ("enc", "out"), ("in", "in"), ("dec", "in"), ("verify", "in")):
                if name.startswith(p) and (len(name) == len(p) or name[len(p)].isupper() or name[len(p):] in ("ryptor",)):
                    return d
            return None
        lenv = {}
        n_dir = 0
        for st in sk.body:
            for sub in ([st] if not isinstance(st, ast.If) else [st] + st.body):
                if not isinstance(sub, (ast.Assign, ast.If)):
                    continue
                node = sub.test if isinstance(sub, ast.If) else sub
                ds = set()
                for n in ast.walk(node):
                    nm = n.attr if isinstance(n, ast.Attribute) else n.id if isinstance(n, ast.Name) else None
                    if nm is None:
                        continue
                    d = lenv.get(nm) if isinstance(n, ast.Name) and nm in lenv and isinstance(n.ctx, ast.Load) else direction(nm)
                    if d:
                        ds.add(d)
                if isinstance(sub, ast.Assign):
                    n_dir += 1
                    ctx.check(len(ds) <= 1, "setkeys/direction-consistent", ctx.construct(q, sub),
                              "an outgoing field is computed from incoming material or vice versa (keys / block size / digest size of the wrong direction)")
                    for t in sub.targets:
                        if isinstance(t, ast.Name) and len(ds) == 1:
                            lenv[t.id] = next(iter(ds))
        ctx.floor("setkeys/direction-consistent", n_dir, 8, "assignments")

    with ctx.section('dataReceived/anchors'):
        f = ctx.func(TR, "SSHTransportBase.dataReceived")
        g = ctx.cfg(f)
        q = QT + "dataReceived"
        al = {}
        gp = call_nodes(g, lambda c: call_name(c) == "self.getPacket")
        ctx.need(gp, "dataReceived: self.getPacket()")
        gv_true = truth_edges(g, lambda e: self_attr(e, "gotVersion"), True)
        gv_set = stmts(g, lambda st: isinstance(st, ast.Assign) and any(self_attr(t, "gotVersion") and const_is(v, True) for t, v in assigned_pairs(st)))
        ctx.need(gv_set, "dataReceived: self.gotVersion = True")
        _ok_dr = True
    with ctx.section('dataReceived/version-escapes'):
        ctx.need(_ok_dr, 'anchors of dataReceived (section skipped)')
        # nodes reachable while the version is still unknown; each edge from there into a getPacket() call is one escape
        gvt = set(gv_true)
        unknown = g.reach([g.entry], avoid=set(gv_set) | set(gp), edge_ok=lambda a, b, l: l != "exc" and (a, l) not in gvt)
        escapes = sorted({(p_, lab) for n in gp for p_, lab in g.pred[n] if p_ in unknown and lab != "exc" and (p_, lab) not in gvt and p_ not in gp})
        for p_, lab in escapes:
            w = edge_path(g, [g.entry], [p_], avoid_nodes=gv_set, avoid_edges=gv_true)
            ctx.violation("version/packets-only-after-version", f"{q} | {g.node(p_).text()} -> self.getPacket()",
                          "getPacket() is reached while the peer's version line has not been seen: identification (banner) text delivered on its own is parsed "
                          "as a binary packet and the connection is dropped with 'bad packet length'", witness=g.describe((w or []) + [gp[0]]))
        if not escapes:
            ctx.ok("version/packets-only-after-version", q)
    with ctx.section('dataReceived/version-loop'):
        ctx.need(_ok_dr, 'anchors of dataReceived (section skipped)')
        loops = [n for n in g.ids(lambda n: n.kind == "for") if any(edge_path(g, [n], [s], strict=True) for s in gv_set)]
        ctx.need(loops, "dataReceived: for p in lines")
        loop = loops[0]
        fr = g.node(loop).ast
        for s in gv_set:
            w = edge_path(g, [s], [loop], strict=True)
            ctx.check(w is None, "version/first-version-line-only", ctx.construct(q, g.node(s).ast),
                      "after the version line was accepted the remaining 'lines' - which are binary packet data - are still scanned for 'SSH-': a payload "
                      "containing '\\nSSH-...\\n' that arrives in the same segment is taken for a second version line and the packet stream is cut",
                      witness=g.describe(w))
        lv = fr.target.id if isinstance(fr.target, ast.Name) else "p"
        sw_t = tests(g, lambda e: isinstance(e, ast.Call) and call_name(e) == f"{lv}.startswith" and len(e.args) == 1 and _bytes_consts(e.args[0]) == b"SSH-")
        for s in gv_set:
            ctx.check(bool(sw_t) and guarded_by_edges(g, s, [(t, "T") for t in sw_t]), "version/banner-lines-skipped", ctx.construct(q, g.node(s).ast) + " | guard",
                      "a line that does not start with 'SSH-' is accepted as the version line")
    with ctx.section('dataReceived/length-limit'):
        ctx.need(_ok_dr, 'anchors of dataReceived (section skipped)')
        lim = []
        for t in g.ids(lambda n: n.kind == "test"):
            for lab, neg in (("T", False), ("F", True)):
                nf = lincmp_c(g.node(t).ast, al, negate=neg)
                if nf is not None and nf[0] == frozenset({(BUFLEN, 1)}):
                    lim.append((t, lab, nf[1]))
        disc = call_nodes(g, lambda c: call_name(c) == "self.sendDisconnect")
        okl = False
        for t, lab, c in lim:
            w = edge_path(g, succ_on(g, t, lab), [g.exit], avoid_nodes=disc)
            w2 = edge_path(g, succ_on(g, t, lab), gp)
            if w is None and w2 is None and 255 <= c - 1 <= 65536:
                okl = True
        ctx.check(okl, "version/length-limit", q, "an endless banner is buffered without limit (no 'len(self.buf) > N: disconnect; return' before the version is known)")
    with ctx.section('dataReceived/rest-preserved'):
        ctx.need(_ok_dr, 'anchors of dataReceived (section skipped)')
        lv, fr = None, None
        for n_ in g.ids(lambda n: n.kind == "for"):
            if any(edge_path(g, [n_], [s], strict=True) for s in gv_set) and isinstance(g.node(n_).ast.target, ast.Name):
                fr = g.node(n_).ast
                lv = fr.target.id
        ctx.need(fr is not None, "dataReceived: for p in lines")
        splits = [st for st in statements(f) if isinstance(st, ast.Assign) and isinstance(st.value, ast.Call) and call_name(st.value) == "self.buf.split"]
        joins = [st for st in statements(f) if isinstance(st, ast.Assign) and any(self_attr(t, "buf") for t in st.targets) and isinstance(st.value, ast.Call) and call_attr(st.value) == "join"]
        okj = False
        if splits and joins:
            sep1 = _bytes_consts(splits[0].value.args[0]) if splits[0].value.args else None
            sep2 = _bytes_consts(joins[0].value.func.value)
            lines_v = splits[0].targets[0].id if isinstance(splits[0].targets[0], ast.Name) else None
            sp = _slice_parts(joins[0].value.args[0]) if joins[0].value.args else None
            idx = [t.id for st in statements(f) if isinstance(st, ast.Assign) and isinstance(st.value, ast.Call) and call_name(st.value) == f"{lines_v}.index"
                   and [src(a) for a in st.value.args] == [lv] for t in st.targets if isinstance(t, ast.Name)]
            okj = sep1 is not None and sep1 == sep2 and sp is not None and src(sp[0]) == lines_v and sp[2] is None and sp[1] is not None and bool(idx) \
                and lin(sp[1]) == (frozenset({(idx[0], 1)}), 1) and src(fr.iter) == lines_v
            ctx.check(okj, "version/rest-preserved", ctx.construct(q, joins[0]),
                      "the bytes following the version line are not restored exactly (split/join separators differ or the slice does not start right after the version line): "
                      "the first packets are corrupted when they arrive in the same segment as the version line")
        else:
            ctx.check(False, "version/rest-preserved", q, "split/join of the version buffer not found")
    with ctx.section('dataReceived/dispatch-loop'):
        ctx.need(_ok_dr, 'anchors of dataReceived (section skipped)')
        disp = call_nodes(g, lambda c: call_name(c) == "self.dispatchMessage")
        ctx.need(disp, "dataReceived: dispatchMessage")
        for d in disp:
            c = calls_at(g, d, lambda c: call_name(c) == "self.dispatchMessage")[0]
            w = edge_path(g, [d], disp + [g.exit], avoid_nodes=gp, strict=True)
            ctx.check(w is None, "dispatch/every-packet", ctx.construct(q, c), "after dispatching a packet the next one is not fetched: buffered packets are left undelivered",
                      witness=g.describe(w))
            pv = [a for a in c.args if _slice_parts(a)]
            ctx.check(len(c.args) == 2 and len(pv) == 1 and src(_slice_parts(pv[0])[1]) == "1" and _slice_parts(pv[0])[2] is None, "dispatch/every-packet", ctx.construct(q, c) + " | payload",
                      "the dispatched payload is not the packet without its message-type byte")

    with ctx.section('dataReceived/version-exchange-model'):
        _version_model(ctx, mconst)


# ---- version exchange: finite evaluation of the extracted dataReceived against a reference ----------------

def _ref_version(stream: bytes):
    """reference: the first complete line that starts with b'SSH-' is the version line; what follows it stays in
    the buffer.  -> (gotVersion, version string, remaining buffer)"""
    lines = stream.split(b"\n")
    for i, ln in enumerate(lines[:-1]):         # the last element is not terminated by a newline
        if ln.startswith(b"SSH-"):
            return True, ln.rstrip(b"\r"), b"\n".join(lines[i + 1:])
    return False, None, stream


def _version_streams():
    banners = [b"", b"hi\r\n", b"Welcome to the machine\r\n", b"a\r\nbb\r\n", b"motd: see https://x\n"]
    versions = [b"SSH-2.0-Twisted\r\n", b"SSH-2.0-x\n", b"SSH-1.99-OpenSSH_9 comment\r\n"]
    tails = [b"", b"\x00\x00\x00\x0c\x0a\x14", b"\x00\x00\x00\x1c\x04\x02ab\ncd\n\x00"]
    for b in banners:
        for v in versions:
            for t in tails:
                yield b + v + t
    yield b"Welcome\r\nSSH-2.0-Tw"      # ends inside the version line
    yield b"hi\r\nSSH-"


def _version_model(ctx, mconst):
    f = ctx.func(TR, "SSHTransportBase.dataReceived")
    q = QT + "dataReceived"
    tcls = ctx.cls(TR, "SSHTransportBase")
    ca = class_assigns(tcls)
    defaults = {}
    for k in ("gotVersion", "buf", "supportedVersions"):
        v = _bytes_consts(ca.get(k)) if ca.get(k) is not None else None
        ctx.need(v is not None, f"SSHTransportBase.{k} class default")
        defaults[k] = v
    n_runs = n_known = 0
    reported = set()
    for stream in _version_streams():
        for cut in range(0, len(stream) + 1):
            chunks = [c for c in (stream[:cut], stream[cut:]) if c] or [b""]
            attrs = dict(defaults)
            events = []
            hooks = {"getPacket": lambda: events.append(("getPacket", attrs.get("gotVersion"))) or None,
                     "sendDisconnect": lambda *a: events.append(("disconnect",) + tuple(a[:1])),
                     "_unsupportedVersionReceived": lambda *a: events.append(("unsupported",) + tuple(a[:1])),
                     "dispatchMessage": lambda *a: events.append(("dispatch",))}
            m = MiniInterp(f, attrs, hooks, mconst)
            acc = b""
            n_runs += 1
            for ch in chunks:
                acc += ch
                del events[:]
                try:
                    m.call(ch)
                    err = None
                except ModelError as e:
                    err = str(e)
                want = _ref_version(acc)
                got_v = bool(attrs.get("gotVersion"))
                early = [e for e in events if e == ("getPacket", False)]
                bad = [e for e in events if e[0] in ("disconnect", "unsupported")]
                ok = err is None and not bad and not early and got_v == want[0] and \
                    ((attrs.get("otherVersionString"), attrs.get("buf")) == (want[1], want[2]) if want[0] else attrs.get("buf") == acc)
                if ok:
                    continue
                if b"SSH-" not in acc and not bad and err is None and got_v == want[0] and attrs.get("buf") == acc:
                    n_known += 1        # banner-only buffer handed to getPacket(): that is finding F35a (reported by version/packets-only-after-version)
                    continue
                what = ("raises " + err) if err else ("disconnects " + repr(bad[0])) if bad else "parses packets before the version line is complete" if early else \
                    f"gotVersion={got_v}, version={attrs.get('otherVersionString')!r}, buffer={attrs.get('buf')!r}"
                key = (q + " | <wait for a complete version line>", )
                if key not in reported:
                    reported.add(key)
                    ctx.violation("version/segmentation-invariant", key[0],
                                  f"the version exchange depends on how the stream is cut: stream {stream!r} delivered as {chunks!r}: after {ch!r} the transport {what}; "
                                  f"reference (first complete line starting with 'SSH-', judged on the accumulated buffer): gotVersion={want[0]}, version={want[1]!r}, buffer={want[2]!r}")
                break
    ctx.extra["version_model_runs"] = n_runs
    ctx.note(f"version-exchange model: {n_runs} (stream, split) runs; {n_known} steps show finding F35a (banner-only buffer reaches getPacket) and are attributed to it")
    if not reported:
        ctx.ok("version/segmentation-invariant", q + " | <wait for a complete version line>", f"{n_runs} runs agree with the reference")
    ctx.floor("version/segmentation-invariant", n_runs, 500, "runs")


def _run_straight(body, env, stop_at, attr_vals, al):
    """Evaluate the straight-line arithmetic of sendPacket up to (excluding) ``stop_at`` with const_eval.
    Assignments whose value is not evaluable make their target unknown; a branch whose test is not
    evaluable (an opaque configuration flag) is evaluated for the configuration where it is false."""
    for st in body:
        if st is stop_at:
            return True
        if isinstance(st, ast.Assign) and len(st.targets) == 1 and isinstance(st.targets[0], ast.Name):
            name = st.targets[0].id
            key = src(st.value)
            if key in attr_vals:
                env[name] = attr_vals[key]
                continue
            try:
                env[name] = const_eval(st.value, env)
            except NotConst:
                env.pop(name, None)
        elif isinstance(st, ast.AugAssign) and isinstance(st.target, ast.Name):
            try:
                env[st.target.id] = const_eval(ast.BinOp(left=ast.Name(id=st.target.id, ctx=ast.Load()), op=st.op, right=st.value), env)
            except NotConst:
                env.pop(st.target.id, None)
        elif isinstance(st, ast.If):
            try:
                t = const_eval(st.test, env)
            except NotConst:
                # opaque configuration test (key exchange in progress / compression on): evaluate the configuration
                # in which it is false; the framing arithmetic does not depend on the payload's content
                if _run_straight(st.orelse, env, stop_at, attr_vals, al):
                    return True
                continue
            if _run_straight(st.body if t else st.orelse, env, stop_at, attr_vals, al):
                return True
    return False


MUTANTS = [
    Mutant("return-payload-before-mac-test", TR, "        if ms:\n            macData, self.buf = self.buf[:ms], self.buf[ms:]\n            if not self.currentEncryptions.verify(\n                self.incomingPacketSequence, packet, macData\n            ):\n                self.sendDisconnect(DISCONNECT_MAC_ERROR, b\"bad MAC\")\n                return\n        payload = packet[5:-paddingLen]\n",
           "        payload = packet[5:-paddingLen]\n        if ms and not self.incomingCompression:\n            macData, self.buf = self.buf[:ms], self.buf[ms:]\n            if not self.currentEncryptions.verify(\n                self.incomingPacketSequence, packet, macData\n            ):\n                self.sendDisconnect(DISCONNECT_MAC_ERROR, b\"bad MAC\")\n                return\n",
           expect_rule="mac/verified-before-delivery"),
    Mutant("verify-drops-sequence-number", TR, "        data = struct.pack(\">L\", seqid) + data\n        outer = hmac.HMAC(self.inMAC.key, data, self.inMAC[0]).digest()", "        outer = hmac.HMAC(self.inMAC.key, data, self.inMAC[0]).digest()",
           expect_rule="mac/covers-sequence-number"),
    Mutant("mac-error-still-delivers", TR, "                self.sendDisconnect(DISCONNECT_MAC_ERROR, b\"bad MAC\")\n                return\n", "                self.sendDisconnect(DISCONNECT_MAC_ERROR, b\"bad MAC\")\n",
           expect_rule="mac/verified-before-delivery"),
    Mutant("first-block-not-stashed", TR, "            # Not enough data for a packet\n            self.first = first\n            return\n", "            # Not enough data for a packet\n            return\n",
           expect_rule="segmentation/first-block-kept"),
    Mutant("wait-ignores-mac-length", TR, "        if len(self.buf) < packetLen + 4 + ms:", "        if len(self.buf) < packetLen + 4:", expect_rule="segmentation/wait-for-whole-packet"),
    Mutant("sequence-bumped-when-queued", TR, "                self._blockedByKeyExchange.append((messageType, payload))\n                return\n",
           "                self._blockedByKeyExchange.append((messageType, payload))\n                self.outgoingPacketSequence += 1\n                return\n", expect_rule="sequence/outgoing-once-per-packet"),
    Mutant("compression-not-flushed", TR, "            payload = self.outgoingCompression.compress(\n                payload\n            ) + self.outgoingCompression.flush(2)\n", "            payload = self.outgoingCompression.compress(payload)\n",
           expect_rule="compression/flushed-per-packet"),
    Mutant("padding-off-by-one", TR, "        if lenPad < 4:\n            lenPad = lenPad + bs\n", "        if lenPad < 3:\n            lenPad = lenPad + bs\n", expect_rule="framing/padding-arithmetic"),
    Mutant("mac-table-row-removed", TR, "        b\"hmac-sha2-384\": sha384,\n", "", expect_rule="tables/mac-known"),
    Mutant("digest-size-of-wrong-direction", TR, "        if self.inMAC:\n            self.verifyDigestSize = self.inMAC[3]", "        if self.inMAC:\n            self.verifyDigestSize = self.outMAC[3]",
           expect_rule="setkeys/direction-consistent"),
    Mutant("rest-after-version-dropped-newlines", TR, "                    self.buf = b\"\\n\".join(lines[i + 1 :])", "                    self.buf = b\"\".join(lines[i + 1 :])", expect_rule="version/rest-preserved"),
    Mutant("rekey-flush-before-state-reset", TR, "        self._keyExchangeState = self._KEY_EXCHANGE_NONE\n        messages = self._blockedByKeyExchange\n        self._blockedByKeyExchange = None\n        for messageType, payload in messages:\n            self.sendPacket(messageType, payload)\n",
           "        messages = self._blockedByKeyExchange\n        self._blockedByKeyExchange = None\n        for messageType, payload in messages:\n            self.sendPacket(messageType, payload)\n        self._keyExchangeState = self._KEY_EXCHANGE_NONE\n",
           expect_rule="rekey/flush-in-order"),
    Mutant("incoming-zlib-typo", TR, "        if self.incomingCompressionType == b\"zlib\":", "        if self.incomingCompressionType == b\"zlib@openssh.com\":", expect_rule="tables/compression-handled"),
    Mutant("verify-compares-prefix", TR, "        return hmac.compare_digest(mac, outer)", "        return hmac.compare_digest(mac[:8], outer[:8])", expect_rule="mac/whole-digest-compared"),
    Mutant("no-return-after-banner-limit", TR, "                    b\"Preventing a denial of service attack.\",\n                )\n                return\n", "                    b\"Preventing a denial of service attack.\",\n                )\n",
           expect_rule="version/length-limit"),
    Mutant("version-wait-looks-at-chunk-only", TR, "            if self.buf.find(b\"\\n\", self.buf.find(b\"SSH-\")) == -1:\n                return\n",
           "            if self.buf.find(b\"SSH-\") == -1 or not data.endswith(b\"\\n\"):\n                return\n", expect_rule="version/segmentation-invariant"),
    Mutant("version-wait-any-newline-in-chunk", TR, "            if self.buf.find(b\"\\n\", self.buf.find(b\"SSH-\")) == -1:\n                return\n",
           "            if data.count(b\"\\n\") == 0:\n                return\n", expect_rule="version/segmentation-invariant"),
    Mutant("named-packet-size-forgets-mac", TR, "        if len(self.buf) < packetLen + 4 + ms:\n            # Not enough data for a packet\n            self.first = first\n            return\n        if (packetLen + 4) % bs != 0:",
           "        wireLen = packetLen + 4\n        if len(self.buf) < wireLen:\n            self.first = first\n            return\n        if wireLen % bs != 0:",
           more=[(TR, "        encData, self.buf = self.buf[: 4 + packetLen], self.buf[4 + packetLen :]", "        encData, self.buf = self.buf[:wireLen], self.buf[wireLen:]")],
           expect_rule="segmentation/wait-for-whole-packet"),
    Mutant("stale-first-block", TR, "            first = self.first\n            del self.first\n", "            first = self.first\n", expect_rule="segmentation/first-block-consumed-once"),
]
SILENT = [
    Silent("named-packet-size-keeps-mac", TR, "        if len(self.buf) < packetLen + 4 + ms:\n            # Not enough data for a packet\n            self.first = first\n            return\n        if (packetLen + 4) % bs != 0:",
           "        wireLen = packetLen + 4\n        needed = wireLen + ms\n        if len(self.buf) < needed:\n            self.first = first\n            return\n        if wireLen % bs != 0:",
           more=[(TR, "        encData, self.buf = self.buf[: 4 + packetLen], self.buf[4 + packetLen :]", "        encData, self.buf = self.buf[:wireLen], self.buf[wireLen:]"),
                 (TR, "        if len(packet) != 4 + packetLen:", "        if len(packet) != wireLen:")]),
    Silent("version-wait-explicit-index", TR, "            if self.buf.find(b\"\\n\", self.buf.find(b\"SSH-\")) == -1:\n                return\n",
           "            marker = self.buf.find(b\"SSH-\")\n            if self.buf.find(b\"\\n\", marker) == -1:\n                return\n"),
    Silent("rename-locals-and-invert-mac-test", TR, "        if ms:\n            macData, self.buf = self.buf[:ms], self.buf[ms:]\n            if not self.currentEncryptions.verify(\n                self.incomingPacketSequence, packet, macData\n            ):\n                self.sendDisconnect(DISCONNECT_MAC_ERROR, b\"bad MAC\")\n                return\n",
           "        if ms > 0:\n            tag, self.buf = self.buf[:ms], self.buf[ms:]\n            if self.currentEncryptions.verify(self.incomingPacketSequence, packet, tag):\n                pass\n            else:\n                self.sendDisconnect(DISCONNECT_MAC_ERROR, b\"bad MAC\")\n                return None\n"),
    Silent("wait-test-reordered", TR, "        if len(self.buf) < packetLen + 4 + ms:", "        if not len(self.buf) >= 4 + ms + packetLen:"),
    Silent("sequence-plain-assignment", TR, "        self.incomingPacketSequence += 1\n        return payload", "        self.incomingPacketSequence = self.incomingPacketSequence + 1\n        return payload"),
    Silent("repair-F35a-and-F35b", TR, "                    i = lines.index(p)\n                    self.buf = b\"\\n\".join(lines[i + 1 :])\n        packet = self.getPacket()",
           "                    i = lines.index(p)\n                    self.buf = b\"\\n\".join(lines[i + 1 :])\n                    break\n            if not self.gotVersion:\n                return\n        packet = self.getPacket()"),
]
