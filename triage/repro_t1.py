import sys, traceback
def run(name, f):
    try:
        r = f()
        print("[%s] ->" % name, repr(r)[:300])
    except BaseException as e:
        print("[%s] RAISED %s: %s" % (name, type(e).__name__, str(e)[:200]))

# C55
from twisted.logger import eventAsText, formatEventAsClassicLogText, formatEvent
run("C55 log_time str", lambda: eventAsText({"log_format": "x", "log_time": "bogus"}))
run("C55 log_time huge", lambda: eventAsText({"log_format": "x", "log_time": 1e30}))
run("C55 log_time nan", lambda: eventAsText({"log_format": "x", "log_time": float("nan")}))
class Bad:
    def __format__(self, s): raise RuntimeError("fmt")
    def __str__(self): raise RuntimeError("str")
    def __repr__(self): raise RuntimeError("repr")
run("C55 namespace bad", lambda: eventAsText({"log_format": "x", "log_namespace": Bad()}))
run("C55 level odd", lambda: eventAsText({"log_format": "x", "log_level": 5}))
run("C55 system bad", lambda: eventAsText({"log_format": "x", "log_system": Bad()}))
run("C55 classic", lambda: formatEventAsClassicLogText({"log_format": "x", "log_time": "bogus"}))

# C46
from twisted.internet.endpoints import quoteStringArgument, _parse
run("C46", lambda: _parse("tcp:" + quoteStringArgument("a=b") + ":x"))

# C26
from twisted.python.filepath import FilePath, InsecurePath
import os, tempfile
d = tempfile.mkdtemp()
os.mkdir(d+"/root"); os.mkdir(d+"/root-evil")
run("C26 preauthChild", lambda: FilePath(d+"/root").preauthChild("../root-evil/x").path)
run("C26 child", lambda: FilePath(d+"/root").child("..").path)

# C48
from twisted.cred.credentials import DigestCredentialFactory
f = DigestCredentialFactory(b"md5", b"realm")
ch = f.getChallenge(b"1.2.3.4")
run("C48 badpad", lambda: f.decode(b'username="u", nonce="%s", opaque="abc-A", response="x"' % ch["nonce"], b"GET", b"1.2.3.4"))
run("C48 nonascii key", lambda: f.decode(b'user\xffname="u", username="u", nonce="n", opaque="a-b"', b"GET", b"1.2.3.4"))
def c48c():
    resp = b'username="u", nonce="%s", opaque="%s", response="x", uri="/", algorithm="foo"' % (ch["nonce"], ch["opaque"])
    c = f.decode(resp, b"GET", b"1.2.3.4")
    return c.checkPassword(b"pw")
run("C48 algo foo", c48c)

# C19 request target
from twisted.web.http import _parseRequestLine
run("C19 0x7f", lambda: _parseRequestLine(b"GET /\x7f HTTP/1.1"))
run("C19 0xb0", lambda: _parseRequestLine(b"GET /\xb0 HTTP/1.1"))
run("C19 0xb1", lambda: _parseRequestLine(b"GET /\xb1 HTTP/1.1"))

# C28 comment
from twisted.web.template import Comment, flattenString, tags
from twisted.internet import defer
def fl(x):
    out=[]
    flattenString(None, x).addBoth(out.append)
    return out[0]
run("C28 comment >", lambda: fl(Comment(">hello")))
run("C28 comment --!>", lambda: fl(Comment("a--!>b")))
run("C28 comment ->", lambda: fl(Comment("->x")))
