from twisted.web import http, server, resource
from twisted.internet.testing import StringTransport
got=[]
class R(resource.Resource):
    isLeaf=True
    def render(self, request):
        got.append((request.method, request.uri, request.content.read(), dict(request.requestHeaders.getAllRawHeaders())))
        return b"ok"
site = server.Site(R())
p = site.buildProtocol(None)
t = StringTransport(); p.makeConnection(t)
# conflicting framing: CL + TE chunked, delivered in two segments after the bad header is detected
p.dataReceived(b"POST /x HTTP/1.1\r\nHost: a\r\nContent-Length: 5\r\nTransfer-Encoding: chunked\r\nX: y\r\n")
print("after seg1:", t.value()[:40], "disconnecting", t.disconnecting)
p.dataReceived(b"\r\n")
p.dataReceived(b"0\r\n\r\n")
print("requests handed to app:", got)
print(t.value()[:120])
