from twisted.protocols import basic
from twisted.internet.testing import StringTransport
def drive(cls, chunks, M=10):
    got=[]; exc=[]
    class P(cls):
        MAX_LENGTH=M
        def lineReceived(s, l): got.append(l)
        def lineLengthExceeded(s, l): exc.append(l); return cls.lineLengthExceeded(s, l)
    p=P(); t=StringTransport(); p.makeConnection(t)
    for c in chunks: p.dataReceived(c)
    return got, exc, t.disconnecting
for cls in (basic.LineOnlyReceiver, basic.LineReceiver):
    print(cls.__name__, "whole:", drive(cls, [b"x"*10+b"\r\n"]))
    print(cls.__name__, "split:", drive(cls, [b"x"*10+b"\r", b"\n"]))
