from twisted.web.template import Comment, CDATA, flattenString, tags
import xml.dom.minidom
for data in [">x", "->x", "a--!>b", "a--b", "a-", "--", "-", "a-->b", "<!--a", "a--!"]:
    out = []
    flattenString(None, tags.p(Comment(data))).addBoth(out.append)
    s = out[0]
    try:
        xml.dom.minidom.parseString(s); x = "xml-ok"
    except Exception as e:
        x = "xml-ERR " + str(e)[:40]
    print(repr(data), s, x)
