from twisted.web.client import BrowserLikeRedirectAgent, RedirectAgent
from twisted.web.http_headers import Headers
from twisted.internet.defer import succeed
class Resp:
    def __init__(self, code, loc=None):
        self.code = code; self.headers = Headers({b"location":[loc]} if loc else {})
    def setPreviousResponse(self, r): pass
class Fake:
    def __init__(self, script): self.script = list(script); self.calls = []
    def request(self, method, uri, headers=None, bodyProducer=None):
        self.calls.append((method, uri, dict(headers.getAllRawHeaders()) if headers else None))
        return succeed(self.script.pop(0))
for cls in (RedirectAgent, BrowserLikeRedirectAgent):
    for code in (301, 302, 303, 307, 308):
        f = Fake([Resp(code, b"/next"), Resp(200)])
        d = cls(f).request(b"POST", b"http://a/x", Headers({b"authorization":[b"s"]}))
        res = []
        d.addBoth(res.append)
        print(cls.__name__, code, [c[:2] for c in f.calls], type(res[0]).__name__)
