import os, tempfile
from twisted.web import static, server
from twisted.web.test.requesthelper import DummyRequest
from twisted.web.test._util import _render
d = tempfile.mkdtemp()
p = os.path.join(d, "f.txt")
open(p, "wb").write(b"0123456789")
for rng in [b"bytes=--5", b"bytes=+1-2", b"bytes=1_0-", b"bytes= 1 - 2 ", b"bytes=1-2,", b"bytes=,", b"bytes=", b" bytes = 1-2"]:
    f = static.File(p)
    req = DummyRequest([b""])
    req.method = b"GET"
    req.requestHeaders.addRawHeader(b"range", rng)
    try:
        r = f.render(req)
        print(rng, "->", req.responseCode, dict(req.responseHeaders.getAllRawHeaders()), b"".join(req.written)[:80], r)
    except Exception as e:
        print(rng, "-> EXC", type(e).__name__, e)
