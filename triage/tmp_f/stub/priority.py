class DeadlockError(Exception): pass
class DuplicateStreamError(Exception): pass
class MissingStreamError(Exception): pass
class BadWeightError(Exception): pass
class PseudoStreamError(Exception): pass
class TooManyStreamsError(Exception): pass
class PriorityLoop(Exception): pass
class PriorityTree:
    def __init__(self): self.s = {}; self.i = 0
    def insert_stream(self, sid, depends_on=None, weight=16, exclusive=False):
        if sid in self.s: raise DuplicateStreamError(sid)
        self.s[sid] = True
    def reprioritize(self, *a, **k): pass
    def remove_stream(self, sid): self.s.pop(sid, None)
    def block(self, sid): self.s[sid] = False
    def unblock(self, sid):
        if sid in self.s: self.s[sid] = True
    def __iter__(self): return self
    def __next__(self):
        act = [k for k, v in self.s.items() if v]
        if not act: raise DeadlockError()
        self.i += 1
        return act[self.i % len(act)]
