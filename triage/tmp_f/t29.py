import sys
sys.path.insert(0, "/verif/triage/tmp_f/stub")
from twisted.web import _http2, server, resource
from twisted.internet import task
from twisted.test.proto_helpers import StringTransport
import h2.connection, h2.config, h2.events, h2.settings
class R(resource.Resource):
    isLeaf = True
    def render_GET(self, request):
        return b"x" * 100000
site = server.Site(R())
class FakeReactor:
    def __init__(self): self.q = []
    def callLater(self, t, f, *a, **k):
        self.q.append((f, a, k))
        class DC:
            def cancel(s): pass
            def active(s): return False
            def reset(s, t): pass
        return DC()
    def advance(self, t):
        q, self.q = self.q, []
        for f, a, k in q: f(*a, **k)
    def getDelayedCalls(self): return self.q
    def seconds(self): return 0
clock = FakeReactor()
conn = _http2.H2Connection(reactor=clock)
conn.requestFactory = server.Request; conn.site = site; conn.factory = site
tr = StringTransport()
conn.makeConnection(tr)
c = h2.connection.H2Connection(h2.config.H2Configuration(client_side=True))
c.initiate_connection()
c.send_headers(1, [(":method","GET"),(":path","/"),(":scheme","https"),(":authority","a")], end_stream=True)
conn.dataReceived(c.data_to_send())
got = 0
def pump():
    global got
    data = tr.value(); tr.clear()
    if data:
        for ev in c.receive_data(data):
            if isinstance(ev, h2.events.DataReceived):
                got += len(ev.data)
    out = c.data_to_send()
    if out: conn.dataReceived(out)
for i in range(50):
    clock.advance(0); pump()
print("received before shrink", got)
# shrink initial window so that stream window goes negative
c.update_settings({h2.settings.SettingCodes.INITIAL_WINDOW_SIZE: 65435})
pump()
print("server view of stream window:", conn.conn.local_flow_control_window(1))
try:
    for i in range(20):
        clock.advance(0); pump()
    # open connection-level window only
    c.increment_flow_control_window(100000)
    pump()
    for i in range(50):
        clock.advance(0); pump()
    c.increment_flow_control_window(200000, 1)
    pump()
    for i in range(200):
        clock.advance(0); pump()
    print("total received", got, "pending calls", len(clock.getDelayedCalls()))
except Exception as e:
    import traceback; traceback.print_exc()
    print("EXC", type(e).__name__, e, "received", got)
