def run(name, f):
    try:
        r = f()
        print("[%s] ->" % name, repr(r)[:400])
    except BaseException as e:
        print("[%s] RAISED %s: %s" % (name, type(e).__name__, str(e)[:200]))
from twisted.internet.testing import StringTransport
# C38
from twisted.conch.telnet import TelnetTransport, TelnetProtocol
def c38():
    t = TelnetTransport(TelnetProtocol); st = StringTransport(); t.makeConnection(st)
    st.clear()
    t.write(b"a\xffb\n"); w1 = st.value(); st.clear()
    t.writeSequence([b"a\xffb\n"]); w2 = st.value()
    return w1, w2
run("C38", c38)
# C20
from twisted.web import http, server, resource
from twisted.web.test.requesthelper import DummyChannel
def c20():
    ch = DummyChannel()
    req = http.Request(ch, False)
    req.method=b"GET"; req.clientproto=b"HTTP/1.1"
    req.setResponseCode(200, b"OK\r\nX-Injected: yes")
    req.write(b"hi")
    return ch.transport.written.getvalue()
run("C20", c20)
# C25
from twisted.web import static
import tempfile, os
d = tempfile.mkdtemp(); p = os.path.join(d, "f.txt"); open(p,"wb").write(b"0123456789")
from twisted.web.test.requesthelper import DummyRequest
def c25(rng):
    f = static.File(p)
    req = DummyRequest([b""]); req.method=b"GET"
    req.requestHeaders.setRawHeaders(b"range", [rng])
    r = f.render(req)
    return req.responseCode, req.responseHeaders.getRawHeaders(b"content-range"), b"".join(req.written)
run("C25 nonutf8", lambda: c25(b"\xff"))
run("C25 suffix>size", lambda: c25(b"bytes=-5000"))
run("C25 plus", lambda: c25(b"bytes=+1-2"))
# C27
from twisted.web.client import RedirectAgent
from twisted.web.http_headers import Headers
from twisted.internet import defer
class FakeResp:
    def __init__(s, code, loc): s.code=code; s.headers=Headers({b"location":[loc]} if loc else {}); s.prev=None
    def setPreviousResponse(s,p): s.prev=p
class FakeAgent:
    def __init__(s, script): s.script=script; s.reqs=[]
    def request(s, method, uri, headers=None, body=None):
        s.reqs.append((method, uri, headers and list(headers.getAllRawHeaders())))
        return defer.succeed(s.script.pop(0))
def c27():
    a = FakeAgent([FakeResp(302, b"http://b.example/p/q"), FakeResp(302, b"r"), FakeResp(200, None)])
    ra = RedirectAgent(a)
    ra.request(b"GET", b"http://a.example/x/y", Headers({b"authorization":[b"s"]}))
    return a.reqs
run("C27", c27)
# C11
from twisted.internet import task
def c11():
    calls=[]
    sched = lambda f: calls.append(f) or task.Clock().callLater(0, lambda: None)
    c = task.Cooperator(terminationPredicateFactory=lambda: (lambda: True), scheduler=sched)
    d = defer.Deferred()
    def it():
        yield d
    t = c.cooperate(it())
    res=[]
    t.whenDone().addBoth(res.append)
    calls.pop(0)()
    t.stop()
    import twisted.python.failure as F
    errs=[]
    d.addErrback(lambda f: errs.append(f) or None)
    d.errback(RuntimeError("x"))
    st = []
    try: t.pause()
    except Exception as e: st.append(type(e).__name__)
    return res, st, errs
run("C11", c11)
# C47
from twisted.protocols.haproxy._wrapper import HAProxyWrappingFactory
from twisted.internet.protocol import Factory, Protocol
def c47():
    got=[]
    class P(Protocol):
        def dataReceived(s, d): got.append(d)
    f = HAProxyWrappingFactory(Factory.forProtocol(P))
    p = f.buildProtocol(None); st = StringTransport(); p.makeConnection(st)
    hdr = b"PROXY TCP4 1.1.1.1 2.2.2.2 1 2\r\nhello"
    p.dataReceived(hdr[:5]); p.dataReceived(hdr[5:])
    return got, st.disconnecting
run("C47 short", c47)
