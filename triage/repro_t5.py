from twisted.logger import formatEvent
from twisted.logger._flatten import flattenEvent
from twisted.logger._json import eventAsJSON, eventFromJSON
def t(fmt, **kw):
    e = dict(log_format=fmt, **kw)
    a = formatEvent(dict(e))
    e2 = dict(e); flattenEvent(e2)
    b = formatEvent(e2)
    c = formatEvent(eventFromJSON(eventAsJSON(dict(e))))
    print(repr(fmt), "orig=%r flat=%r json=%r" % (a, b[:80], c[:80]))
t("{x:05d}", x=3)
t("{x!a}", x="é")
t("{x:>6}", x="ab")
t("{x!r:>8}", x="ab")
