def run(name, f):
    try:
        r = f()
        print("[%s] ->" % name, repr(r)[:400])
    except BaseException as e:
        print("[%s] RAISED %s: %s" % (name, type(e).__name__, str(e)[:200]))
from twisted.mail.imap4 import collapseNestedLists, parseNestedParens
run("C42 backslash", lambda: parseNestedParens(b"(" + collapseNestedLists([b"a\\b"]) + b")"))
run("C42 trailing backslash", lambda: parseNestedParens(b"(" + collapseNestedLists([b"a\\"]) + b")"))
run("C42 NIL text", lambda: parseNestedParens(b"(" + collapseNestedLists([b"NIL"]) + b")"))
run("C42 quote", lambda: parseNestedParens(b"(" + collapseNestedLists([b'a"b']) + b")"))
# C30
from twisted.protocols.amp import AmpBox
run("C30 empty key", lambda: AmpBox({b"": b"x"}).serialize())
run("C30 empty box", lambda: AmpBox({}).serialize())
# C40
from twisted.mail.smtp import SMTPClient
c = SMTPClient.__new__(SMTPClient); c.resetTimeout = lambda: None
run("C40 chunk boundary", lambda: (c.transformChunk(b"abc\n"), c.transformChunk(b".def\n")))
run("C40 start", lambda: c.transformChunk(b".first\n"))
