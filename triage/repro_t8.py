from twisted.names import dns
from io import BytesIO
def run(name, f):
    try: print("[%s] ->" % name, repr(f())[:200])
    except BaseException as e: print("[%s] RAISED %s: %s" % (name, type(e).__name__, str(e)[:100]))
def enc(n):
    s=BytesIO(); dns.Name(n).encode(s); return s.getvalue()
run("label 64", lambda: enc(b"a"*64+b".com")[:6])
def rt(n):
    b=enc(n); x=dns.Name(); x.decode(BytesIO(b)); return x.name
run("roundtrip 64", lambda: rt(b"a"*64+b".com")[:70])
run("label 200", lambda: rt(b"a"*200+b".com")[:70])
run("label 256", lambda: enc(b"a"*256+b".com")[:6])
