from twisted.web._newclient import ChunkedEncoder
from twisted.internet.testing import StringTransport
t = StringTransport()
e = ChunkedEncoder(t)
e.write(b"ab"); e.write(b""); e.write(b"cd")
print(t.value())
