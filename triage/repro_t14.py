from twisted.application.internet import ClientService
from twisted.internet import defer, task
from twisted.internet.protocol import Factory, Protocol
from twisted.internet.testing import StringTransport
from twisted.python.failure import Failure
from twisted.internet.error import ConnectionDone
class EP:
    def __init__(s): s.factories=[]; s.ds=[]
    def connect(s, f):
        s.factories.append(f); d = defer.Deferred(); s.ds.append(d); return d
clock = task.Clock(); ep = EP()
svc = ClientService(ep, Factory.forProtocol(Protocol), clock=clock, prepareConnection=lambda p: defer.fail(RuntimeError("prep")))
svc.startService()
proto = ep.factories[0].buildProtocol(None); t = StringTransport(); proto.makeConnection(t)
ep.ds[0].callback(proto)   # prepare fails -> Waiting ; is transport closed?
print("transport disconnecting after failed prepare:", t.disconnecting)
try:
    proto.connectionLost(Failure(ConnectionDone())); print("no error")
except BaseException as e: print("RAISED", type(e).__name__, str(e)[:90])
clock.advance(10)
print("attempts:", len(ep.factories))
