from probe import probe
D="internet/defer.py"
P="C06"
probe(P,"S lock acquire or waiting",D,"        if self.locked:\n            self.waiting.append(d)","        if self.locked or self.waiting:\n            self.waiting.append(d)")
probe(P,"M lock release len>1",D,"        self.locked = False\n        if self.waiting:\n            # someone is waiting to acquire lock","        self.locked = False\n        if len(self.waiting) > 1:\n            # someone is waiting to acquire lock")
probe(P,"M sem tokens+1 after if",D,"        self.tokens = self.tokens + 1\n        if self.waiting:\n            # someone is waiting to acquire token\n            self.tokens = self.tokens - 1\n            d = self.waiting.pop(0)\n            d.callback(self)\n","        if self.waiting:\n            self.tokens = self.tokens - 1\n            d = self.waiting.pop(0)\n            d.callback(self)\n        self.tokens = self.tokens + 1\n")
probe(P,"M sem cancel gives token",D,"        self.waiting.remove(d)\n\n    def acquire(self: Self) -> Deferred[Self]:\n        \"\"\"\n        Attempt to acquire the token.","        self.waiting.remove(d)\n        self.tokens += 1\n\n    def acquire(self: Self) -> Deferred[Self]:\n        \"\"\"\n        Attempt to acquire the token.")
probe(P,"S lock pop before locked",D,"            self.locked = True\n            d = self.waiting.pop(0)\n            d.callback(self)\n\n\nclass DeferredSem","            d = self.waiting.pop(0)\n            self.locked = True\n            d.callback(self)\n\n\nclass DeferredSem")
probe(P,"S run lambda",D,"        return self.acquire().addCallback(execute)","        return self.acquire().addCallback(lambda _: maybeDeferred(f, *args, **kwargs).addBoth(self._releaseAndReturn))")
probe(P,"S releaseAndReturn finally",D,"        self.release()\n        return r\n","        try:\n            return r\n        finally:\n            self.release()\n")
probe(P,"M aexit no release",D,"        self.release()\n        # We return False","        # We return False")
probe(P,"M sem waiting insert0",D,"        if not self.tokens:\n            self.waiting.append(d)","        if not self.tokens:\n            self.waiting.insert(0, d)")
probe(P,"M lock release no pop if",D,"        self.locked = False\n        if self.waiting:\n","        self.locked = False\n        if not self.waiting:\n")
probe(P,"M sem tokens==limit assert weird",D,"            self.tokens < self.limit\n","            self.tokens > self.limit\n")
probe(P,"M sem acquire no decrement",D,"            self.tokens = self.tokens - 1\n            d.callback(self)\n        return d","            d.callback(self)\n        return d")
probe(P,"M lock acquire no locked",D,"            self.locked = True\n            d.callback(self)\n        return d","            d.callback(self)\n        return d")
probe(P,"M lock acquire both",D,"        if self.locked:\n            self.waiting.append(d)\n        else:","        self.waiting.append(d)\n        if not self.locked:")
probe(P,"M releaseAndReturn cond",D,"        self.release()\n        return r\n","        if not isinstance(r, Failure):\n            self.release()\n        return r\n")
probe(P,"S sem limit name",D,"        self.tokens = tokens\n        self.limit = tokens\n","        self.limit = self.tokens = tokens\n")
