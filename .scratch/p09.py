from probe import probe
T="internet/task.py"; B="internet/base.py"; P="C09"
probe(P,"M rightNow = amount",T,"        self.rightNow += amount\n","        self.rightNow = amount\n")
probe(P,"M sort only in callLater not after call (move)",T,"            call.func(*call.args, **call.kw)\n            self._sortCalls()\n","            self._sortCalls()\n            call.func(*call.args, **call.kw)\n")
probe(P,"M callLater time no seconds",T,"            self.seconds() + delay,\n            callable,\n            args,\n            kw,\n            self.calls.remove","            delay,\n            callable,\n            args,\n            kw,\n            self.calls.remove")
probe(P,"M if instead of while",T,"        while self.calls and self.calls[0].getTime() <= self.seconds():","        if self.calls and self.calls[0].getTime() <= self.seconds():")
probe(P,"S while 1",T,"        while self.calls and self.calls[0].getTime() <= self.seconds():\n            call = self.calls.pop(0)","        while self.calls:\n            if self.calls[0].getTime() > self.seconds():\n                break\n            call = self.calls.pop(0)")
probe(P,"M getDelayedCalls empty",T,"        return self.calls\n","        return []\n")
probe(P,"M seconds zero",T,"        return self.rightNow\n","        return 0.0\n")
probe(P,"M func no args",T,"call.func(*call.args, **call.kw)","call.func(*call.args)")
probe(P,"M sort key neg",T,"key=lambda a: a.getTime()","key=lambda a: -a.getTime()")
probe(P,"M reset effective",B,"                self.delayed_time = newTime - self.time\n","                self.delayed_time = newTime\n")
probe(P,"M try/except swallow+break",T,"            call.func(*call.args, **call.kw)\n            self._sortCalls()\n","            try:\n                call.func(*call.args, **call.kw)\n            except Exception:\n                break\n            self._sortCalls()\n")
