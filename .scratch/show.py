import sys; sys.path.insert(0,'/verif')
from sa.check import run_once
from sa.selftest import apply_edit
from sa.source import SourceTree
import importlib
prop, name = sys.argv[1], sys.argv[2]
m = importlib.import_module(f"sa.props.{prop.lower()}")
v=[x for x in m.SILENT+m.MUTANTS if x.name==name][0]
_,c=run_once(prop,"quick",overlay=apply_edit(SourceTree(),v))
for f in c.unlisted(): print(f.rule,'|',f.construct,'|',f.fails,'|',f.witness)
