import sys; sys.path.insert(0,'/verif')
from sa.check import run_once
from sa.selftest import apply_edit, Edit
from sa.source import SourceTree, AnalysisError
def probe(prop, name, path, old, new, more=()):
    try:
        ov = apply_edit(SourceTree(), Edit(name, path, old, new, more=more))
    except LookupError as e:
        print(name, "NOT-APPLICABLE", e); return
    try:
        _, c = run_once(prop, "quick", overlay=ov)
        u = c.unlisted()
        print(f"{name}: " + ("silent" if not u else "ALARM " + " ;; ".join(f"{f.rule} | {f.construct[-70:]}" for f in u[:4])) + (f"  [errors: {c.errors}]" if c.errors else ""))
    except AnalysisError as e:
        print(name, "ANALYSIS-ERROR", e)
