import sys, subprocess, shutil, os
sys.path.insert(0,'/verif')
from sa.check import run_once
from sa.source import AnalysisError
FILES={"C08":"internet/base.py","C09":"internet/task.py"}
for prop, name in (("C08","C08a"),("C08","C08b"),("C09","C09a"),("C09","C09b")):
    diff=open(f"/verif/seeded/{name}/patch.diff").read()
    rels=[l.split(" b/src/twisted/")[1].strip() for l in diff.splitlines() if l.startswith("diff --git")]
    ov={}
    ok=True
    for rel in rels:
        shutil.copy("/repo/src/twisted/"+rel, "tmp.py")
        # split multi-file diffs: patch handles by filename; apply whole diff to the single file with -p? use filterdiff-less approach
        r = subprocess.run(["patch", "-s", "tmp.py", f"/verif/seeded/{name}/patch.diff"], capture_output=True, text=True) if len(rels)==1 else None
        if r is None or r.returncode: ok=False; print(name,"patch failed", rels, r and (r.stdout+r.stderr)); break
        ov[rel]=open("tmp.py").read(); os.remove("tmp.py")
    if not ok: continue
    try:
        _, c = run_once(prop, "quick", overlay=ov)
        u = c.unlisted()
        print(name, rels, "->", "exit 1" if u else "exit 0", [f"{f.rule} | {f.construct[-80:]}" for f in u[:3]], c.errors)
    except AnalysisError as e:
        print(name, "-> exit 2", e)
