from probe import probe
D="internet/defer.py"; P="C07"
PUT=('        if self.waiting:\n            self.waiting.pop(0).callback(obj)\n'
        '        elif self.size is None or len(self.pending) < self.size:\n            self.pending.append(obj)\n'
        '        else:\n            raise QueueOverflow()\n')
probe(P,"M C07a store-then-refuse",D,PUT,'        if self.waiting:\n            self.waiting.pop(0).callback(obj)\n            return\n        self.pending.append(obj)\n        if self.size is not None and len(self.pending) > self.size:\n            raise QueueOverflow()\n')
probe(P,"S store-then-undo",D,PUT,'        if self.waiting:\n            self.waiting.pop(0).callback(obj)\n            return\n        self.pending.append(obj)\n        if self.size is not None and len(self.pending) > self.size:\n            self.pending.pop()\n            raise QueueOverflow()\n')
probe(P,"M C07b lazy cancel",D,'        self.waiting.remove(d)\n\n    def put(self, obj: _T) -> None:','        pass\n\n    def put(self, obj: _T) -> None:',
  more=[(D,'        if self.waiting:\n            self.waiting.pop(0).callback(obj)\n        elif self.size is None','        while self.waiting:\n            d = self.waiting.pop(0)\n            if not d.called:\n                d.callback(obj)\n                return\n        if self.size is None')])
probe(P,"S defensive loop (canceller still removes)",D,'        if self.waiting:\n            self.waiting.pop(0).callback(obj)\n        elif self.size is None','        while self.waiting:\n            d = self.waiting.pop(0)\n            if not d.called:\n                d.callback(obj)\n                return\n        if self.size is None')
probe(P,"S try remove",D,'        self.waiting.remove(d)\n\n    def put(self, obj: _T) -> None:','        try:\n            self.waiting.remove(d)\n        except ValueError:\n            pass\n\n    def put(self, obj: _T) -> None:')
probe(P,"S log line",D,'        if self.waiting:\n            self.waiting.pop(0).callback(obj)\n        elif','        log.debug("put")\n        if self.waiting:\n            self.waiting.pop(0).callback(obj)\n        elif')
probe(P,"? with unknown stmt in get (try/finally)",D,'        if self.pending:\n            return succeed(self.pending.pop(0))','        if self.pending:\n            try:\n                return succeed(self.pending.pop(0))\n            finally:\n                pass')
