#!/venv/bin/python
"""Prompt for an independent sub-agent asked for BEHAVIOUR-PRESERVING refactors of the code a
property is anchored in (used to test that the checks never raise an alarm on correct code)."""
import json, sys
props = {json.loads(l)["id"]: json.loads(l) for l in open("/verif/properties.jsonl")}
pid = sys.argv[1]
rnd = int(sys.argv[2]) if len(sys.argv) > 2 else 1
p = props[pid]
wt = f"/tmp/seed/{pid}"
out = f"{wt}-out3" if rnd == 1 else f"{wt}-outR{rnd}"
avoid = ""
if rnd > 1:
    import glob, os
    prev = []
    for d in sorted(glob.glob(f"/verif/refactors/{pid}r*")):
        try:
            m = json.load(open(os.path.join(d, "meta.json")))
            prev.append(f"  - {m.get('summary', '')}"[:500])
        except Exception:
            pass
    if prev:
        avoid = ("\nALREADY DONE BY OTHERS (do not repeat these or close variants; restructure different functions, or the same ones in a "
                 "different style):\n" + "\n".join(prev) + "\n")
mech = "; ".join(m["name"] for m in p["anchors"].get("mechanism", []))
print(f"""You are working in a scratch git worktree of the Twisted repository (Python networking framework) at {wt} (package source under {wt}/src/twisted, tests in the `test/` sub-packages). Work ONLY inside {wt} and {out}. Never touch /repo and never read or write anything under /verif. No network is available. Do NOT use `git stash` (shared between worktrees); use `git diff > file; git checkout -- .; git apply file`. Start with `git -C {wt} checkout -- . && git -C {wt} clean -fdq`.

Run code against this worktree with:  cd {wt} && PYTHONPATH={wt}/src /venv/bin/python your_script.py
Run tests with:  cd {wt} && PYTHONPATH={wt}/src /venv/bin/python -m pytest -q -p no:cacheprovider -n 4 --timeout=600 src/twisted/<path to test module(s)>

PROPERTY {pid}: {p['title']}
Statement: {p['statement']}
Main source files: {', '.join(p['anchors']['files'])}
Mechanisms that implement it: {mech}

{avoid}
TASK. Produce {"FOUR" if rnd == 1 else ("TWO" if rnd == 2 else "ONE")} independent, BEHAVIOUR-PRESERVING refactoring{"" if rnd >= 3 else "s"} ({"R1..R4" if rnd == 1 else ("R5 and R6" if rnd == 2 else f"R{rnd + 4}; make it a substantial one, touching the central functions of the property")}) of the functions/classes that implement this property — the kind of clean-up a maintainer would merge: each must leave the observable behaviour of every public API exactly as it is (same results, same exceptions, same ordering of effects and call-outs, same behaviour under re-entrancy and error paths), so the property above still holds and all existing tests still pass. Each refactoring should be substantial enough to change the SHAPE of the code the property depends on (not just whitespace or comments), and they should differ in style. Ideas: rename locals / parameters of private helpers; extract a private helper method or inline one; turn nested if/else into guard clauses with early returns (or the reverse); invert a condition and swap the branches; rewrite `a > b` as `b < a` / `not a <= b`; replace a flag variable by `while ... else` or by an early return; introduce named temporaries for sub-expressions; replace `list.pop(0)` on a private list by `collections.deque.popleft()` (changing the constructor accordingly) where the list is not exposed; replace a loop by a comprehension or the reverse; reorder statements that are provably independent; replace chained `.replace()` calls by a loop over a constant tuple; use `try/finally` vs context manager; replace string formatting style. Do NOT change public names, signatures, class attributes that tests or subclasses rely on, log messages that tests assert on, or anything semantic.

For each refactoring you must convince yourself it is behaviour-preserving: run every test module that exercises the files you changed (list exactly what you ran; all must pass as on the unmodified tree), and write a small `equiv.py` that drives the old behaviour-relevant scenarios (normal paths, boundary values, error paths, re-entrant use where relevant) and prints a deterministic transcript; the transcript must be IDENTICAL on the unmodified worktree and with the refactoring applied (verify by running both and diffing).

DELIVERABLES: {out}/{"R1/ … " + out + "/R4/" if rnd == 1 else ("R5/ and " + out + "/R6/" if rnd == 2 else f"R{rnd + 4}/")}, each containing
  patch.diff  (output of `git diff` with only that refactoring applied; must apply with `git apply` to a clean checkout)
  equiv.py    (the transcript script)
  meta.json   {{"property": "{pid}", "kind": "refactor", "summary": "<what was refactored and how>", "why_equivalent": "<argument>", "files": ["src/twisted/..."], "tests": ["src/twisted/.../test_x.py", ...], "ran": ["<commands and outcomes>"]}}
Leave the worktree clean at the end. Final answer: two sentences per refactoring.""")
