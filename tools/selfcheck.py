#!/venv/bin/python
"""Local stand-in for `vp check` (developer aid): clone /verif HEAD into a scratch directory, run every
MANIFEST quick command there against /repo with its evidence file removed first, and validate
MANIFEST.json and every evidence file against the schemas in /root/.vp.

  tools/selfcheck.py [--thorough] [--worktree]     (--worktree: run in /verif itself, i.e. refresh evidence)
"""
import json
import os
import shutil
import subprocess
import sys
import tempfile
import time
from concurrent.futures import ThreadPoolExecutor

VERIF = os.path.dirname(os.path.dirname(os.path.abspath(__file__)))


def validators():
    code = r'''
import json, sys, jsonschema
man = json.load(open(sys.argv[1] + "/MANIFEST.json"))
jsonschema.validate(man, json.load(open("/root/.vp/MANIFEST.schema.json")))
evs = json.load(open("/root/.vp/EVIDENCE.schema.json"))
bad = 0
for c in man["checks"]:
    p = sys.argv[1] + "/" + c["evidence_file"]
    try:
        jsonschema.validate(json.load(open(p)), evs)
    except Exception as e:
        bad += 1
        print("EVIDENCE-INVALID", c["property_id"], str(e)[:200])
print("schemas: manifest ok, evidence invalid:", bad)
sys.exit(1 if bad else 0)
'''
    return code


def main():
    thorough = "--thorough" in sys.argv
    inplace = "--worktree" in sys.argv
    if inplace:
        d = VERIF
    else:
        base = "/dev/shm" if os.path.isdir("/dev/shm") else "/tmp"
        d = tempfile.mkdtemp(prefix="verif-selfcheck-", dir=base)
        subprocess.run(f"git -C {VERIF} archive HEAD | tar -x -C {d}", shell=True, check=True)
    man = json.load(open(os.path.join(d, "MANIFEST.json")))
    env = dict(os.environ, PIP_NO_INDEX="1", CARGO_NET_OFFLINE="true", GOPROXY="off")
    subprocess.run(man.get("setup_cmd", "true"), shell=True, cwd=d, env=env, check=True)

    def one(c):
        ev = os.path.join(d, c["evidence_file"])
        if os.path.exists(ev):
            os.unlink(ev)
        t = time.time()
        p = subprocess.run(c["thorough_cmd" if thorough else "quick_cmd"], shell=True, cwd=d, env=env, stdout=subprocess.PIPE,
                           stderr=subprocess.STDOUT, text=True)
        return c["property_id"], p.returncode, "VIOLATION" in p.stdout, os.path.isfile(ev), time.time() - t, p.stdout

    bad = 0
    with ThreadPoolExecutor(14) as ex:
        for pid, rc, viol, has_ev, wall, out in ex.map(one, man["checks"]):
            kf = sum(1 for l in out.splitlines() if l.startswith("KNOWN-FINDING"))
            flag = "ok" if rc == 0 and not viol and has_ev else "BROKEN"
            if flag != "ok":
                bad += 1
                print(out[-1500:])
            print(f"{pid}: exit {rc} violation-line={viol} evidence={has_ev} known-findings={kf} wall={wall:.1f}s {flag}")
    r = subprocess.run(["python3-vt", "-c", validators(), d])
    if not inplace:
        shutil.rmtree(d, ignore_errors=True)
    print(f"selfcheck: {len(man['checks'])} checks, {bad} broken, schemas {'ok' if r.returncode == 0 else 'INVALID'}")
    return 1 if bad or r.returncode else 0


if __name__ == "__main__":
    sys.exit(main())
