#!/venv/bin/python
"""Print the prompt given to an independent sub-agent asked to seed a property-breaking change
(only the property text and its scratch worktree; nothing from /verif)."""
import json, sys
props = {json.loads(l)["id"]: json.loads(l) for l in open("/verif/properties.jsonl")}
pid = sys.argv[1]
rnd = int(sys.argv[2]) if len(sys.argv) > 2 else 1
p = props[pid]
wt = f"/tmp/seed/{pid}"
out = f"{wt}-out" if rnd == 1 else f"{wt}-out{rnd}"
names = {1: ("A", "B"), 2: ("C", "D"), 3: ("E", "F"), 4: ("G", "H"), 5: ("I", "I")}[rnd]
avoid = ""
if rnd > 1:
    import glob, os
    prev = []
    for d in sorted(glob.glob(f"/verif/seeded/{pid}[a-z]")):
        try:
            m = json.load(open(os.path.join(d, "meta.json")))
            files = ", ".join(m.get("files", []))
            prev.append(f"  - ({files}) {m.get('summary', '')}"[:700])
        except Exception:
            pass
    if prev:
        avoid = ("\nALREADY DONE BY OTHERS (do not repeat these, and do not produce close variants of them - pick different functions, "
                 "different mechanisms, different clauses of the property):\n" + "\n".join(prev) + "\n")
print(f"""You are working in a scratch git worktree of the Twisted repository (Python networking framework) at {wt} (package source under {wt}/src/twisted, tests in the `test/` sub-packages). Work ONLY inside {wt} and {out}. Never touch /repo and never read or write anything under /verif. No network is available.

Run code against this worktree with:  cd {wt} && PYTHONPATH={wt}/src /venv/bin/python your_script.py
Run tests with:  cd {wt} && PYTHONPATH={wt}/src /venv/bin/python -m pytest -q -p no:cacheprovider -n 4 --timeout=600 src/twisted/<path to test module(s)>

PROPERTY {pid}: {p['title']}
Statement: {p['statement']}
Quantified over: {p['quantifier']['text']}
Why the existing tests cannot settle it: {p['why_tests_cant']}
Main source files: {', '.join(p['anchors']['files'])}

{avoid}
TASK. Produce TWO independent changes (call them {names[0]} and {names[1]}) to the Twisted *source* (not to tests), each of which BREAKS this property while:
 1. the edited files still compile and `import twisted` plus the edited modules still import;
 2. the existing test suite still passes — run at least every test module that exercises the files you changed (and anything that imports them heavily) and list exactly what you ran; if a test fails, pick a different change;
 3. the breakage needs something specific to manifest: a particular interleaving or schedule, a failure/crash at a particular point, a multi-step sequence of operations, an unusual input or boundary value, or two cooperating sites that each look fine alone. NOT something ordinary use would expose at once;
 4. it is realistic: the kind of regression a plausible refactor, optimisation, clean-up or well-meant bug-fix could introduce (small diff, natural-looking code, no comments announcing the bug).
Make {names[0]} and {names[1]} attack different clauses / mechanisms of the property (e.g. an ordering clause vs an exactly-once clause vs a boundary vs an error path).

For each change write a standalone demonstration `demo.py` (plain Python using twisted; deterministic; no network, use in-memory transports / task.Clock / proto_helpers where needed) that exits 0 when the property holds and exits non-zero with a clear assertion message when it is broken. It MUST pass on the unmodified worktree and fail with the change applied — verify both yourself.

DELIVERABLES: {out}/{names[0]}/ and {out}/{names[1]}/, each containing
  patch.diff  (output of `git diff` in the worktree with only that change applied; must apply with `git apply` to a clean checkout)
  demo.py
  meta.json   {{"property": "{pid}", "summary": "<what was changed>", "breaks": "<which part of the statement fails and how>", "needs": "<what it needs in order to manifest>", "files": ["src/twisted/..."], "tests": ["src/twisted/.../test_x.py", ...], "ran": ["<commands you ran and their outcome>"]}}
Do NOT use `git stash` (the stash is shared between worktrees; use `git diff > file; git checkout -- .; git apply file` instead). When finished leave the worktree clean (`git checkout -- .`, remove stray files). Final answer: for {names[0]} and {names[1]}, two or three sentences each on what the change is and why tests miss it, plus the test results you observed.""" if rnd < 5 else "")
if rnd == 5:
    # round 5: ONE change per agent, short time budget
    import io, contextlib, subprocess
    txt = subprocess.run([sys.executable, __file__, pid, "4"], capture_output=True, text=True).stdout
    txt = txt.replace(f"{wt}-out4", out)
    txt = txt.replace("Produce TWO independent changes (call them G and H) to the Twisted *source* (not to tests), each of which BREAKS",
                      "Produce ONE change (call it I) to the Twisted *source* (not to tests) which BREAKS")
    txt = txt.replace("Make G and H attack different clauses / mechanisms of the property (e.g. an ordering clause vs an exactly-once clause vs a boundary vs an error path).",
                      "TIME BUDGET: you have about 12 minutes in total. Decide on the change quickly, run only the test modules that directly exercise the file(s) you changed, and write the deliverables as soon as the demo behaves as required.")
    txt = txt.replace("For each change write", "Write")
    txt = txt.replace(f"{out}/G/ and {out}/H/, each containing", f"{out}/I/ containing")
    txt = txt.replace("Final answer: for G and H, two or three sentences each", "Final answer: two or three sentences")
    print(txt)
