#!/venv/bin/python
"""Run twisted's pinned test suite on a scratch worktree of /repo HEAD (never in /repo itself: the suite
litters its working directory) and compare with /root/.vp/BASELINE.json: every test in stable_pass must
still pass.  Developer aid for validating `fix:` commits; not part of any registered check.

  tools/fullsuite.py [-n 8]        exit 0 iff no stable test regressed
"""
import json
import os
import shutil
import subprocess
import sys
import xml.etree.ElementTree as ET

WT = "/tmp/fullrun"


def main():
    n = sys.argv[sys.argv.index("-n") + 1] if "-n" in sys.argv else None
    subprocess.run(f"git -C /repo worktree remove --force {WT}", shell=True, stdout=subprocess.DEVNULL, stderr=subprocess.DEVNULL)
    shutil.rmtree(WT, ignore_errors=True)
    subprocess.run(f"git -C /repo worktree add -q --detach {WT} HEAD", shell=True, check=True)
    xml = "/tmp/fullrun.junit.xml"
    cmd = (f"cd {WT} && PYTHONPATH={WT}/src /venv/bin/python -m pytest -ra -q -p no:cacheprovider --timeout=900 "
           f"--continue-on-collection-errors --junitxml={xml} " + (f"-n {n} " if n else "") + "> /tmp/fullrun.log 2>&1")
    subprocess.run(cmd, shell=True)
    base = json.load(open("/root/.vp/BASELINE.json"))
    stable = set(base["stable_pass"])
    passed = set()
    seen = set()
    for tc in ET.parse(xml).getroot().iter("testcase"):
        tid = f"{tc.get('classname')}::{tc.get('name')}"
        seen.add(tid)
        if not any(c.tag in ("failure", "error", "skipped") for c in tc):
            passed.add(tid)
    lost = sorted(stable - passed)
    print(f"stable tests: {len(stable)}, passed now: {len(stable & passed)}, regressed or missing: {len(lost)}")
    for t in lost[:60]:
        print("  REGRESSED" if t in seen else "  MISSING  ", t)
    print(open("/tmp/fullrun.log").read().strip().splitlines()[-1])
    subprocess.run(f"git -C /repo worktree remove --force {WT}", shell=True)
    return 1 if lost else 0


if __name__ == "__main__":
    sys.exit(main())
