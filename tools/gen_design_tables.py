#!/venv/bin/python
"""Regenerate the machine-maintained tables of DESIGN.md (between BEGIN/END markers):
  FINDINGS  - from known_findings.json (+ known_findings.d/*.json)
  SEEDS     - from seeded/*/meta.json and seeded/detection.json (written by `tools/seeds.py detect --record`)
  CHECKS    - per property: rules / obligations / mutants / silent variants, from evidence/*.json
"""
import glob
import json
import os
import re
import sys

VERIF = os.path.dirname(os.path.dirname(os.path.abspath(__file__)))
sys.path.insert(0, VERIF)
from sa.report import load_known  # noqa: E402


def esc(s):
    return str(s).replace("|", "\\|").replace("\n", " ")


def findings_table():
    rows = ["| id | property | status | rule | construct | failing input / history |", "|---|---|---|---|---|---|"]
    for k in sorted(load_known(), key=lambda k: (k.get("property", ""), k.get("id", ""), k.get("rule", ""))):
        rows.append(f"| {esc(k.get('id', ''))} | {k.get('property')} | {k.get('status', 'known')}"
                    + (f" ({k['commit'][:7]})" if k.get("commit") else "")
                    + f" | `{esc(k.get('rule'))}` | {esc(k.get('construct'))[:160]} | {esc(k.get('fails', ''))[:300]} |")
    return "\n".join(rows)


def seeds_table():
    det = {}
    p = os.path.join(VERIF, "seeded", "detection.json")
    if os.path.isfile(p):
        det = json.load(open(p))
    sweep = {}
    p = os.path.join(VERIF, "seeded", "sweep.json")
    if os.path.isfile(p):
        sweep = json.load(open(p))
    rows = ["| seed | property | what was changed (by an independent sub-agent) | needs, to manifest | reported by (rule &#124; construct) |", "|---|---|---|---|---|"]
    for d in sorted(glob.glob(os.path.join(VERIF, "seeded", "C*"))):
        sid = os.path.basename(d)
        mp = os.path.join(d, "meta.json")
        if not os.path.isfile(mp):
            continue
        m = json.load(open(mp))
        r = sweep.get(sid) or det.get(sid, {})
        rep = r.get("outcome", "not run")
        if "exit" in r:
            rep = {0: "MISSED", 1: "detected", 2: "exit 2"}.get(r["exit"], f"exit {r['exit']}")
        if r.get("rules"):
            rep = "; ".join(r["rules"][:2])
        if r.get("outside_statement"):
            rep = "not claimed - outside the property's statement: " + r["outside_statement"][:170]
        rows.append(f"| {sid} | {m.get('property')} | {esc(m.get('summary', ''))[:260]} | {esc(m.get('needs', ''))[:200]} | {esc(rep)[:260]} |")
    return "\n".join(rows)


def refactors_table():
    det = {}
    p = os.path.join(VERIF, "refactors", "sweep.json")
    if os.path.isfile(p):
        det = json.load(open(p))
    rows = ["| refactor | property | what was restructured (by an independent sub-agent; behaviour-preserving) | outcome of the property's check |", "|---|---|---|---|"]
    for d in sorted(glob.glob(os.path.join(VERIF, "refactors", "C*"))):
        rid = os.path.basename(d)
        mp = os.path.join(d, "meta.json")
        if not os.path.isfile(mp):
            continue
        m = json.load(open(mp))
        r = det.get(rid)
        if r is None:
            out = "not run"
        elif r["exit"] == 0:
            out = "silent"
        elif r["exit"] == 2:
            out = "exit 2 (declared limitation): " + esc("; ".join(r.get("errors", [])))[:200]
        else:
            out = "FALSE ALARM: " + esc("; ".join(r.get("rules", [])[:2]))[:200]
        rows.append(f"| {rid} | {m.get('property')} | {esc(m.get('summary', ''))[:300]} | {out} |")
    return "\n".join(rows)


def kinds_table():
    rows = ["| property | structural (obligations / rules) | finite-exhaustive | bounded | unclassified | technique named in MANIFEST |", "|---|---|---|---|---|---|"]
    man = {c["property_id"]: c for c in json.load(open(os.path.join(VERIF, "MANIFEST.json")))["checks"]}
    for p in sorted(glob.glob(os.path.join(VERIF, "evidence", "C*.json"))):
        ev = json.load(open(p))
        bk = ev["coverage"].get("obligations_by_kind") or {}
        def cell(k):
            v = bk.get(k)
            return f"{v['obligations']} / {v['rules']}" if v else "-"
        rows.append(f"| {ev['property_id']} | {cell('structural')} | {cell('finite-exhaustive')} | {cell('bounded')} | {cell('unclassified')} | "
                    f"{esc(man.get(ev['property_id'], {}).get('technique', ''))[:160]} |")
    return "\n".join(rows)


def checks_table():
    rows = ["| property | rules | obligations | functions | mutants (detected/registered) | silent variants | known findings printed |", "|---|---|---|---|---|---|---|"]
    for p in sorted(glob.glob(os.path.join(VERIF, "evidence", "C*.json"))):
        ev = json.load(open(p))
        c = ev["coverage"]
        st = c.get("selftest") or {}
        mods = importlib_mutants(ev["property_id"])
        rows.append(f"| {ev['property_id']} | {len(c.get('rule_instances', {}))} | {c.get('obligations')} | {len(c.get('functions_analysed', []))} | "
                    f"{mods[0]} | {mods[1]} | {len(c.get('known_findings_reported', []))} |")
    return "\n".join(rows)


def importlib_mutants(pid):
    import importlib
    try:
        m = importlib.import_module(f"sa.props.{pid.lower()}")
        return len(getattr(m, "MUTANTS", [])), len(getattr(m, "SILENT", []))
    except Exception:
        return "?", "?"


def main():
    path = os.path.join(VERIF, "DESIGN.md")
    s = open(path).read()
    for name, fn in (("FINDINGS", findings_table), ("SEEDS", seeds_table), ("CHECKS", checks_table), ("REFACTORS", refactors_table), ("KINDS", kinds_table)):
        b, e = f"<!-- BEGIN:{name} -->", f"<!-- END:{name} -->"
        if b in s and e in s:
            s = s[: s.index(b) + len(b)] + "\n" + fn() + "\n" + s[s.index(e):]
    open(path, "w").write(s)
    print("DESIGN.md tables regenerated")


if __name__ == "__main__":
    main()
