#!/venv/bin/python
"""Seeded-change tooling (developer aid; not part of any registered check).

  tools/seeds.py detect [ID ...]   apply seeded/<ID>/patch.diff to /repo, run the quick check of the
                                   property it breaks (meta.json "property"), report detected / missed,
                                   undo the patch (git -C /repo checkout -- .).  With --all-checks runs every
                                   claimed check (to see false alarms on other properties).
  tools/seeds.py confirm ID WT     in scratch worktree WT (clean checkout of /repo HEAD): demo passes without
                                   the patch, fails with it; edited files compile; listed tests pass with it.
"""
import json, os, subprocess, sys, glob

VERIF = os.path.dirname(os.path.dirname(os.path.abspath(__file__)))
PY = "/venv/bin/python"


def sh(cmd, cwd=None, env=None, timeout=3600):
    e = dict(os.environ)
    e.update(env or {})
    p = subprocess.run(cmd, shell=True, cwd=cwd, env=e, stdout=subprocess.PIPE, stderr=subprocess.STDOUT, text=True, timeout=timeout)
    return p.returncode, "\n".join(l for l in p.stdout.splitlines() if "auto_activate_base" not in l)


def check_with_patch(patch, prop, extra=""):
    """Run the quick check of ``prop`` against a private scratch copy of /repo/src with ``patch`` applied
    (VERIF_REPO_SRC), never touching /repo.  Returns (exit code, output)."""
    import tempfile, shutil
    base = "/dev/shm" if os.path.isdir("/dev/shm") else "/tmp"
    d = tempfile.mkdtemp(prefix="verif-scratch-", dir=base)
    try:
        rc, out = sh(f"mkdir -p {d}/src && cp -r /repo/src/twisted {d}/src/twisted && cd {d} && patch -p1 -s < {patch}")
        if rc != 0:
            return 99, "patch does not apply: " + out
        return sh(f"{PY} sa/check.py --property {prop} --tier quick --no-evidence {extra}", cwd=VERIF,
                  env={"VERIF_REPO_SRC": f"{d}/src/twisted"})
    finally:
        shutil.rmtree(d, ignore_errors=True)


def sweep(kind, ids, jobs=8):
    """kind = 'seeded' (expect exit 1) or 'refactors' (expect exit 0); runs in parallel on scratch copies."""
    from concurrent.futures import ThreadPoolExecutor
    items = []
    declared = {}    # refactors the check declares it cannot read (section-confined exit 2, never a violation)
    outside = {}     # seeds judged to lie outside what the property statement quantifies over: not claimed, expected exit 0 + a note
    for i in ids:
        d = os.path.join(VERIF, kind, i)
        mp = os.path.join(d, "meta.json")
        if os.path.isfile(mp) and os.path.isfile(os.path.join(d, "patch.diff")):
            m = json.load(open(mp))
            items.append((i, d, m["property"]))
            if m.get("outside_statement"):
                outside[i] = m["outside_statement"]
            if m.get("declared_limitation"):
                declared[i] = m["declared_limitation"]
    def one(it):
        i, d, prop = it
        rc, out = check_with_patch(os.path.join(d, "patch.diff"), prop)
        ls = [l.strip() for l in out.splitlines()]
        pairs = [ls[k][5:] + " | " + ls[k + 1][10:] for k in range(len(ls) - 1) if ls[k].startswith("rule=") and ls[k + 1].startswith("construct=")]
        errs = [l for l in ls if l.startswith("ANALYSIS-ERROR")]
        return i, prop, rc, pairs, errs
    good = bad = 0
    rec = {}
    with ThreadPoolExecutor(jobs) as ex:
        for i, prop, rc, pairs, errs in ex.map(one, items):
            rec[i] = {"property": prop, "exit": rc, "rules": pairs[:4], "errors": errs[:1]}
            if kind == "seeded":
                v = {1: "DETECTED", 0: "missed", 2: "analysis-error"}.get(rc, f"exit {rc}")
                ok = rc == 1
                if i in outside:
                    rec[i]["outside_statement"] = outside[i]
                    v = "outside the statement (not claimed), exit %d" % rc
                    ok = rc in (0, 1)
            else:
                v = {0: "silent", 1: "FALSE-ALARM", 2: "analysis-error"}.get(rc, f"exit {rc}")
                ok = rc == 0
                if i in declared:
                    rec[i]["declared_limitation"] = declared[i]
                    if rc == 2:
                        v, ok = "exit 2 (declared limitation)", True
            good += ok; bad += (not ok)
            if not ok or "-v" in sys.argv:
                print(f"{i}: {prop}:{v} " + " ;; ".join(pairs[:2])[:300] + (" " + errs[0][:200] if errs else ""))
    print(f"{kind}: {good} as expected, {bad} not")
    if "--record" in sys.argv:
        # merge into <kind>/sweep.json (outcome of the property's own quick check on a scratch copy with the patch)
        p = os.path.join(VERIF, kind, "sweep.json")
        old = json.load(open(p)) if os.path.isfile(p) else {}
        old.update(rec)
        json.dump(dict(sorted(old.items())), open(p, "w"), indent=1)
    return 0


def cross(kind, ids, jobs=14):
    """For each patch, run the quick check of every OTHER property whose evidence says it parses one of the
    patched files; print every alarm (exit 1/2).  For 'seeded' each cross alarm must be judged (is that other
    property really broken by the change?); for 'refactors' every alarm is a false alarm."""
    import re
    from concurrent.futures import ThreadPoolExecutor
    parsed = {}
    for p in glob.glob(os.path.join(VERIF, "evidence", "C*.json")):
        ev = json.load(open(p))
        parsed[ev["property_id"]] = set(ev["coverage"].get("modules_parsed", []))
    jobs_l = []
    for i in ids:
        d = os.path.join(VERIF, kind, i)
        mp = os.path.join(d, "meta.json")
        pf = os.path.join(d, "patch.diff")
        if not (os.path.isfile(mp) and os.path.isfile(pf)):
            continue
        own = json.load(open(mp))["property"]
        files = {m[len("src/twisted/"):] for m in re.findall(r"^\+\+\+ b/(\S+)", open(pf).read(), re.M) if m.startswith("src/twisted/")}
        for prop, mods in sorted(parsed.items()):
            if prop != own and files & mods:
                jobs_l.append((i, own, prop, pf))
    def one(j):
        i, own, prop, pf = j
        rc, out = check_with_patch(pf, prop)
        ls = [l.strip() for l in out.splitlines()]
        pairs = [ls[k][5:] + " | " + ls[k + 1][10:] for k in range(len(ls) - 1) if ls[k].startswith("rule=") and ls[k + 1].startswith("construct=")]
        errs = [l for l in ls if l.startswith("ANALYSIS-ERROR")]
        return i, own, prop, rc, pairs, errs
    n = a = 0
    rec = {}
    with ThreadPoolExecutor(jobs) as ex:
        for i, own, prop, rc, pairs, errs in ex.map(one, jobs_l):
            n += 1
            if rc != 0:
                a += 1
                rec.setdefault(i, {})[prop] = {"exit": rc, "rules": pairs[:3], "errors": errs[:1]}
                print(f"{i} (breaks {own}) -> {prop} exit {rc}: " + " ;; ".join(pairs[:2])[:300] + (" " + errs[0][:160] if errs else ""))
    print(f"cross {kind}: {n} (patch, other check) pairs run, {a} alarms")
    if "--record" in sys.argv:
        json.dump(dict(sorted(rec.items())), open(os.path.join(VERIF, kind, "cross.json"), "w"), indent=1)
    return 0


def detect(ids, all_checks=False, record=False):
    rc, out = sh("git -C /repo status --porcelain --untracked-files=no")
    if out.strip():
        print("refusing: /repo has local modifications to tracked files"); return 2
    man = json.load(open(os.path.join(VERIF, "MANIFEST.json")))
    claimed = {c["property_id"]: c for c in man["checks"]}
    res = {}
    recp = os.path.join(VERIF, "seeded", "detection.json")
    rec = json.load(open(recp)) if os.path.isfile(recp) else {}
    for sid in ids:
        d = os.path.join(VERIF, "seeded", sid)
        if not os.path.isfile(os.path.join(d, "meta.json")):
            print(f"{sid}: not imported yet"); continue
        meta = json.load(open(os.path.join(d, "meta.json")))
        prop = meta["property"]
        rc, out = sh(f"git -C /repo apply {d}/patch.diff")
        if rc != 0:
            print(f"{sid}: patch does not apply: {out}"); res[sid] = "patch-failed"; continue
        try:
            props = sorted(claimed) if all_checks else [prop]
            line = []
            for p in props:
                if p not in claimed:
                    line.append(f"{p}:unclaimed"); continue
                rc, out = sh(f"{PY} sa/check.py --property {p} --tier quick --no-evidence", cwd=VERIF)
                v = [l for l in out.splitlines() if l.startswith("VIOLATION")]
                if p == prop:
                    res[sid] = "DETECTED" if rc == 1 and v else ("analysis-error" if rc == 2 else "missed")
                    det = [l.strip() for l in out.splitlines() if l.strip().startswith(("rule=", "construct="))][:4]
                    line.append(f"{p}:{res[sid]} {' '.join(det)}")
                    pairs = []
                    ls = [l.strip() for l in out.splitlines()]
                    for i, l in enumerate(ls):
                        if l.startswith("rule=") and i + 1 < len(ls) and ls[i + 1].startswith("construct="):
                            pairs.append(l[5:] + " | " + ls[i + 1][10:])
                    rec[sid] = {"property": p, "outcome": res[sid].lower(), "rules": pairs[:4],
                                "cmd": f"git -C /repo apply seeded/{sid}/patch.diff; {PY} sa/check.py --property {p} --tier quick; git -C /repo checkout -- ."}
                elif rc != 0:
                    line.append(f"{p}:also-exit-{rc}")
            print(f"{sid}: " + " | ".join(line))
        finally:
            sh("git -C /repo checkout -- .")
    if record:
        json.dump(dict(sorted(rec.items())), open(recp, "w"), indent=1)
    n = sum(1 for v in res.values() if v == "DETECTED")
    print(f"detected {n}/{len(res)}")
    return 0


def confirm(sid, wt):
    d = os.path.join(VERIF, "seeded", sid)
    meta = json.load(open(os.path.join(d, "meta.json")))
    env = {"PYTHONPATH": os.path.join(wt, "src")}
    demo = os.path.join(d, meta.get("demo", "demo.py"))
    rc, out = sh("git status --porcelain --untracked-files=no", cwd=wt)
    if out.strip():
        print("worktree not clean"); return 2
    rc0, out0 = sh(f"{PY} {demo}", cwd=wt, env=env, timeout=600)
    print(f"demo without patch: exit {rc0}")
    rc, out = sh(f"git apply {d}/patch.diff", cwd=wt)
    if rc != 0:
        print("patch does not apply", out); return 2
    try:
        rc1, out1 = sh(f"{PY} {demo}", cwd=wt, env=env, timeout=600)
        print(f"demo with patch: exit {rc1}")
        rcf, files = sh("git diff --name-only", cwd=wt)
        for f in files.split():
            rcc, outc = sh(f"{PY} -m py_compile {f}", cwd=wt)
            print(f"compile {f}: {rcc}")
        tests = meta.get("tests", [])
        if tests:
            rct, outt = sh(f"{PY} -m pytest -q -p no:cacheprovider -n 8 --timeout=900 " + " ".join(tests), cwd=wt, env=env, timeout=3000)
            print("tests:", outt.strip().splitlines()[-1] if outt.strip() else rct)
        ok = rc0 == 0 and rc1 != 0
        print("CONFIRMED" if ok else "NOT CONFIRMED")
        if not ok:
            print(out0[-1500:]); print(out1[-1500:])
    finally:
        sh("git checkout -- .", cwd=wt)
    return 0


def import_(pid, rnd=1):
    """copy /tmp/seed/<pid>-out/{A,B,...} to seeded/<pid>a,b..., confirm each in /tmp/seed/<pid>, record the outcome."""
    import shutil, io, contextlib
    wt = f"/tmp/seed/{pid}"
    outd = f"{wt}-out" if rnd == 1 else f"{wt}-out{rnd}"
    for sub in sorted(os.listdir(outd)):
        srcd = os.path.join(outd, sub)
        if not (os.path.isdir(srcd) and os.path.isfile(os.path.join(srcd, "patch.diff"))):
            continue
        sid = f"{pid}{sub.lower()}"
        dst = os.path.join(VERIF, "seeded", sid)
        os.makedirs(dst, exist_ok=True)
        if not os.path.isfile(os.path.join(srcd, "demo.py")):
            print(f"== {sid}: incomplete (no demo.py)"); shutil.rmtree(dst); continue
        for fn in ("patch.diff", "demo.py"):
            shutil.copy(os.path.join(srcd, fn), os.path.join(dst, fn))
        if os.path.isfile(os.path.join(srcd, "meta.json")):
            shutil.copy(os.path.join(srcd, "meta.json"), os.path.join(dst, "meta.json"))
        else:
            # the seeding agent died before writing meta.json: derive the essentials
            files = [l[6:].strip() for l in open(os.path.join(srcd, "patch.diff")) if l.startswith("+++ b/")]
            tests = []
            for f in files:
                d, b = os.path.split(f)
                for cand in (os.path.join(d, "test", "test_" + b), os.path.join("src/twisted/test", "test_" + b),
                             os.path.join(d, "test", "test_" + b.lstrip("_"))):
                    if os.path.isfile(os.path.join(wt, cand)) and cand not in tests:
                        tests.append(cand)
                if b == "defer.py":
                    tests += ["src/twisted/test/test_defgen.py", "src/twisted/internet/test/test_inlinecb.py", "src/twisted/test/test_task.py"]
                if b == "base.py":
                    tests += ["src/twisted/internet/test/test_base.py", "src/twisted/internet/test/test_time.py", "src/twisted/test/test_internet.py", "src/twisted/internet/test/test_core.py"]
            json.dump({"property": pid, "summary": "(seeding agent was interrupted before writing meta.json; see patch.diff and the docstring of demo.py)",
                       "needs": "see demo.py", "files": files, "tests": tests}, open(os.path.join(dst, "meta.json"), "w"), indent=1)
        sh("git checkout -- . && git clean -fdq", cwd=wt)
        buf = io.StringIO()
        with contextlib.redirect_stdout(buf):
            confirm(sid, wt)
        out = buf.getvalue()
        print(f"== {sid}\n{out}")
        meta = json.load(open(os.path.join(dst, "meta.json")))
        meta["confirmed_by_me"] = {"ok": "\nCONFIRMED" in "\n" + out, "log": out.strip().splitlines(),
                                   "how": f"tools/seeds.py confirm {sid} {wt} (scratch worktree of /repo HEAD): demo passes without the patch, fails with it; edited files compile; the listed test modules pass with the patch"}
        json.dump(meta, open(os.path.join(dst, "meta.json"), "w"), indent=1)


def refactors(pids, apply=False):
    """Import /tmp/seed/<pid>-out3/R*/ into /verif/refactors/<pid>rN/ and run the property's quick check with
    each applied: the expected outcome is exit 0 (silent); exit 1 is a FALSE ALARM, exit 2 a declared limitation."""
    import shutil
    rc, out = sh("git -C /repo status --porcelain --untracked-files=no")
    if out.strip():
        print("refusing: /repo has local modifications"); return 2
    for pid in pids:
        for outd in (f"/tmp/seed/{pid}-out3", f"/tmp/seed/{pid}-outR2", f"/tmp/seed/{pid}-outR3", f"/tmp/seed/{pid}-outR4"):
            if not os.path.isdir(outd):
                continue
            for sub in sorted(os.listdir(outd)):
                srcd = os.path.join(outd, sub)
                if sub.upper().startswith("R") and os.path.isfile(os.path.join(srcd, "patch.diff")):
                    dst = os.path.join(VERIF, "refactors", f"{pid}{sub.lower()}")
                    if os.path.isfile(os.path.join(dst, "patch.diff")):
                        continue      # already imported (and possibly re-based since): never overwrite
                    os.makedirs(dst, exist_ok=True)
                    for fn in ("patch.diff", "equiv.py", "meta.json"):
                        if os.path.isfile(os.path.join(srcd, fn)):
                            shutil.copy(os.path.join(srcd, fn), os.path.join(dst, fn))
        if not apply:
            continue
        for d in sorted(glob.glob(os.path.join(VERIF, "refactors", f"{pid}r*"))):
            rid = os.path.basename(d)
            rc, out = sh(f"git -C /repo apply {d}/patch.diff")
            if rc != 0:
                print(f"{rid}: patch does not apply"); continue
            try:
                rc, out = sh(f"{PY} sa/check.py --property {pid} --tier quick --no-evidence", cwd=VERIF)
                verdict = {0: "silent", 1: "FALSE-ALARM", 2: "analysis-error"}.get(rc, f"exit {rc}")
                det = [l.strip()[:200] for l in out.splitlines() if l.strip().startswith(("rule=", "construct=", "ANALYSIS-ERROR"))][:4]
                print(f"{rid}: {verdict} " + " ".join(det))
                mp = os.path.join(d, "meta.json")
                if os.path.isfile(mp):
                    m = json.load(open(mp)); m["check_outcome"] = verdict; m["check_detail"] = det
                    json.dump(m, open(mp, "w"), indent=1)
            finally:
                sh("git -C /repo checkout -- .")
    if not apply:
        ids = sorted(os.path.basename(p) for p in glob.glob(os.path.join(VERIF, "refactors", "*")) if any(os.path.basename(p).startswith(x + "r") for x in pids))
        return sweep("refactors", ids)
    return 0


if __name__ == "__main__":
    a = sys.argv[1:]
    if a and a[0] == "sweep":
        kind = a[1]
        sel = [x for x in a[2:] if not x.startswith("-")]
        allids = sorted(os.path.basename(p) for p in glob.glob(os.path.join(VERIF, kind, "*")) if os.path.isdir(p))
        ids = [i for i in allids if not sel or any(i.startswith(x) for x in sel)]
        sys.exit(cross(kind, ids) if "--cross" in a else sweep(kind, ids))
    if a and a[0] == "refactors":
        sys.exit(refactors([x for x in a[1:] if x.startswith("C")], apply="--apply" in a))
    if a and a[0] == "import":
        rnd = int(a[a.index("--round") + 1]) if "--round" in a else 1
        for pid in [x for x in a[1:] if x.startswith("C")]:
            import_(pid, rnd)
        sys.exit(0)
    if a and a[0] == "detect":
        allc = "--all-checks" in a
        ids = [x for x in a[1:] if not x.startswith("--")] or sorted(os.path.basename(p) for p in glob.glob(os.path.join(VERIF, "seeded", "*")) if os.path.isdir(p))
        sys.exit(detect(ids, allc, "--record" in a))
    if a and a[0] == "confirm":
        sys.exit(confirm(a[1], a[2]))
    print(__doc__)
