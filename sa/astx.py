"""Small AST utilities shared by all rules (stdlib only)."""
from __future__ import annotations

import ast
from typing import Callable, Dict, Iterable, Iterator, List, Optional, Sequence, Tuple

from .source import AnalysisError

FUNC_TYPES = (ast.FunctionDef, ast.AsyncFunctionDef, ast.Lambda)
SCOPE_TYPES = FUNC_TYPES + (ast.ClassDef,)


def src(node: Optional[ast.AST]) -> str:
    """Normalised source text of a node (``ast.unparse``): the stable key of a construct."""
    if node is None:
        return ""
    try:
        s = ast.unparse(node)
    except Exception:  # pragma: no cover
        s = ast.dump(node)
    return " ".join(s.split())


def short(node: Optional[ast.AST], n: int = 110) -> str:
    s = src(node)
    if isinstance(node, (ast.If, ast.While, ast.For, ast.With, ast.Try)):
        s = s.split(":")[0] + ":" if ":" in s else s
    return s if len(s) <= n else s[: n - 3] + "..."


def dotted(node: ast.AST) -> Optional[str]:
    """``self.a.b`` -> "self.a.b"; Name -> id; anything else -> None."""
    parts = []
    while isinstance(node, ast.Attribute):
        parts.append(node.attr)
        node = node.value
    if isinstance(node, ast.Name):
        parts.append(node.id)
        return ".".join(reversed(parts))
    return None


def walk_local(node: ast.AST, into_nested: bool = False) -> Iterator[ast.AST]:
    """Walk ``node`` without entering nested function / lambda / class bodies
    (the nested def node itself is yielded)."""
    stack = [node]
    first = True
    while stack:
        n = stack.pop()
        yield n
        if not first and not into_nested and isinstance(n, SCOPE_TYPES):
            continue
        first = False
        stack.extend(reversed(list(ast.iter_child_nodes(n))))


def body_walk(func: ast.AST, into_nested: bool = False) -> Iterator[ast.AST]:
    """All nodes in the body of a function (excluding decorators/defaults)."""
    if isinstance(func, ast.Lambda):
        yield from walk_local(func.body, into_nested)
        return
    for st in getattr(func, "body", []):
        for n in walk_local_stmt(st, into_nested):
            yield n


def walk_local_stmt(st: ast.AST, into_nested: bool) -> Iterator[ast.AST]:
    stack = [st]
    while stack:
        n = stack.pop()
        yield n
        if isinstance(n, SCOPE_TYPES) and not into_nested:
            # do not enter nested scope
            continue
        stack.extend(reversed(list(ast.iter_child_nodes(n))))


def statements(func: ast.AST, into_nested: bool = False) -> List[ast.stmt]:
    return [n for n in body_walk(func, into_nested) if isinstance(n, ast.stmt)]


def call_name(call: ast.AST) -> Optional[str]:
    if isinstance(call, ast.Call):
        return dotted(call.func)
    return None


def call_attr(call: ast.AST) -> Optional[str]:
    """Last component of the callee (method name / function name)."""
    if isinstance(call, ast.Call):
        f = call.func
        if isinstance(f, ast.Attribute):
            return f.attr
        if isinstance(f, ast.Name):
            return f.id
    return None


def calls_in(node: ast.AST, into_nested: bool = False) -> List[ast.Call]:
    it = body_walk(node, into_nested) if isinstance(node, FUNC_TYPES) else walk_local(node, into_nested)
    return [n for n in it if isinstance(n, ast.Call)]


def find_calls(node: ast.AST, *names: str, into_nested: bool = False) -> List[ast.Call]:
    """Calls whose dotted callee equals one of names, or whose last component equals a
    name given as ".name"."""
    out = []
    for c in calls_in(node, into_nested):
        d = call_name(c)
        a = call_attr(c)
        for nm in names:
            if nm.startswith("."):
                if a == nm[1:]:
                    out.append(c)
                    break
            elif d == nm:
                out.append(c)
                break
    return out


def contains(node: ast.AST, pred: Callable[[ast.AST], bool], into_nested: bool = False) -> bool:
    return any(pred(n) for n in walk_local(node, into_nested))


def stmt_of(mod, node: ast.AST) -> ast.stmt:
    n = node
    while n is not None and not isinstance(n, ast.stmt):
        n = getattr(n, "_parent", None)
    if n is None:
        raise AnalysisError("expression without statement")
    return n


def parents(node: ast.AST) -> Iterator[ast.AST]:
    n = getattr(node, "_parent", None)
    while n is not None:
        yield n
        n = getattr(n, "_parent", None)


def names_read(node: ast.AST) -> set:
    return {n.id for n in ast.walk(node) if isinstance(n, ast.Name) and isinstance(n.ctx, ast.Load)}


def names_in(node: ast.AST) -> set:
    return {n.id for n in ast.walk(node) if isinstance(n, ast.Name)}


def assigned_targets(st: ast.stmt) -> List[ast.expr]:
    """Flat list of assignment targets of a statement (tuples unpacked)."""
    out: List[ast.expr] = []

    def flat(t):
        if isinstance(t, (ast.Tuple, ast.List)):
            for e in t.elts:
                flat(e)
        elif isinstance(t, ast.Starred):
            flat(t.value)
        else:
            out.append(t)

    if isinstance(st, ast.Assign):
        for t in st.targets:
            flat(t)
    elif isinstance(st, (ast.AugAssign, ast.AnnAssign)):
        flat(st.target)
    elif isinstance(st, (ast.For, ast.AsyncFor)):
        flat(st.target)
    elif isinstance(st, (ast.With, ast.AsyncWith)):
        for it in st.items:
            if it.optional_vars is not None:
                flat(it.optional_vars)
    elif isinstance(st, ast.Delete):
        for t in st.targets:
            flat(t)
    return out


# ---- constant evaluation -------------------------------------------------------

_SAFE_FUNCS = {"len": len, "chr": chr, "ord": ord, "bytes": bytes, "range": range, "frozenset": frozenset,
               "set": set, "tuple": tuple, "list": list, "dict": dict, "str": str, "int": int, "min": min,
               "max": max, "sorted": sorted, "bytearray": bytearray}


class NotConst(Exception):
    pass


def const_eval(node: ast.AST, env: Optional[Dict[str, object]] = None):
    """Evaluate a whitelisted pure subset of expressions (literals, arithmetic on
    constants, a few builtins).  Raises NotConst otherwise.  Never runs repository code."""
    env = env or {}
    if isinstance(node, ast.Constant):
        return node.value
    if isinstance(node, ast.Name):
        if node.id in env:
            return env[node.id]
        if node.id in ("True", "False", "None"):
            return {"True": True, "False": False, "None": None}[node.id]
        raise NotConst(node.id)
    if isinstance(node, (ast.Tuple, ast.List, ast.Set)):
        vals = [const_eval(e, env) for e in node.elts]
        return tuple(vals) if isinstance(node, ast.Tuple) else (list(vals) if isinstance(node, ast.List) else set(vals))
    if isinstance(node, ast.Dict):
        return {const_eval(k, env): const_eval(v, env) for k, v in zip(node.keys, node.values)}
    if isinstance(node, ast.UnaryOp) and isinstance(node.op, (ast.USub, ast.UAdd, ast.Not, ast.Invert)):
        v = const_eval(node.operand, env)
        return {ast.USub: lambda x: -x, ast.UAdd: lambda x: +x, ast.Not: lambda x: not x, ast.Invert: lambda x: ~x}[type(node.op)](v)
    if isinstance(node, ast.BinOp):
        a, b = const_eval(node.left, env), const_eval(node.right, env)
        ops = {ast.Add: lambda: a + b, ast.Sub: lambda: a - b, ast.Mult: lambda: a * b, ast.Mod: lambda: a % b,
               ast.Pow: lambda: a ** b if (isinstance(b, int) and abs(b) < 4096) else (_ for _ in ()).throw(NotConst("pow")),
               ast.FloorDiv: lambda: a // b, ast.LShift: lambda: a << b, ast.RShift: lambda: a >> b,
               ast.BitOr: lambda: a | b, ast.BitAnd: lambda: a & b, ast.BitXor: lambda: a ^ b}
        if type(node.op) in ops:
            try:
                return ops[type(node.op)]()
            except NotConst:
                raise
            except Exception as e:
                raise NotConst(str(e))
        raise NotConst("binop")
    if isinstance(node, ast.Call):
        fn = dotted(node.func)
        if fn in _SAFE_FUNCS and not node.keywords:
            args = [const_eval(a, env) for a in node.args]
            try:
                return _SAFE_FUNCS[fn](*args)
            except Exception as e:
                raise NotConst(str(e))
        if fn in ("struct.calcsize", "calcsize") and len(node.args) == 1:
            import struct
            return struct.calcsize(const_eval(node.args[0], env))
        if isinstance(node.func, ast.Attribute) and node.func.attr in ("join", "encode", "decode", "lower", "upper", "split") and not node.keywords:
            recv = const_eval(node.func.value, env)
            args = [const_eval(a, env) for a in node.args]
            if isinstance(recv, (str, bytes)):
                try:
                    return getattr(recv, node.func.attr)(*args)
                except Exception as e:
                    raise NotConst(str(e))
        raise NotConst("call " + str(fn))
    if isinstance(node, ast.JoinedStr):
        out = ""
        for v in node.values:
            if isinstance(v, ast.Constant):
                out += str(v.value)
            elif isinstance(v, ast.FormattedValue) and v.format_spec is None and v.conversion == -1:
                out += str(const_eval(v.value, env))
            else:
                raise NotConst("fstring")
        return out
    if isinstance(node, ast.Subscript):
        v = const_eval(node.value, env)
        if isinstance(node.slice, ast.Slice):
            lo = const_eval(node.slice.lower, env) if node.slice.lower else None
            hi = const_eval(node.slice.upper, env) if node.slice.upper else None
            st = const_eval(node.slice.step, env) if node.slice.step else None
            return v[lo:hi:st]
        try:
            return v[const_eval(node.slice, env)]
        except NotConst:
            raise
        except Exception as e:
            raise NotConst(str(e))
    if isinstance(node, ast.BoolOp):
        if isinstance(node.op, ast.And):
            v = True
            for e in node.values:
                v = const_eval(e, env)
                if not v:
                    return v
            return v
        v = False
        for e in node.values:
            v = const_eval(e, env)
            if v:
                return v
        return v
    if isinstance(node, ast.IfExp):
        return const_eval(node.body, env) if const_eval(node.test, env) else const_eval(node.orelse, env)
    if isinstance(node, ast.Compare) and len(node.ops) > 1:
        left = node.left
        for op, right in zip(node.ops, node.comparators):
            if not const_eval(ast.Compare(left=left, ops=[op], comparators=[right]), env):
                return False
            left = right
        return True
    if isinstance(node, ast.Compare) and len(node.ops) == 1:
        a, b = const_eval(node.left, env), const_eval(node.comparators[0], env)
        t = type(node.ops[0])
        try:
            return {ast.Eq: a == b, ast.NotEq: a != b}.get(t) if t in (ast.Eq, ast.NotEq) else \
                {ast.Lt: lambda: a < b, ast.LtE: lambda: a <= b, ast.Gt: lambda: a > b, ast.GtE: lambda: a >= b,
                 ast.In: lambda: a in b, ast.NotIn: lambda: a not in b, ast.Is: lambda: a is b, ast.IsNot: lambda: a is not b}[t]()
        except Exception as e:
            raise NotConst(str(e))
    raise NotConst(type(node).__name__)


def module_consts(mod, names: Optional[Iterable[str]] = None) -> Dict[str, object]:
    """Evaluate module-level constant assignments in order (best effort)."""
    env: Dict[str, object] = {}
    for st in mod.tree.body:
        tgt = None
        val = None
        if isinstance(st, ast.Assign) and len(st.targets) == 1:
            tgt, val = st.targets[0], st.value
        elif isinstance(st, ast.AnnAssign) and st.value is not None:
            tgt, val = st.target, st.value
        if tgt is None:
            continue
        try:
            v = const_eval(val, env)
        except NotConst:
            continue
        if isinstance(tgt, ast.Name):
            env[tgt.id] = v
        elif isinstance(tgt, (ast.Tuple, ast.List)) and all(isinstance(e, ast.Name) for e in tgt.elts):
            try:
                vs = list(v)
            except TypeError:
                continue
            if len(vs) == len(tgt.elts):
                for e, x in zip(tgt.elts, vs):
                    env[e.id] = x
    return env


# ---- linear comparison normal form (LinCmp) -----------------------------------------

def _lin(node: ast.AST, env: Dict[str, object]) -> Tuple[Dict[str, int], int]:
    """expr -> (terms {text: coef}, const)."""
    try:
        v = const_eval(node, env)
        if isinstance(v, bool):
            raise NotConst("bool")
        if isinstance(v, int):
            return {}, v
    except NotConst:
        pass
    if isinstance(node, ast.BinOp) and isinstance(node.op, (ast.Add, ast.Sub)):
        lt, lc = _lin(node.left, env)
        rt, rc = _lin(node.right, env)
        sign = 1 if isinstance(node.op, ast.Add) else -1
        out = dict(lt)
        for k, v in rt.items():
            out[k] = out.get(k, 0) + sign * v
        return {k: v for k, v in out.items() if v}, lc + sign * rc
    if isinstance(node, ast.UnaryOp) and isinstance(node.op, ast.USub):
        t, c = _lin(node.operand, env)
        return {k: -v for k, v in t.items()}, -c
    if isinstance(node, ast.BinOp) and isinstance(node.op, ast.Mult):
        for a, b in ((node.left, node.right), (node.right, node.left)):
            try:
                k = const_eval(a, env)
            except NotConst:
                continue
            if isinstance(k, int) and not isinstance(k, bool):
                t, c = _lin(b, env)
                return {x: k * v for x, v in t.items()}, k * c
    return {src(node): 1}, 0


def lincmp(test: ast.AST, env: Optional[Dict[str, object]] = None, negate: bool = False):
    """Normalise an integer comparison to ``sum(coef*term) >= c``; returns
    (frozenset(terms.items()), c) or None when the shape is not a single </<=/>/>= compare.
    ``a > b`` == ``a - b >= 1``; ``not (S >= c)`` == ``-S >= 1 - c``."""
    env = env or {}
    while isinstance(test, ast.UnaryOp) and isinstance(test.op, ast.Not):
        negate = not negate
        test = test.operand
    if not (isinstance(test, ast.Compare) and len(test.ops) == 1):
        return None
    op = type(test.ops[0])
    if op not in (ast.Lt, ast.LtE, ast.Gt, ast.GtE):
        return None
    lt, lc = _lin(test.left, env)
    rt, rc = _lin(test.comparators[0], env)
    # L op R  ->  D = L - R
    terms = dict(lt)
    for k, v in rt.items():
        terms[k] = terms.get(k, 0) - v
    c = rc - lc  # D_terms >= / > c
    if op is ast.GtE:
        pass
    elif op is ast.Gt:
        c += 1
    else:
        terms = {k: -v for k, v in terms.items()}
        c = -c
        if op is ast.Lt:
            c += 1
    if negate:
        terms = {k: -v for k, v in terms.items()}
        c = 1 - c
    terms = {k: v for k, v in terms.items() if v}
    return frozenset(terms.items()), c


def lin_expect(terms: Dict[str, int], c: int):
    return frozenset((k, v) for k, v in terms.items() if v), c
