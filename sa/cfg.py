"""Per-function control-flow graph with exception edges, duplicated ``finally`` bodies,
branch tests split at and/or/not, dominators and path queries.  Stdlib only.

Edge labels: None (fallthrough), "T"/"F" (atomic test outcome), "iter"/"done" (for-loop head),
"exc" (implicit exception raised by the statement), "raise" (explicit ``raise``).
"""
from __future__ import annotations

import ast
from collections import deque
from typing import Callable, Dict, Iterable, List, Optional, Sequence, Set, Tuple

from .astx import SCOPE_TYPES, dotted, short, src, walk_local
from .source import AnalysisError

Edge = Tuple[int, Optional[str]]  # (dst, label)
Frontier = List[Tuple[int, Optional[str]]]  # dangling (src, label)


class Node:
    __slots__ = ("id", "kind", "ast", "note")

    def __init__(self, id: int, kind: str, node: Optional[ast.AST], note: str = ""):
        self.id = id
        self.kind = kind  # entry exit raise_exit stmt test for with with_exit handler join
        self.ast = node
        self.note = note

    @property
    def lineno(self) -> int:
        return getattr(self.ast, "lineno", 0)

    def text(self) -> str:
        if self.ast is None:
            return f"<{self.kind}>"
        if self.kind == "handler":
            t = src(self.ast.type) if self.ast.type is not None else ""
            return f"except {t}:"
        if self.kind == "for":
            return f"for {src(self.ast.target)} in {src(self.ast.iter)}:"
        if self.kind == "with":
            return "with " + ", ".join(src(i) for i in self.ast.items) + ":"
        if self.kind == "test":
            return f"test {short(self.ast)}"
        return short(self.ast)

    def __repr__(self):
        return f"<{self.id}:{self.kind}:{self.text()}>"


_RAISING = (ast.Call, ast.Subscript, ast.BinOp, ast.Raise, ast.Assert, ast.Await, ast.Yield, ast.YieldFrom,
            ast.Delete, ast.Import, ast.ImportFrom)


def may_raise(node: ast.AST) -> bool:
    """Can evaluating this statement/expression raise (other than through programmer error on
    plain names / attribute reads)?"""
    if isinstance(node, (ast.FunctionDef, ast.AsyncFunctionDef, ast.ClassDef)):
        return bool(node.decorator_list)
    for n in walk_local(node):
        if isinstance(n, _RAISING):
            return True
        if isinstance(n, ast.Assign) and any(isinstance(t, (ast.Tuple, ast.List)) for t in n.targets):
            return True
        if isinstance(n, ast.AugAssign):
            return True
    return False


def _catch_all(h: ast.ExceptHandler, exception_is_all: bool) -> bool:
    if h.type is None:
        return True
    names = []
    if isinstance(h.type, ast.Tuple):
        names = [dotted(e) for e in h.type.elts]
    else:
        names = [dotted(h.type)]
    for n in names:
        if n in ("BaseException",) or (exception_is_all and n == "Exception"):
            return True
    return False


class _Finally:
    def __init__(self, body, outer_stack):
        self.body = body
        self.outer = outer_stack
        self.copies: Dict[object, Tuple[int, Frontier]] = {}


class CFG:
    def __init__(self, func: ast.AST, swallowing: Optional[Callable[[ast.expr], bool]] = None,
                 exception_is_all: bool = True, name: str = ""):
        self.func = func
        self.name = name or getattr(func, "name", "<lambda>")
        self.nodes: List[Node] = []
        self.succ: Dict[int, List[Edge]] = {}
        self.pred: Dict[int, List[Edge]] = {}
        self._swallowing = swallowing or (lambda e: False)
        self._exc_all = exception_is_all
        self._stack: list = []
        self.entry = self._new("entry", None)
        self.exit = self._new("exit", None)
        self.raise_exit = self._new("raise_exit", None)
        if isinstance(func, ast.Lambda):
            n = self._new("stmt", ast.Return(value=func.body))
            self._edge(self.entry, n, None)
            self._edge(n, self.exit, None)
            if may_raise(func.body):
                self._edge(n, self.raise_exit, "exc")
        else:
            fr = self._block(func.body, [(self.entry, None)])
            self._connect(fr, self.exit)
        self._dom: Optional[Dict[int, Set[int]]] = None
        self._reach_entry: Optional[Set[int]] = None

    # ---- construction --------------------------------------------------------------
    def _new(self, kind, node, note="") -> int:
        n = Node(len(self.nodes), kind, node, note)
        self.nodes.append(n)
        self.succ[n.id] = []
        self.pred[n.id] = []
        return n.id

    def _edge(self, a: int, b: int, label):
        if (b, label) not in self.succ[a]:
            self.succ[a].append((b, label))
            self.pred[b].append((a, label))

    def _connect(self, frontier: Frontier, dst: int):
        for s, l in frontier:
            self._edge(s, dst, l)

    def _finally_copy(self, fin: _Finally, key) -> Tuple[int, Frontier]:
        c = fin.copies.get(key)
        if c is None:
            saved = self._stack
            self._stack = list(fin.outer)
            j = self._new("join", None, f"finally[{key if isinstance(key, str) else key[0]}]")
            fr = self._block(fin.body, [(j, None)])
            self._stack = saved
            c = (j, fr)
            fin.copies[key] = c
        return c

    def _raise_from(self, nid: int, label: str = "exc", stack=None):
        """Add the exceptional out-edges of node ``nid``."""
        stack = self._stack if stack is None else stack
        i = len(stack) - 1
        cur: Frontier = [(nid, label)]
        while i >= 0:
            fr = stack[i]
            if fr[0] == "try":
                for h in fr[1]:
                    self._connect(cur, h)
                if fr[2]:
                    return
            elif fr[0] == "swallow":
                self._connect(cur, fr[1])
                return
            elif fr[0] == "finally":
                fin: _Finally = fr[1]
                first = "exc" not in fin.copies
                j, out = self._finally_copy(fin, "exc")
                self._connect(cur, j)
                if not first:
                    return  # continuation of the copy already wired
                cur = [(s, l if l is not None else None) for s, l in out]
                # continue raising outward from the end of the finally copy
                if not cur:
                    return
                stack = fin.outer
                i = len(stack)
            i -= 1
        self._connect(cur, self.raise_exit)

    def _jump(self, nid_frontier: Frontier, kind: str) -> None:
        """return / break / continue through enclosing finally frames."""
        stack = self._stack
        i = len(stack) - 1
        cur = nid_frontier
        while i >= 0:
            fr = stack[i]
            if fr[0] == "finally":
                fin: _Finally = fr[1]
                # find target identity for caching
                target = None
                if kind != "return":
                    for k in range(i - 1, -1, -1):
                        if stack[k][0] == "loop":
                            target = id(stack[k])
                            break
                key = (kind, target)
                first = key not in fin.copies
                j, out = self._finally_copy(fin, key)
                self._connect(cur, j)
                if not first:
                    return
                cur = out
                stack = fin.outer
                i = len(stack)
            elif fr[0] == "loop" and kind in ("break", "continue"):
                if kind == "break":
                    fr[2].extend(cur)
                else:
                    self._connect(cur, fr[1])
                return
            i -= 1
        if kind == "return":
            self._connect(cur, self.exit)
        else:
            raise AnalysisError(f"{self.name}: {kind} outside loop")

    def _cond(self, expr: ast.expr, frontier: Frontier) -> Tuple[Frontier, Frontier]:
        if isinstance(expr, ast.BoolOp):
            if isinstance(expr.op, ast.And):
                falses: Frontier = []
                cur = frontier
                for v in expr.values:
                    t, f = self._cond(v, cur)
                    falses.extend(f)
                    cur = t
                return cur, falses
            else:
                trues: Frontier = []
                cur = frontier
                for v in expr.values:
                    t, f = self._cond(v, cur)
                    trues.extend(t)
                    cur = f
                return trues, cur
        if isinstance(expr, ast.UnaryOp) and isinstance(expr.op, ast.Not):
            t, f = self._cond(expr.operand, frontier)
            return f, t
        if isinstance(expr, ast.Constant):
            return (frontier, []) if expr.value else ([], frontier)
        n = self._new("test", expr)
        self._connect(frontier, n)
        if may_raise(expr):
            self._raise_from(n)
        return [(n, "T")], [(n, "F")]

    def _block(self, stmts: Sequence[ast.stmt], frontier: Frontier) -> Frontier:
        for st in stmts:
            if not frontier:
                break  # unreachable code
            frontier = self._stmt(st, frontier)
        return frontier

    def _stmt(self, st: ast.stmt, frontier: Frontier) -> Frontier:
        if isinstance(st, ast.If):
            t, f = self._cond(st.test, frontier)
            out = self._block(st.body, t)
            out2 = self._block(st.orelse, f) if st.orelse else f
            return out + out2
        if isinstance(st, ast.While):
            head = self._new("join", st, "while")
            self._connect(frontier, head)
            t, f = self._cond(st.test, [(head, None)])
            frame = ["loop", head, []]
            self._stack.append(frame)
            body_out = self._block(st.body, t)
            self._stack.pop()
            self._connect(body_out, head)
            out = self._block(st.orelse, f) if st.orelse else f
            return out + frame[2]
        if isinstance(st, (ast.For, ast.AsyncFor)):
            head = self._new("for", st)
            self._connect(frontier, head)
            if may_raise(st.iter) or True:
                self._raise_from(head)
            frame = ["loop", head, []]
            self._stack.append(frame)
            body_out = self._block(st.body, [(head, "iter")])
            self._stack.pop()
            self._connect(body_out, head)
            out = self._block(st.orelse, [(head, "done")]) if st.orelse else [(head, "done")]
            return out + frame[2]
        if isinstance(st, (ast.With, ast.AsyncWith)):
            w = self._new("with", st)
            self._connect(frontier, w)
            self._raise_from(w)
            swallow = any(self._swallowing(it.context_expr) for it in st.items)
            if swallow:
                wx = self._new("with_exit", st)
                self._stack.append(("swallow", wx))
                out = self._block(st.body, [(w, None)])
                self._stack.pop()
                self._connect(out, wx)
                return [(wx, None)]
            return self._block(st.body, [(w, None)])
        if isinstance(st, ast.Try) or st.__class__.__name__ == "TryStar":
            fin = None
            if st.finalbody:
                fin = _Finally(st.finalbody, list(self._stack))
                self._stack.append(("finally", fin))
            hnodes = [self._new("handler", h) for h in st.handlers]
            call = any(_catch_all(h, self._exc_all) for h in st.handlers)
            if hnodes:
                self._stack.append(("try", hnodes, call))
            body_out = self._block(st.body, frontier)
            if hnodes:
                self._stack.pop()
            out = self._block(st.orelse, body_out) if st.orelse else body_out
            out = list(out)
            for h, hn in zip(st.handlers, hnodes):
                out.extend(self._block(h.body, [(hn, None)]))
            if fin is not None:
                self._stack.pop()
                if out:
                    j, fout = self._finally_copy(fin, "normal")
                    self._connect(out, j)
                    return list(fout)
                return []
            return out
        if isinstance(st, ast.Match):
            raise AnalysisError(f"{self.name}: match statement not modelled")
        # ---- simple statements
        n = self._new("stmt", st)
        self._connect(frontier, n)
        if isinstance(st, ast.Return):
            if st.value is not None and may_raise(st.value):
                self._raise_from(n)
            self._jump([(n, None)], "return")
            return []
        if isinstance(st, ast.Raise):
            self._raise_from(n, "raise")
            return []
        if isinstance(st, ast.Break):
            self._jump([(n, None)], "break")
            return []
        if isinstance(st, ast.Continue):
            self._jump([(n, None)], "continue")
            return []
        if may_raise(st):
            self._raise_from(n)
        return [(n, None)]

    # ---- basic queries ---------------------------------------------------------
    def node(self, i: int) -> Node:
        return self.nodes[i]

    def ids(self, pred: Callable[[Node], bool]) -> List[int]:
        return [n.id for n in self.nodes if pred(n) and self.reachable(n.id)]

    def ids_of(self, ast_node: ast.AST) -> List[int]:
        """CFG nodes representing this very AST statement/test (several when inside a
        duplicated ``finally``), or — for a sub-expression — the nodes of its statement/test."""
        direct = [n.id for n in self.nodes if n.ast is ast_node and n.kind in ("stmt", "test", "for", "with", "handler") and self.reachable(n.id)]
        if direct:
            return direct
        out = []
        for n in self.nodes:
            if n.ast is None or n.kind in ("join", "with_exit") or not self.reachable(n.id):
                continue
            root = n.ast
            if n.kind == "for":
                roots = [root.iter, root.target]
            elif n.kind == "with":
                roots = [i for it in root.items for i in (it.context_expr, it.optional_vars) if i is not None]
            elif n.kind == "handler":
                roots = [root.type] if root.type is not None else []
            elif isinstance(root, (ast.FunctionDef, ast.AsyncFunctionDef, ast.ClassDef)):
                roots = list(root.decorator_list)
            else:
                roots = [root]
            for r in roots:
                if any(x is ast_node for x in walk_local(r)):
                    out.append(n.id)
                    break
        return out

    def find(self, pred: Callable[[ast.AST], bool], kinds=("stmt", "test", "for", "with")) -> List[int]:
        """Nodes whose own expression(s) contain a sub-node satisfying ``pred`` (nested
        function bodies are not entered)."""
        out = []
        for n in self.nodes:
            if n.kind not in kinds or n.ast is None or not self.reachable(n.id):
                continue
            if n.kind == "for":
                roots = [n.ast.iter, n.ast.target]
            elif n.kind == "with":
                roots = [i for it in n.ast.items for i in (it.context_expr, it.optional_vars) if i is not None]
            elif isinstance(n.ast, (ast.FunctionDef, ast.AsyncFunctionDef, ast.ClassDef)):
                roots = list(n.ast.decorator_list)  # the body belongs to the nested scope
            else:
                roots = [n.ast]
            if any(pred(x) for r in roots for x in walk_local(r)):
                out.append(n.id)
        return out

    def find_src(self, text: str, kinds=("stmt", "test", "for", "with")) -> List[int]:
        """Nodes whose normalised text contains ``text``."""
        return [n.id for n in self.nodes if n.kind in kinds and n.ast is not None and self.reachable(n.id) and text in n.text()]

    def reachable(self, i: int) -> bool:
        if self._reach_entry is None:
            self._reach_entry = self.reach([self.entry])
        return i in self._reach_entry

    def reach(self, srcs: Iterable[int], avoid: Iterable[int] = (), edge_ok: Optional[Callable[[int, int, Optional[str]], bool]] = None,
              include_srcs: bool = True) -> Set[int]:
        avoid = set(avoid)
        seen: Set[int] = set()
        dq = deque()
        for s in srcs:
            if include_srcs:
                if s not in avoid:
                    seen.add(s)
                    dq.append(s)
            else:
                dq.append(s)
        started = set(srcs) if not include_srcs else set()
        while dq:
            a = dq.popleft()
            for b, l in self.succ[a]:
                if b in seen or b in avoid:
                    continue
                if edge_ok is not None and not edge_ok(a, b, l):
                    continue
                seen.add(b)
                dq.append(b)
        return seen

    def path(self, srcs: Iterable[int], dsts: Iterable[int], avoid: Iterable[int] = (),
             edge_ok=None, strict: bool = False) -> Optional[List[int]]:
        """A shortest path from any src to any dst not passing through ``avoid`` (endpoints may
        be in avoid only if strict=False is irrelevant: srcs are never filtered).  With
        strict=True the path must have at least one edge."""
        avoid = set(avoid)
        dsts = set(dsts)
        prev: Dict[int, Optional[int]] = {}
        dq = deque()
        for s in srcs:
            if not strict and s in dsts:
                return [s]
            if s not in prev:
                prev[s] = None
                dq.append(s)
        srcset = set(prev)
        while dq:
            a = dq.popleft()
            for b, l in self.succ[a]:
                if edge_ok is not None and not edge_ok(a, b, l):
                    continue
                if b in dsts:
                    out = [b, a]
                    while prev[out[-1]] is not None:
                        out.append(prev[out[-1]])
                    return list(reversed(out))
                if b in prev or b in avoid:
                    continue
                prev[b] = a
                dq.append(b)
        return None

    def describe(self, path: Optional[List[int]]) -> str:
        if not path:
            return ""
        parts = []
        for a, b in zip(path, path[1:]):
            n = self.nodes[a]
            lab = next((l for d, l in self.succ[a] if d == b), None)
            if n.kind in ("join", "entry", "with_exit"):
                continue
            t = n.text()
            parts.append(f"L{n.lineno}:{t}" + (f" [{lab}]" if lab else ""))
        last = self.nodes[path[-1]]
        parts.append(f"L{last.lineno}:{last.text()}" if last.ast is not None else f"<{last.kind}>")
        return " -> ".join(parts)

    # ---- dominance ---------------------------------------------------------------
    def dominators(self) -> Dict[int, Set[int]]:
        if self._dom is None:
            reach = sorted(self.reach([self.entry]))
            allset = set(reach)
            dom = {n: set(allset) for n in reach}
            dom[self.entry] = {self.entry}
            changed = True
            order = reach
            while changed:
                changed = False
                for n in order:
                    if n == self.entry:
                        continue
                    ps = [p for p, _ in self.pred[n] if p in dom]
                    if not ps:
                        continue
                    new = set.intersection(*(dom[p] for p in ps)) | {n}
                    if new != dom[n]:
                        dom[n] = new
                        changed = True
            self._dom = dom
        return self._dom

    def dominates(self, a: int, b: int) -> bool:
        d = self.dominators()
        return b in d and a in d[b]

    def edge_guards(self, n: int, edge_ok=None) -> List[Tuple[int, str]]:
        """Test edges (test_node, "T"/"F") that every entry→n path takes."""
        out = []
        doms = self.dominators().get(n, set())
        for t in doms:
            if self.nodes[t].kind != "test" or t == n:
                continue
            for lab in ("T", "F"):
                def ok(a, b, l, t=t, lab=lab):
                    if a == t and l == lab:
                        return False
                    return edge_ok is None or edge_ok(a, b, l)
                if n not in self.reach([self.entry], edge_ok=ok):
                    out.append((t, lab))
        return out

    def guards(self, n: int) -> List[Tuple[str, bool]]:
        """[(normalised test text, polarity)] of the atomic tests dominating node n."""
        return [(src(self.nodes[t].ast), lab == "T") for t, lab in self.edge_guards(n)]

    def guarded(self, n: int, pred: Callable[[ast.expr], bool], polarity: Optional[bool]) -> bool:
        for t, lab in self.edge_guards(n):
            if pred(self.nodes[t].ast) and (polarity is None or (lab == "T") == polarity):
                return True
        return False

    # ---- path rules -----------------------------------------------------------------
    def must_pass(self, srcs: Iterable[int], via: Iterable[int], to: Optional[Iterable[int]] = None,
                  exc: bool = False, strict: bool = True) -> Optional[List[int]]:
        """Every path from a src to ``to`` (default: the normal exit, plus the exceptional exit
        when exc=True) passes a ``via`` node.  Returns None when it holds, else a witness path
        that avoids ``via``.  exc=False ignores implicit-exception edges (explicit raises are
        always followed)."""
        via = set(via)
        if to is None:
            to = {self.exit} | ({self.raise_exit} if exc else set())
        ok = None if exc else (lambda a, b, l: l != "exc")
        starts = [s for s in srcs if s not in via]  # a source that is itself a via node is satisfied
        if not starts:
            return None
        return self.path(starts, to, avoid=via, edge_ok=ok, strict=strict)

    def must_precede(self, first: Iterable[int], then: Iterable[int], exc: bool = True) -> Optional[List[int]]:
        """Every entry→``then`` path passes a ``first`` node; witness path otherwise."""
        ok = None if exc else (lambda a, b, l: l != "exc")
        first = set(first)
        then = set(then) - first
        if not then:
            return None
        return self.path([self.entry], then, avoid=first, edge_ok=ok)

    def stats(self) -> Tuple[int, int]:
        return len(self.nodes), sum(len(v) for v in self.succ.values())


NO_EXC = staticmethod(lambda a, b, l: l != "exc")


def no_exc(a, b, l):
    return l != "exc"
