#!/venv/bin/python
"""Command line of the static checker.

  /venv/bin/python sa/check.py --property C06 --tier quick|thorough
  /venv/bin/python sa/check.py --replay evidence/replay/C06-1.json
  /venv/bin/python sa/check.py --all [--tier ...]      (developer convenience)

Exit 0: every obligation discharged (known findings printed as KNOWN-FINDING lines).
Exit 1: "VIOLATION property=<id> replay=<path>" for a construct not in known_findings.json.
Exit 2: ANALYSIS-ERROR (anchor vanished / idiom not recognised / analyser crashed) - never a
        verdict about the property.
"""
from __future__ import annotations

import argparse
import importlib
import json
import os
import sys
import time
import traceback

HERE = os.path.dirname(os.path.abspath(__file__))
sys.path.insert(0, os.path.dirname(HERE))

from sa.report import Ctx, load_known, write_evidence, write_replays  # noqa: E402
from sa.source import AnalysisError, SourceTree  # noqa: E402


def load_module(prop: str):
    return importlib.import_module(f"sa.props.{prop.lower()}")


def run_module(mod, ctx):
    """check(ctx) plus the module's INCLUDE list: [(other property, rule-prefix tuple or None, why)]."""
    mod.check(ctx)
    for other, prefixes, why in getattr(mod, "INCLUDE", []):
        flt = (lambda r, p=tuple(prefixes): r.startswith(p)) if prefixes else None
        ctx.include(other, flt, why)


def run_once(prop: str, tier: str, overlay=None, known=None):
    mod = load_module(prop)
    ctx = Ctx(prop, tier, SourceTree(overlay=overlay), known=known)
    try:
        run_module(mod, ctx)
    except AnalysisError as e:
        if not ctx.unlisted():
            raise
        ctx.errors.append(str(e))
    if not ctx.obligations:
        raise AnalysisError(f"{prop}: the rules generated no obligation at all (vacuous run)")
    if ctx.errors and not ctx.unlisted():
        raise AnalysisError("; ".join(ctx.errors))
    return mod, ctx


def selftest(prop: str, mod, known) -> dict:
    """Mutation self-validation (thorough tier): every registered mutant must be reported, every
    registered behaviour-preserving variant must stay silent.  Mutants are applied through an
    in-memory overlay, /repo is never touched."""
    from sa.selftest import apply_edit
    res = {"mutants": [], "silent": [], "mutants_detected": 0, "mutants_evaluated": 0, "mutants_not_applicable": 0,
           "silent_ok": 0, "silent_evaluated": 0, "problems": []}
    base = SourceTree()
    for m in getattr(mod, "MUTANTS", []):
        entry = {"name": m.name, "file": m.path}
        try:
            overlay = apply_edit(base, m)
        except LookupError as e:
            entry["outcome"] = f"not-applicable: {e}"
            res["mutants_not_applicable"] += 1
            res["mutants"].append(entry)
            continue
        res["mutants_evaluated"] += 1
        try:
            _, c = run_once(prop, "quick", overlay=overlay, known=known)
            hits = c.unlisted()
            if m.expect_rule:
                hits = [h for h in hits if h.rule == m.expect_rule or h.rule.startswith(m.expect_rule)]
            if hits:
                entry["outcome"] = "detected"
                entry["reported"] = [h.rule + " | " + h.construct for h in hits][:3]
                res["mutants_detected"] += 1
            else:
                entry["outcome"] = "MISSED"
                res["problems"].append(f"mutant {m.name} not detected")
        except AnalysisError as e:
            entry["outcome"] = f"MISSED (analysis error instead of a violation: {e})"
            res["problems"].append(f"mutant {m.name}: analysis error {e}")
        res["mutants"].append(entry)
    for v in getattr(mod, "SILENT", []):
        entry = {"name": v.name, "file": v.path}
        try:
            overlay = apply_edit(base, v)
        except LookupError as e:
            entry["outcome"] = f"not-applicable: {e}"
            res["silent"].append(entry)
            continue
        res["silent_evaluated"] += 1
        try:
            _, c = run_once(prop, "quick", overlay=overlay, known=known)
            if c.unlisted():
                entry["outcome"] = "FALSE ALARM: " + "; ".join(h.rule + " | " + h.construct for h in c.unlisted()[:3])
                res["problems"].append(f"silent variant {v.name} raised an alarm")
            else:
                entry["outcome"] = "silent"
                res["silent_ok"] += 1
        except AnalysisError as e:
            if getattr(v, "allow_error", False):
                entry["outcome"] = f"analysis-error (declared limitation): {e}"
                res["silent_ok"] += 1
            else:
                entry["outcome"] = f"ANALYSIS-ERROR: {e}"
                res["problems"].append(f"silent variant {v.name}: analysis error {e}")
        res["silent"].append(entry)
    return res


def main(argv=None) -> int:
    ap = argparse.ArgumentParser()
    ap.add_argument("--property")
    ap.add_argument("--tier", default=os.environ.get("VERIF_TIER", "quick"), choices=["quick", "thorough"])
    ap.add_argument("--replay")
    ap.add_argument("--all", action="store_true")
    ap.add_argument("--no-evidence", action="store_true")
    args = ap.parse_args(argv)
    seed = int(os.environ.get("VERIF_SEED", "0") or 0)

    if args.all:
        rc = 0
        import glob
        for p in sorted(glob.glob(os.path.join(HERE, "props", "c[0-9][0-9].py"))):
            prop = os.path.basename(p)[:-3].upper()
            r = main(["--property", prop, "--tier", args.tier] + (["--no-evidence"] if args.no_evidence else []))
            rc = max(rc, r)
        return rc

    replay = None
    if args.replay:
        with open(args.replay) as f:
            replay = json.load(f)
        args.property = replay["property"]
    if not args.property:
        ap.error("--property or --replay required")
    prop = args.property.upper()
    t0 = time.time()
    known = load_known()
    try:
        mod = load_module(prop)
    except ModuleNotFoundError:
        print(f"ANALYSIS-ERROR property={prop} no checker module")
        return 2
    ctx = Ctx(prop, args.tier, SourceTree(), known=known)
    try:
        try:
            run_module(mod, ctx)
        except AnalysisError as e:
            if not ctx.unlisted():
                raise
            ctx.errors.append(str(e))  # a positive violation was already established: report it
        if not ctx.obligations:
            raise AnalysisError(f"{prop}: the rules generated no obligation at all (vacuous run)")
        if ctx.errors and not ctx.unlisted():
            raise AnalysisError("; ".join(ctx.errors))
    except AnalysisError as e:
        print(f"ANALYSIS-ERROR property={prop} {e}")
        if not args.no_evidence and not replay:
            write_evidence(ctx, mod, time.time() - t0, seed, error=str(e))
        return 2
    except Exception as e:  # analyser crash: never a verdict
        print(f"ANALYSIS-ERROR property={prop} analyser crashed: {type(e).__name__}: {e}")
        traceback.print_exc()
        return 2

    if replay:
        hit = [f for f in ctx.findings if f.rule == replay["rule"] and f.construct == replay["construct"]]
        if hit:
            f = hit[0]
            print(f"VIOLATION property={prop} replay={os.path.abspath(args.replay)}")
            print(f"  rule={f.rule}\n  construct={f.construct}\n  fails={f.fails}\n  witness={f.witness}")
            return 1
        print(f"replay: construct no longer violates rule {replay['rule']}: {replay['construct']}")
        return 0

    st = None
    st_problem = False
    if args.tier == "thorough":
        try:
            st = selftest(prop, mod, known)
        except Exception as e:
            traceback.print_exc()
            st = {"problems": [f"selftest crashed: {type(e).__name__}: {e}"]}
        st_problem = bool(st.get("problems"))

    unlisted = ctx.unlisted()
    paths = write_replays(ctx) if not args.no_evidence else [""] * len(unlisted)
    if not args.no_evidence:
        write_evidence(ctx, mod, time.time() - t0, seed, selftest=st)
    ob = len(ctx.obligations)
    ok = sum(1 for o in ctx.obligations if o["verdict"] == "holds")
    print(f"{prop} [{args.tier}] obligations={ob} discharged={ok} rules={len(ctx.rule_counts)} functions={len(ctx.functions)} "
          f"cfg_nodes={ctx.cfg_nodes} modules={len(ctx.tree.consulted)} wall={time.time() - t0:.2f}s")
    for f in ctx.listed():
        print(f"KNOWN-FINDING: property={prop} rule={f.rule} construct={f.construct} :: {f.known.get('fails', f.fails)}")
    for f, p in zip(unlisted, paths):
        print(f"VIOLATION property={prop} replay={p}")
        print(f"  rule={f.rule}\n  construct={f.construct}\n  fails={f.fails}" + (f"\n  witness={f.witness}" if f.witness else ""))
    for e in ctx.errors:
        print(f"ANALYSIS-NOTE property={prop} part of the analysis could not read the code: {e}")
    if st is not None:
        print(f"{prop} selftest: mutants {st.get('mutants_detected', 0)}/{st.get('mutants_evaluated', 0)} detected "
              f"({st.get('mutants_not_applicable', 0)} not applicable), silent variants {st.get('silent_ok', 0)}/{st.get('silent_evaluated', 0)} silent")
        for pr in st.get("problems", []):
            print(f"SELFTEST-PROBLEM property={prop} {pr}")
    if unlisted:
        return 1
    if st_problem:
        print(f"ANALYSIS-ERROR property={prop} self-validation of the checker failed (see SELFTEST-PROBLEM lines)")
        return 2
    return 0


if __name__ == "__main__":
    sys.exit(main())
