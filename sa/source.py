"""Source model: reads /repo's working tree on every run (never imports twisted).

SourceTree(root, overlay) parses modules on demand with ``ast``; ``overlay`` maps a
repo-relative path ("internet/defer.py") to replacement text and is used only by the
self-test so that mutants never touch /repo.
"""
from __future__ import annotations

import ast
import hashlib
import os
from typing import Dict, Iterator, List, Optional, Tuple, Union

REPO_ROOT = os.environ.get("VERIF_REPO_SRC", "/repo/src/twisted")


class AnalysisError(Exception):
    """The analyser cannot read the construct it was told to analyse (exit 2).

    Never a violation: an anchor vanished, an idiom is not recognised, an instance
    count fell below the floor confirmed by hand.
    """


FuncNode = Union[ast.FunctionDef, ast.AsyncFunctionDef, ast.Lambda]


class Module:
    def __init__(self, rel: str, text: str):
        self.rel = rel
        self.text = text
        self.digest = hashlib.sha1(text.encode("utf-8", "replace")).hexdigest()[:12]
        try:
            self.tree = ast.parse(text, filename=rel)
        except SyntaxError as e:  # a tree that does not compile is not ours to judge
            raise AnalysisError(f"{rel}: does not parse: {e}")
        self.lines = text.splitlines()
        for parent in ast.walk(self.tree):
            for child in ast.iter_child_nodes(parent):
                child._parent = parent  # type: ignore[attr-defined]
        self.tree._parent = None  # type: ignore[attr-defined]

    # ---- lookup ---------------------------------------------------------
    def _children_defs(self, node: ast.AST) -> Iterator[ast.AST]:
        """Definitions directly owned by ``node`` (looking through if/try/with/for blocks)."""
        stack = list(getattr(node, "body", []))
        for extra in ("orelse", "finalbody", "handlers"):
            stack.extend(getattr(node, extra, []) or [])
        while stack:
            n = stack.pop(0)
            if isinstance(n, (ast.FunctionDef, ast.AsyncFunctionDef, ast.ClassDef)):
                yield n
            elif isinstance(n, (ast.If, ast.Try, ast.With, ast.For, ast.While, ast.ExceptHandler)):
                stack.extend(getattr(n, "body", []))
                stack.extend(getattr(n, "orelse", []) or [])
                stack.extend(getattr(n, "finalbody", []) or [])
                stack.extend(getattr(n, "handlers", []) or [])

    def find(self, qual: str, which: int = 0) -> Optional[ast.AST]:
        """``Class.method`` / ``func`` / ``func.inner`` / ``Class.method.inner``.

        When a name is defined more than once in the same scope (``if cond: def f`` /
        ``else: def f``) ``which`` selects the n-th; use find_all to get them all.
        """
        res = self.find_all(qual)
        return res[which] if len(res) > which else None

    def find_all(self, qual: str) -> List[ast.AST]:
        cur: List[ast.AST] = [self.tree]
        for part in qual.split("."):
            nxt: List[ast.AST] = []
            for c in cur:
                for d in self._children_defs(c):
                    if d.name == part:  # type: ignore[attr-defined]
                        nxt.append(d)
            cur = nxt
            if not cur:
                return []
        return cur

    def classes(self) -> List[ast.ClassDef]:
        return [n for n in ast.walk(self.tree) if isinstance(n, ast.ClassDef)]

    def functions(self) -> Iterator[Tuple[str, FuncNode]]:
        def rec(node, prefix):
            for d in self._children_defs(node):
                q = prefix + d.name
                if isinstance(d, (ast.FunctionDef, ast.AsyncFunctionDef)):
                    yield q, d
                yield from rec(d, q + ".")
        yield from rec(self.tree, "")

    def qualname(self, node: ast.AST) -> str:
        parts = []
        n = node
        while n is not None:
            if isinstance(n, (ast.FunctionDef, ast.AsyncFunctionDef, ast.ClassDef)):
                parts.append(n.name)
            elif isinstance(n, ast.Lambda):
                parts.append("<lambda>")
            n = getattr(n, "_parent", None)
        return ".".join(reversed(parts))

    def enclosing_function(self, node: ast.AST) -> Optional[FuncNode]:
        n = getattr(node, "_parent", None)
        while n is not None:
            if isinstance(n, (ast.FunctionDef, ast.AsyncFunctionDef, ast.Lambda)):
                return n
            n = getattr(n, "_parent", None)
        return None

    def segment(self, node: ast.AST) -> str:
        return ast.get_source_segment(self.text, node) or ""

    def module_assign(self, name: str) -> Optional[ast.expr]:
        """Value of the (last) module-level ``name = <expr>`` (looking through if/try)."""
        found = None
        stack = list(self.tree.body)
        while stack:
            n = stack.pop(0)
            if isinstance(n, ast.Assign):
                for t in n.targets:
                    if isinstance(t, ast.Name) and t.id == name:
                        found = n.value
            elif isinstance(n, ast.AnnAssign) and isinstance(n.target, ast.Name) and n.target.id == name and n.value is not None:
                found = n.value
            elif isinstance(n, (ast.If, ast.Try)):
                stack = list(n.body) + list(getattr(n, "orelse", [])) + stack
        return found


class SourceTree:
    def __init__(self, root: str = REPO_ROOT, overlay: Optional[Dict[str, str]] = None):
        self.root = root
        self.overlay = dict(overlay or {})
        self._mods: Dict[str, Module] = {}
        self.consulted: List[str] = []

    def exists(self, rel: str) -> bool:
        return rel in self.overlay or os.path.isfile(os.path.join(self.root, rel))

    def text(self, rel: str) -> str:
        if rel in self.overlay:
            return self.overlay[rel]
        p = os.path.join(self.root, rel)
        try:
            with open(p, encoding="utf-8") as f:
                return f.read()
        except OSError as e:
            raise AnalysisError(f"anchor file vanished: {rel}: {e}")

    def module(self, rel: str) -> Module:
        m = self._mods.get(rel)
        if m is None:
            m = Module(rel, self.text(rel))
            self._mods[rel] = m
            self.consulted.append(rel)
        return m

    def func(self, rel: str, qual: str, which: int = 0) -> FuncNode:
        n = self.module(rel).find(qual, which)
        if not isinstance(n, (ast.FunctionDef, ast.AsyncFunctionDef)):
            raise AnalysisError(f"anchor vanished: function {rel}:{qual}")
        return n

    def funcs(self, rel: str, qual: str) -> List[FuncNode]:
        ns = [n for n in self.module(rel).find_all(qual) if isinstance(n, (ast.FunctionDef, ast.AsyncFunctionDef))]
        if not ns:
            raise AnalysisError(f"anchor vanished: function {rel}:{qual}")
        return ns

    def cls(self, rel: str, qual: str) -> ast.ClassDef:
        n = self.module(rel).find(qual)
        if not isinstance(n, ast.ClassDef):
            raise AnalysisError(f"anchor vanished: class {rel}:{qual}")
        return n

    def has_func(self, rel: str, qual: str) -> bool:
        return isinstance(self.module(rel).find(qual), (ast.FunctionDef, ast.AsyncFunctionDef))

    def all_modules(self, include_tests: bool = False) -> Iterator[str]:
        for dp, dns, fns in os.walk(self.root):
            dns.sort()
            if not include_tests and (os.sep + "test" in dp[len(self.root):] or dp.endswith("/test")):
                continue
            for fn in sorted(fns):
                if fn.endswith(".py"):
                    rel = os.path.relpath(os.path.join(dp, fn), self.root)
                    if not include_tests and ("/test/" in "/" + rel or fn.startswith("test_")):
                        continue
                    yield rel


# ---- class helpers ---------------------------------------------------------

def methods(cls: ast.ClassDef) -> Dict[str, FuncNode]:
    out: Dict[str, FuncNode] = {}
    stack = list(cls.body)
    while stack:
        n = stack.pop(0)
        if isinstance(n, (ast.FunctionDef, ast.AsyncFunctionDef)):
            out.setdefault(n.name, n)
        elif isinstance(n, (ast.If, ast.Try)):
            stack = list(n.body) + list(getattr(n, "orelse", [])) + stack
    return out


def class_assigns(cls: ast.ClassDef) -> Dict[str, ast.expr]:
    """Class-level ``name = expr`` (aliases such as ``fromString = int`` count as definitions)."""
    out: Dict[str, ast.expr] = {}
    for n in cls.body:
        if isinstance(n, ast.Assign):
            for t in n.targets:
                if isinstance(t, ast.Name):
                    out[t.id] = n.value
        elif isinstance(n, ast.AnnAssign) and isinstance(n.target, ast.Name) and n.value is not None:
            out[n.target.id] = n.value
    return out


def base_names(cls: ast.ClassDef) -> List[str]:
    out = []
    for b in cls.bases:
        if isinstance(b, ast.Name):
            out.append(b.id)
        elif isinstance(b, ast.Attribute):
            out.append(b.attr)
        elif isinstance(b, ast.Subscript):  # Generic[...]
            v = b.value
            out.append(v.id if isinstance(v, ast.Name) else getattr(v, "attr", "?"))
    return out


def mro_lookup(mod: Module, cls: ast.ClassDef, name: str, _seen=None) -> Optional[Tuple[ast.ClassDef, ast.AST]]:
    """Resolve ``name`` on ``cls`` following bases defined in the same module, left to right
    (depth-first; adequate for the single-module hierarchies the rules use)."""
    _seen = _seen or set()
    if cls.name in _seen:
        return None
    _seen.add(cls.name)
    ms = methods(cls)
    if name in ms:
        return cls, ms[name]
    ca = class_assigns(cls)
    if name in ca:
        return cls, ca[name]
    for b in base_names(cls):
        bc = mod.find(b)
        if isinstance(bc, ast.ClassDef):
            r = mro_lookup(mod, bc, name, _seen)
            if r:
                return r
    return None
