"""Small abstract domains: byte sets by finite evaluation, regex character classes,
escaper rewrite systems, struct formats.  Nothing here runs repository code: repository
*expressions* are evaluated by sa.astx.const_eval (a whitelisted pure interpreter) over a
finite domain, which is exhaustive for the recognised expression shape."""
from __future__ import annotations

import ast
import re
from typing import Dict, Iterable, List, Optional, Sequence, Set, Tuple

from .astx import NotConst, body_walk, const_eval, dotted, src, statements
from .source import AnalysisError


# ---- byte classes -------------------------------------------------------------------

def eval_over_bytes(test: ast.expr, var: str, env: Optional[Dict[str, object]] = None, as_bytes: bool = False) -> Set[int]:
    """{v in 0..255 : test is truthy with var = v (int) or bytes([v]) when as_bytes}.
    A comparison between a bytes element and a str literal is constantly False, exactly as in
    Python 3 (kind rule K20)."""
    out = set()
    for v in range(256):
        e = dict(env or {})
        e[var] = bytes([v]) if as_bytes else v
        try:
            if const_eval(test, e):
                out.add(v)
        except NotConst as ex:
            raise AnalysisError(f"byte-class test not evaluable: {src(test)} ({ex})")
    return out


def loop_reject_set(func: ast.AST, env: Optional[Dict[str, object]] = None) -> Tuple[str, Set[int], ast.AST]:
    """Recognise ``for c in <x>: if TEST: return False | raise ...`` and return (iterated
    expression text, set of byte values REJECTED by the loop, the test node).  The first such loop
    of the function is used."""
    for st in statements(func):
        if isinstance(st, ast.For) and isinstance(st.target, ast.Name):
            for inner in st.body:
                if isinstance(inner, ast.If) and inner.body and isinstance(inner.body[0], (ast.Return, ast.Raise)):
                    r = inner.body[0]
                    if isinstance(r, ast.Return) and not (isinstance(r.value, ast.Constant) and r.value.value is False):
                        continue
                    as_bytes = "iterbytes" in src(st.iter)
                    return src(st.iter), eval_over_bytes(inner.test, st.target.id, env, as_bytes), inner.test
    raise AnalysisError(f"no 'for c in x: if TEST: reject' loop in {getattr(func, 'name', '?')}")


def regex_class(pattern) -> dict:
    """For a pattern of the shape  [\\A^] CLASS{min,max} [\\Z$]  return
    {"set": accepted code points < 256, "anchored_start", "anchored_end" ("Z" | "$" | ""), "min", "max"}."""
    import re._parser as sp  # type: ignore
    import re._constants as sc  # type: ignore
    flags = 0
    p = sp.parse(pattern, flags)
    items = list(p)
    res = {"set": None, "anchored_start": False, "anchored_end": "", "min": None, "max": None}
    if items and items[0][0] is sc.AT and items[0][1] in (sc.AT_BEGINNING_STRING, sc.AT_BEGINNING):
        res["anchored_start"] = True
        items = items[1:]
    if items and items[-1][0] is sc.AT and items[-1][1] in (sc.AT_END_STRING, sc.AT_END):
        res["anchored_end"] = "Z" if items[-1][1] is sc.AT_END_STRING else "$"
        items = items[:-1]
    if len(items) != 1:
        raise AnalysisError(f"regex shape not recognised: {pattern!r}")
    op, arg = items[0]
    if op in (sc.MAX_REPEAT, sc.MIN_REPEAT):
        lo, hi, sub = arg
        res["min"], res["max"] = lo, (None if hi == sc.MAXREPEAT else hi)
        sub = list(sub)
        if len(sub) != 1:
            raise AnalysisError(f"regex shape not recognised: {pattern!r}")
        op, arg = sub[0]
    else:
        res["min"] = res["max"] = 1
    res["set"] = _class_set(op, arg, sc)
    return res


def _class_set(op, arg, sc) -> Set[int]:
    if op is sc.LITERAL:
        return {arg}
    if op is sc.NOT_LITERAL:
        return set(range(256)) - {arg}
    if op is sc.ANY:
        return set(range(256)) - {10}
    if op is sc.IN:
        neg = False
        out: Set[int] = set()
        for o, a in arg:
            if o is sc.NEGATE:
                neg = True
            elif o is sc.LITERAL:
                out.add(a)
            elif o is sc.RANGE:
                out.update(range(a[0], a[1] + 1))
            elif o is sc.CATEGORY:
                cat = {sc.CATEGORY_DIGIT: set(range(48, 58)),
                       sc.CATEGORY_SPACE: {9, 10, 11, 12, 13, 32},
                       sc.CATEGORY_WORD: set(range(48, 58)) | set(range(65, 91)) | set(range(97, 123)) | {95}}
                if a in cat:
                    out |= cat[a]
                elif a is sc.CATEGORY_NOT_DIGIT:
                    out |= set(range(256)) - cat[sc.CATEGORY_DIGIT]
                elif a is sc.CATEGORY_NOT_SPACE:
                    out |= set(range(256)) - cat[sc.CATEGORY_SPACE]
                elif a is sc.CATEGORY_NOT_WORD:
                    out |= set(range(256)) - cat[sc.CATEGORY_WORD]
                else:
                    raise AnalysisError(f"regex category not modelled: {a}")
            else:
                raise AnalysisError(f"regex class item not modelled: {o}")
        out = {x for x in out if x < 256}
        return (set(range(256)) - out) if neg else out
    raise AnalysisError(f"regex element not modelled: {op}")


# RFC character tables (the oracles; written out, not computed from the code under test)
ALPHA = set(range(65, 91)) | set(range(97, 123))
DIGIT = set(range(48, 58))
HEXDIG = DIGIT | set(b"abcdefABCDEF")
TCHAR = ALPHA | DIGIT | set(b"!#$%&'*+-.^_`|~")     # RFC 9110 5.6.2
VCHAR = set(range(0x21, 0x7F))                      # RFC 5234
CTL = set(range(0, 32)) | {127}


def fmt_set(s: Iterable[int]) -> str:
    s = sorted(s)
    if not s:
        return "{}"
    parts = []
    i = 0
    while i < len(s):
        j = i
        while j + 1 < len(s) and s[j + 1] == s[j] + 1:
            j += 1
        parts.append(f"0x{s[i]:02x}" if i == j else f"0x{s[i]:02x}-0x{s[j]:02x}")
        i = j + 1
    return "{" + ",".join(parts) + "}"


# ---- escapers as ordered rewrite systems ---------------------------------------------

def replace_chain(node: ast.AST, env: Optional[Dict[str, object]] = None) -> List[Tuple[object, object]]:
    """Ordered (old, new) pairs applied to a value inside ``node`` (a function or expression):
    chained ``x.replace(a, b).replace(c, d)``, successive ``x = x.replace(..)`` statements, and
    ``for c in (A, B): x = x.replace(c, E + c)`` loops over constant tuples.  Arguments must be
    constant-evaluable (else AnalysisError)."""
    env = dict(env or {})
    out: List[Tuple[object, object]] = []

    def chain(call: ast.AST, lenv) -> List[Tuple[object, object]]:
        seq = []
        while isinstance(call, ast.Call) and isinstance(call.func, ast.Attribute) and call.func.attr == "replace" and len(call.args) >= 2:
            try:
                seq.append((const_eval(call.args[0], lenv), const_eval(call.args[1], lenv)))
            except NotConst as ex:
                raise AnalysisError(f"replace() with non-constant argument: {src(call)} ({ex})")
            call = call.func.value
        return list(reversed(seq))

    def visit_stmt(st, lenv):
        if isinstance(st, (ast.For,)) and isinstance(st.target, ast.Name):
            try:
                vals = const_eval(st.iter, lenv)
            except NotConst:
                vals = None
            if vals is not None:
                for v in vals:
                    l2 = dict(lenv)
                    l2[st.target.id] = v
                    for s in st.body:
                        visit_stmt(s, l2)
                return
        if isinstance(st, ast.Assign) and len(st.targets) == 1:
            tgt = st.targets[0]
            # constant bindings such as  backslash, colon = "\\:"
            try:
                v = const_eval(st.value, lenv)
                if isinstance(tgt, ast.Name):
                    lenv[tgt.id] = v
                elif isinstance(tgt, (ast.Tuple, ast.List)) and all(isinstance(e, ast.Name) for e in tgt.elts) and len(list(v)) == len(tgt.elts):
                    for e, x in zip(tgt.elts, v):
                        lenv[e.id] = x
                return
            except (NotConst, TypeError):
                pass
        for n in ast.walk(st) if not isinstance(st, (ast.For, ast.While, ast.If, ast.With, ast.Try)) else []:
            if isinstance(n, ast.Call) and isinstance(n.func, ast.Attribute) and n.func.attr == "replace":
                # only outermost calls of a chain
                parent_is_replace = False
                for m in ast.walk(st):
                    if isinstance(m, ast.Call) and isinstance(m.func, ast.Attribute) and m.func.attr == "replace" and m.func.value is n:
                        parent_is_replace = True
                if not parent_is_replace:
                    out.extend(chain(n, lenv))
        for field in ("body", "orelse", "finalbody"):
            if isinstance(st, (ast.For, ast.While, ast.If, ast.With, ast.Try)):
                for s in getattr(st, field, []) or []:
                    visit_stmt(s, lenv)

    if isinstance(node, (ast.FunctionDef, ast.AsyncFunctionDef)):
        for st in node.body:
            visit_stmt(st, env)
    elif isinstance(node, ast.stmt):
        visit_stmt(node, env)
    else:
        for n in ast.walk(node):
            if isinstance(n, ast.Call) and isinstance(n.func, ast.Attribute) and n.func.attr == "replace":
                out.extend(chain(n, env))
                break
    return out


def escaper_problems(pairs: Sequence[Tuple[object, object]], escape_unit=None) -> List[str]:
    """Generic well-formedness of an ordered rewrite system used as an escaper."""
    probs = []
    olds = [o for o, _ in pairs]
    if escape_unit is not None:
        if escape_unit not in olds:
            probs.append(f"escape unit {escape_unit!r} itself is not rewritten")
        elif olds.index(escape_unit) != 0:
            probs.append(f"escape unit {escape_unit!r} is not rewritten first (earlier outputs containing it get double-escaped)")
    for i, (o, n) in enumerate(pairs):
        for j in range(i + 1, len(pairs)):
            if pairs[j][0] in n:  # later target occurs in an earlier output
                probs.append(f"output {n!r} of step {i} contains the later target {pairs[j][0]!r} (double escaping)")
    return probs


# ---- struct formats ---------------------------------------------------------------------

def struct_formats(node: ast.AST, funcs=("pack", "unpack", "unpack_from", "pack_into", "calcsize"), env=None) -> List[Tuple[str, str, ast.Call]]:
    """[(function, format string, call node)] for struct.pack/unpack calls with a constant format."""
    out = []
    it = body_walk(node, True) if isinstance(node, (ast.FunctionDef, ast.AsyncFunctionDef)) else ast.walk(node)
    for n in it:
        if isinstance(n, ast.Call):
            d = dotted(n.func) or ""
            last = d.split(".")[-1]
            if last in funcs and (d.startswith("struct.") or d == last) and n.args:
                try:
                    fmt = const_eval(n.args[0], env or {})
                except NotConst:
                    continue
                if isinstance(fmt, (str, bytes)):
                    out.append((last, fmt if isinstance(fmt, str) else fmt.decode(), n))
    return out
