#!/venv/bin/python
"""Regenerate /verif/MANIFEST.json from the property modules present under sa/props/.

A property is claimed iff sa/props/cNN.py exists and does not set CLAIMED = False.
Everything else is listed under not_applicable with the reason from NOT_APPLICABLE below
(or the module's own NOT_APPLICABLE_REASON)."""
from __future__ import annotations

import importlib
import json
import os
import sys

HERE = os.path.dirname(os.path.abspath(__file__))
VERIF = os.path.dirname(HERE)
sys.path.insert(0, VERIF)

NOT_APPLICABLE = {
    "C18": "HTTP/1.1 segmentation invariance is an equality of two whole run-time traces (requests delivered, bytes "
           "written) for every split of every stream; the only candidate structural rule ('no branch depends on the "
           "current chunk') also fires on correct streaming decoders, so no sound static clause remains beyond those "
           "already decided under C16/C19/C21 (DESIGN.md section 7).",
}
PENDING = "static checker for this property is not built yet in this revision (see DESIGN.md section 5 for the plan); not claimed"

BASELINE = "cd /repo && /venv/bin/python -m pytest -ra -q -p no:cacheprovider --timeout=900 --continue-on-collection-errors"


def main():
    props = [json.loads(l) for l in open(os.path.join(VERIF, "properties.jsonl"))]
    checks = []
    na = []
    served = []
    for p in props:
        pid = p["id"]
        path = os.path.join(HERE, "props", pid.lower() + ".py")
        mod = None
        ready_file = os.path.join(HERE, "ready.txt")
        ready = set(open(ready_file).read().split()) if os.path.isfile(ready_file) else None
        if os.path.isfile(path) and (ready is None or pid in ready):
            mod = importlib.import_module(f"sa.props.{pid.lower()}")
        if mod is None or getattr(mod, "CLAIMED", True) is False:
            reason = getattr(mod, "NOT_APPLICABLE_REASON", None) if mod else None
            na.append({"property_id": pid, "reason": reason or NOT_APPLICABLE.get(pid, PENDING)})
            continue
        served.append(pid)
        kinds = ""
        evp = os.path.join(VERIF, "evidence", f"{pid}.json")
        if os.path.isfile(evp):
            try:
                bk = json.load(open(evp))["coverage"].get("obligations_by_kind") or {}
                kinds = " Obligations by kind of deciding rule at the last run (kinds defined in DESIGN.md 10.3): " + ", ".join(
                    f"{k} {v['obligations']} ({v['rules']} rules)" for k, v in bk.items()) + "."
            except Exception:
                kinds = ""
        checks.append({
            "property_id": pid,
            "quick_cmd": f"/venv/bin/python sa/check.py --property {pid} --tier quick",
            "thorough_cmd": f"/venv/bin/python sa/check.py --property {pid} --tier thorough",
            "evidence_file": f"evidence/{pid}.json",
            "replay_cmd_template": "/venv/bin/python sa/check.py --replay {path}",
            "engine": "sa",
            "level_claimed": {
                "category": "other",
                "text": "Static analysis of /repo's current source (the repository is never imported or executed by CPython; no "
                        "solver). " + getattr(mod, "EXPLANATION", ""),
                "design_ref": f"DESIGN.md section 5, {pid}",
            },
            "level_note": (getattr(mod, "TRUSTED", "") + kinds) if getattr(mod, "TRUSTED", "") else (
                "Trusted base: CPython's ast parser; the sa/ engine (CFG with exception edges, dominators, effects "
                "extraction); the frozen rule-instance tables in sa/props/" + pid.lower() + ".py confirmed by reading; "
                "opaque call-outs are assumed to be the only re-entry points. Decides the named structural clauses, not the "
                "whole behavioural statement.") + kinds,
            "technique": getattr(mod, "TECHNIQUE", "static analysis: AST/CFG rules (dominance, must-pass-through, who-may-write, table agreement)"),
        })
    man = {
        "version": 1,
        "setup_cmd": "true",
        "hooks": {
            "guard": "TWISTED_VERIF",
            "enable": "no hooks: the checks read /repo/src/twisted with ast and never import or run it",
            "baseline_off_cmd": BASELINE,
            "source_commits": [],
            "add_only": True,
        },
        "engines": [{
            "name": "sa",
            "path": "sa/",
            "serves_properties": served,
            "kind_free_text": "repository-specific static analyser: stdlib ast, own CFG with exception edges and duplicated "
                              "finally bodies, dominators / must-pass-through queries, attribute-effects extraction, small "
                              "abstract domains (byte sets, escaper rewrite systems, linear comparison normal forms, finite "
                              "truth tables), whitelisted AST evaluators/interpreters of the checker for finite-exhaustive and "
                              "bounded evaluation of repository functions (every rule declares its kind: structural / "
                              "finite-exhaustive / bounded; the evidence counts obligations per kind); mutation self-validation "
                              "through an in-memory overlay in the thorough tier",
        }],
        "checks": checks,
        "not_applicable": na,
        "notes": "All checks are static (family: static analysis). Exit 0/1/2 = holds / VIOLATION / ANALYSIS-ERROR. Known "
                 "genuine defects are in known_findings.json and known_findings.d/<property>.json (committed; never written at run "
                 "time; 'fixed' entries suppress nothing); repairs of twisted are the 43 'fix:' commits in /repo on top of e2d0e7a. "
                 "Independently seeded breaking changes are under seeded/, behaviour-preserving refactorings under refactors/ "
                 "(tools/seeds.py sweep seeded|refactors re-checks them on private scratch copies of /repo/src).",
    }
    with open(os.path.join(VERIF, "MANIFEST.json"), "w") as f:
        json.dump(man, f, indent=1)
        f.write("\n")
    print(f"claimed={len(checks)} not_applicable={len(na)}")


if __name__ == "__main__":
    main()
