"""Effects extraction: who mutates attribute X and with which kind of operation.

An *access* is (function qualname, kind, ast node, detail).  Kinds:
  assign, augassign(+=/-=...), delete, rebind-empty (= [] / {} / deque() / set()),
  append, appendleft, extend, insert0, insert, pop_last (pop()), pop_first (pop(0) / popleft()),
  pop_key (pop(k) with a non-zero argument), remove, clear, sort, reverse, add, discard, update,
  setitem, delitem, del-prefix (del x[:n]), del-slice, heappush, heappop, heapify, read, call:<name>
Local aliases (``q = self.attr`` / ``for q in self.a, self.b``) are followed inside a function.
"""
from __future__ import annotations

import ast
from typing import Dict, Iterable, List, NamedTuple, Optional, Set, Tuple

from .astx import FUNC_TYPES, SCOPE_TYPES, body_walk, dotted, src, walk_local

MUTATING_METHODS = {
    "append": "append", "appendleft": "appendleft", "extend": "extend", "extendleft": "extendleft",
    "remove": "remove", "clear": "clear", "sort": "sort", "reverse": "reverse", "add": "add",
    "discard": "discard", "update": "update", "popleft": "pop_first", "popitem": "popitem",
    "setdefault": "setdefault",
}
HEAP_FUNCS = {"heappush": "heappush", "heappop": "heappop", "heapify": "heapify", "heappushpop": "heappushpop",
              "heapreplace": "heapreplace"}


class Access(NamedTuple):
    func: str          # qualified name of the function containing the access
    attr: str          # attribute name (without receiver)
    kind: str
    node: ast.AST      # the statement or call
    via_alias: bool
    recv: str          # receiver text ("self", "current", "chainee" ...)

    def text(self) -> str:
        return src(self.node)


def _is_empty_container(v: ast.AST) -> bool:
    if isinstance(v, (ast.List, ast.Tuple, ast.Set)) and not v.elts:
        return True
    if isinstance(v, ast.Dict) and not v.keys:
        return True
    if isinstance(v, ast.Call) and dotted(v.func) in ("list", "dict", "set", "deque", "collections.deque") and not v.args:
        return True
    return False


def _pop_kind(call: ast.Call) -> str:
    if not call.args:
        return "pop_last"
    a = call.args[0]
    if isinstance(a, ast.Constant) and a.value == 0:
        return "pop_first"
    if isinstance(a, ast.UnaryOp) and isinstance(a.op, ast.USub) and isinstance(a.operand, ast.Constant) and a.operand.value == 1:
        return "pop_last"
    return "pop_key"


def accesses(func: ast.AST, qual: str, attrs: Optional[Set[str]] = None, receivers: Optional[Set[str]] = None,
             include_reads: bool = False, into_nested: bool = False) -> List[Access]:
    """All mutations (and optionally reads) of ``<recv>.<attr>`` inside one function.

    ``receivers``: receiver names to track (default: any Name).  Aliases ``x = recv.attr`` are
    followed for container mutations."""
    out: List[Access] = []
    alias: Dict[str, Tuple[str, str]] = {}  # local name -> (recv, attr)

    def tracked(node: ast.AST) -> Optional[Tuple[str, str, bool]]:
        """node denotes recv.attr (or an alias of it) -> (recv, attr, via_alias)"""
        if isinstance(node, ast.Attribute) and isinstance(node.value, ast.Name):
            r, a = node.value.id, node.attr
            if (receivers is None or r in receivers) and (attrs is None or a in attrs):
                return r, a, False
        if isinstance(node, ast.Name) and node.id in alias:
            r, a = alias[node.id]
            return r, a, True
        return None

    nodes = list(body_walk(func, into_nested))
    # pass 1: aliases
    for n in nodes:
        if isinstance(n, ast.Assign) and len(n.targets) == 1 and isinstance(n.targets[0], ast.Name):
            t = tracked(n.value)
            if t and not t[2]:
                alias[n.targets[0].id] = (t[0], t[1])
        elif isinstance(n, (ast.For, ast.AsyncFor)) and isinstance(n.target, ast.Name) and isinstance(n.iter, (ast.Tuple, ast.List)):
            ts = [tracked(e) for e in n.iter.elts]
            if ts and all(t and not t[2] for t in ts):
                # loop variable aliases several attributes: record each
                alias[n.target.id] = (ts[0][0], "|".join(t[1] for t in ts))
    for n in nodes:
        if isinstance(n, ast.Assign):
            for tgt in n.targets:
                flat = tgt.elts if isinstance(tgt, (ast.Tuple, ast.List)) else [tgt]
                pairwise = (isinstance(tgt, (ast.Tuple, ast.List)) and isinstance(n.value, (ast.Tuple, ast.List))
                            and len(tgt.elts) == len(n.value.elts))
                for idx, t in enumerate(flat):
                    tr = tracked(t) if isinstance(t, ast.Attribute) else None
                    if tr:
                        val = n.value.elts[idx] if pairwise else (None if isinstance(tgt, (ast.Tuple, ast.List)) else n.value)
                        kind = "rebind-empty" if (val is not None and _is_empty_container(val)) else "assign"
                        out.append(Access(qual, tr[1], kind, n, tr[2], tr[0]))
                    elif isinstance(t, ast.Subscript):
                        tr = tracked(t.value)
                        if tr:
                            out.append(Access(qual, tr[1], "setitem", n, tr[2], tr[0]))
        elif isinstance(n, ast.AnnAssign) and n.value is not None:
            tr = tracked(n.target) if isinstance(n.target, ast.Attribute) else None
            if tr:
                out.append(Access(qual, tr[1], "rebind-empty" if _is_empty_container(n.value) else "assign", n, tr[2], tr[0]))
        elif isinstance(n, ast.AugAssign):
            tr = tracked(n.target) if isinstance(n.target, ast.Attribute) else None
            if tr:
                out.append(Access(qual, tr[1], "augassign", n, tr[2], tr[0]))
            elif isinstance(n.target, ast.Subscript):
                tr = tracked(n.target.value)
                if tr:
                    out.append(Access(qual, tr[1], "setitem", n, tr[2], tr[0]))
        elif isinstance(n, ast.Delete):
            for t in n.targets:
                tr = tracked(t) if isinstance(t, ast.Attribute) else None
                if tr:
                    out.append(Access(qual, tr[1], "delete", n, tr[2], tr[0]))
                elif isinstance(t, ast.Subscript):
                    tr = tracked(t.value)
                    if tr:
                        k = "delitem"
                        if isinstance(t.slice, ast.Slice):
                            k = "del-prefix" if t.slice.lower is None and t.slice.step is None else "del-slice"
                            if t.slice.lower is None and t.slice.upper is None:
                                k = "clear"
                        out.append(Access(qual, tr[1], k, n, tr[2], tr[0]))
        elif isinstance(n, ast.Call):
            f = n.func
            if isinstance(f, ast.Attribute):
                tr = tracked(f.value)
                if tr:
                    m = f.attr
                    if m == "pop":
                        out.append(Access(qual, tr[1], _pop_kind(n), n, tr[2], tr[0]))
                    elif m == "insert":
                        a0 = n.args[0] if n.args else None
                        k = "insert0" if isinstance(a0, ast.Constant) and a0.value == 0 else "insert"
                        out.append(Access(qual, tr[1], k, n, tr[2], tr[0]))
                    elif m in MUTATING_METHODS:
                        out.append(Access(qual, tr[1], MUTATING_METHODS[m], n, tr[2], tr[0]))
                    elif include_reads:
                        out.append(Access(qual, tr[1], "call:" + m, n, tr[2], tr[0]))
            fn = dotted(f) or ""
            last = fn.split(".")[-1]
            if last in HEAP_FUNCS and n.args:
                tr = tracked(n.args[0])
                if tr:
                    out.append(Access(qual, tr[1], HEAP_FUNCS[last], n, tr[2], tr[0]))
        elif include_reads and isinstance(n, ast.Attribute) and isinstance(n.ctx, ast.Load):
            tr = tracked(n)
            if tr:
                out.append(Access(qual, tr[1], "read", n, tr[2], tr[0]))
    return out


def class_accesses(mod, cls: ast.ClassDef, attrs: Set[str], receivers: Optional[Set[str]] = None,
                   include_reads: bool = False) -> List[Access]:
    """Accesses in every method of the class, nested functions included (each under its own
    qualified name)."""
    out: List[Access] = []

    def rec(node, prefix):
        for ch in ast.iter_child_nodes(node):
            if isinstance(ch, (ast.FunctionDef, ast.AsyncFunctionDef)):
                q = prefix + ch.name
                out.extend(accesses(ch, q, attrs, receivers, include_reads))
                rec(ch, q + ".")
            elif isinstance(ch, ast.Lambda):
                q = prefix + "<lambda>"
                out.extend(accesses(ch, q, attrs, receivers, include_reads))
                rec(ch, q + ".")
            elif isinstance(ch, ast.ClassDef):
                continue
            else:
                rec(ch, prefix)

    rec(cls, cls.name + ".")
    return out


def module_accesses(mod, attrs: Set[str], receivers: Optional[Set[str]] = None, include_reads: bool = False) -> List[Access]:
    out: List[Access] = []
    for q, f in mod.functions():
        out.extend(accesses(f, q, attrs, receivers, include_reads))
    return out
