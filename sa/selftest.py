"""Mutants and silent variants for the checker's self-validation (thorough tier).

An edit is located by exact text inside one file of /repo's *current* tree and applied through
an in-memory overlay.  If the text is not present exactly once (the tree was changed), the edit
is reported as not applicable - it never fails a run.
"""
from __future__ import annotations

from typing import Dict, List, Optional, Sequence, Tuple


class Edit:
    def __init__(self, name: str, path: str, old: str, new: str, expect_rule: Optional[str] = None,
                 allow_error: bool = False, more: Sequence[Tuple[str, str, str]] = ()):
        """``more``: further (path, old, new) replacements applied together with the first."""
        self.name = name
        self.path = path
        self.old = old
        self.new = new
        self.expect_rule = expect_rule
        self.allow_error = allow_error
        self.more = list(more)


class Mutant(Edit):
    """A property-breaking change the check must report (exit 1)."""


class Silent(Edit):
    """A behaviour-preserving refactor on which the check must stay silent (exit 0)."""


def apply_edit(tree, e: Edit) -> Dict[str, str]:
    overlay: Dict[str, str] = {}
    for path, old, new in [(e.path, e.old, e.new)] + e.more:
        text = overlay.get(path) or tree.text(path)
        n = text.count(old)
        if n != 1:
            raise LookupError(f"{e.name}: target text occurs {n} times in {path}")
        new_text = text.replace(old, new)
        try:
            compile(new_text, path, "exec")
        except SyntaxError as ex:
            raise LookupError(f"{e.name}: edited {path} does not compile: {ex}")
        overlay[path] = new_text
    return overlay
