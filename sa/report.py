"""Obligation bookkeeping, known-findings matching, evidence writer."""
from __future__ import annotations

import ast
import glob
import json
import os
import time
from typing import Dict, List, Optional

from .astx import short, src
from .cfg import CFG
from .source import AnalysisError, SourceTree

VERIF = os.path.dirname(os.path.dirname(os.path.abspath(__file__)))
EVIDENCE_DIR = os.path.join(VERIF, "evidence")
REPLAY_DIR = os.path.join(EVIDENCE_DIR, "replay")
KNOWN_FILE = os.path.join(VERIF, "known_findings.json")


class Finding:
    def __init__(self, prop, rule, construct, fails, witness=""):
        self.prop = prop
        self.rule = rule
        self.construct = construct
        self.fails = fails
        self.witness = witness
        self.known: Optional[dict] = None

    @property
    def key(self) -> str:
        return f"{self.prop} | {self.rule} | {self.construct}"

    def as_dict(self) -> dict:
        return {"property": self.prop, "rule": self.rule, "construct": self.construct, "fails": self.fails,
                "witness": self.witness}


def load_known() -> List[dict]:
    out: List[dict] = []
    if os.path.isfile(KNOWN_FILE):
        with open(KNOWN_FILE) as f:
            data = json.load(f)
        out.extend(data.get("findings", data) if isinstance(data, dict) else data)
    for p in sorted(glob.glob(os.path.join(VERIF, "known_findings.d", "*.json"))):
        with open(p) as f:
            data = json.load(f)
        out.extend(data.get("findings", data) if isinstance(data, dict) else data)
    return out


class Ctx:
    """Handed to each property's ``check(ctx)``."""

    def __init__(self, prop: str, tier: str = "quick", tree: Optional[SourceTree] = None, known: Optional[List[dict]] = None):
        self.prop = prop
        self.tier = tier
        self.tree = tree or SourceTree()
        self.known = [k for k in (known if known is not None else load_known()) if k.get("property") == prop]
        self.obligations: List[dict] = []
        self.findings: List[Finding] = []
        self.notes: List[str] = []
        self.rule_counts: Dict[str, int] = {}
        self.functions: set = set()
        self._cfgs: Dict[int, CFG] = {}
        self.cfg_nodes = 0
        self.cfg_edges = 0
        self.extra: Dict[str, object] = {}
        self.errors: List[str] = []   # analysis errors swallowed by ctx.section()

    # ---- anchors ---------------------------------------------------------------------
    def mod(self, rel):
        return self.tree.module(rel)

    def func(self, rel: str, qual: str, which: int = 0):
        f = self.tree.func(rel, qual, which)
        self.functions.add(f"{rel}:{qual}")
        return f

    def cls(self, rel: str, qual: str):
        return self.tree.cls(rel, qual)

    def cfg(self, func: ast.AST, swallowing=None, exception_is_all: bool = True) -> CFG:
        key = (id(func), id(swallowing), exception_is_all)
        g = self._cfgs.get(key)
        if g is None:
            g = CFG(func, swallowing=swallowing, exception_is_all=exception_is_all)
            self._cfgs[key] = g
            n, e = g.stats()
            self.cfg_nodes += n
            self.cfg_edges += e
        return g

    def section(self, name: str):
        """``with ctx.section("put"):`` - an AnalysisError raised inside is recorded and execution
        continues after the block, so an unreadable shape in one function never masks the verdicts
        of the other rule groups.  Recorded errors make the run exit 2 only if no violation was found."""
        ctx = self

        class _Section:
            def __enter__(self_inner):
                return self_inner

            def __exit__(self_inner, et, ev, tb):
                if et is not None and issubclass(et, AnalysisError):
                    ctx.errors.append(f"[{name}] {ev}")
                    return True
                return False

        return _Section()

    def include(self, other_prop: str, rule_filter=None, why: str = "") -> int:
        """Run another property's rules as obligations of this property (for anchors shared between
        properties: a clause of the other property that is also a necessary clause of this one).
        Obligations are copied with the rule renamed "<other>:<rule>"; a construct that is a known
        finding of the other property is a known finding here too.  Returns the number of obligations."""
        import importlib
        mod = importlib.import_module(f"sa.props.{other_prop.lower()}")
        sub = Ctx(other_prop, self.tier, self.tree, known=None)
        with self.section(f"include {other_prop}"):
            try:
                mod.check(sub)
            except AnalysisError as e:
                if not sub.unlisted():
                    raise
                self.errors.append(f"[include {other_prop}] {e}")
        n = 0
        for o in sub.obligations:
            if rule_filter is not None and not rule_filter(o["rule"]):
                continue
            o2 = dict(o)
            o2["rule"] = f"{other_prop}:{o['rule']}"
            self.obligations.append(o2)
            self.rule_counts[o2["rule"]] = self.rule_counts.get(o2["rule"], 0) + 1
            n += 1
        for f in sub.findings:
            if rule_filter is not None and not rule_filter(f.rule):
                continue
            g = Finding(self.prop, f"{other_prop}:{f.rule}", f.construct, f.fails, f.witness)
            g.known = f.known
            for k in self.known:
                if k.get("rule") == g.rule and k.get("construct") == g.construct and k.get("status", "known") == "known":
                    g.known = k
            self.findings.append(g)
        self.errors.extend(f"[include {other_prop}] {e}" for e in sub.errors)
        self.functions |= sub.functions
        self.cfg_nodes += sub.cfg_nodes
        self.cfg_edges += sub.cfg_edges
        self.notes.append(f"included {n} obligations of {other_prop}" + (f": {why}" if why else ""))
        return n

    # ---- obligations -----------------------------------------------------------------
    @staticmethod
    def construct(qual: str, node=None) -> str:
        if node is None:
            return qual
        return f"{qual} | {short(node, 160) if not isinstance(node, str) else node}"

    def ok(self, rule: str, construct: str, detail: str = "") -> None:
        self.rule_counts[rule] = self.rule_counts.get(rule, 0) + 1
        self.obligations.append({"rule": rule, "construct": construct, "verdict": "holds", "detail": detail})

    def violation(self, rule: str, construct: str, fails: str, witness: str = "") -> None:
        self.rule_counts[rule] = self.rule_counts.get(rule, 0) + 1
        self.obligations.append({"rule": rule, "construct": construct, "verdict": "VIOLATED", "detail": fails, "witness": witness})
        f = Finding(self.prop, rule, construct, fails, witness)
        for k in self.known:
            if k.get("rule") == rule and k.get("construct") == construct and k.get("status", "known") == "known":
                f.known = k
        self.findings.append(f)

    def check(self, cond, rule: str, construct: str, fails: str, detail: str = "", witness: str = "") -> bool:
        if cond:
            self.ok(rule, construct, detail)
        else:
            self.violation(rule, construct, fails, witness)
        return bool(cond)

    def note(self, text: str) -> None:
        self.notes.append(text)

    def floor(self, rule: str, count: int, minimum: int, what: str = "sites") -> None:
        """A rule that matches fewer sites than confirmed by hand has gone blind."""
        if count < minimum:
            raise AnalysisError(f"{self.prop}/{rule}: matched {count} {what}, floor confirmed by hand is {minimum}")

    def need(self, thing, what: str):
        """Anchor that must exist for the analysis to make sense (else exit 2)."""
        if thing is None or thing is False or (hasattr(thing, "__len__") and len(thing) == 0):
            raise AnalysisError(f"{self.prop}: anchor not found: {what}")
        return thing

    # ---- results ---------------------------------------------------------------------
    def unlisted(self) -> List[Finding]:
        return [f for f in self.findings if f.known is None]

    def listed(self) -> List[Finding]:
        return [f for f in self.findings if f.known is not None]


KIND_LEGEND = {
    "structural": "decided on the shape of the code: CFG dominance / must-pass-through, def-use, who-may-write, call graph, "
                  "table agreement; no repository code is evaluated",
    "finite-exhaustive": "a pure function, guard or transition table of the repository is evaluated by the checker's own whitelisted "
                         "AST evaluator over its ENTIRE finite (abstract) input domain (all 256 byte values, every truth assignment "
                         "of the guards, every state x input pair): a for-all verdict over that domain",
    "bounded": "repository source is interpreted by the checker's own AST interpreter on an enumerated but BOUNDED set of inputs or "
               "histories (every split of short streams, scenario lists, small grids): a verdict about those inputs only, "
               "not a for-all argument",
    "unclassified": "the module does not declare the kind of this rule",
}


def rule_kind(module, rule: str) -> str:
    """Kind of a rule according to the module's RULE_KINDS = {rule prefix: kind} (longest prefix wins);
    included rules "Cxx:rule" are looked up in the other property's module."""
    if ":" in rule and rule.split(":", 1)[0][:1] == "C" and rule.split(":", 1)[0][1:].isdigit():
        other, rest = rule.split(":", 1)
        try:
            import importlib
            return rule_kind(importlib.import_module(f"sa.props.{other.lower()}"), rest)
        except Exception:
            return "unclassified"
    table = getattr(module, "RULE_KINDS", None) or {}
    best = None
    for pref, kind in table.items():
        if rule.startswith(pref) and (best is None or len(pref) > len(best[0])):
            best = (pref, kind)
    if best is None and "*" in table:
        return table["*"]
    return best[1] if best else "unclassified"


def kinds_of(ctx, module) -> dict:
    out: Dict[str, dict] = {}
    for o in ctx.obligations:
        k = rule_kind(module, o["rule"])
        d = out.setdefault(k, {"obligations": 0, "rules": set()})
        d["obligations"] += 1
        d["rules"].add(o["rule"])
    return {k: {"obligations": v["obligations"], "rules": len(v["rules"])} for k, v in sorted(out.items())}


def write_evidence(ctx: Ctx, module, wall: float, seed: int, selftest: Optional[dict] = None, error: Optional[str] = None) -> str:
    os.makedirs(EVIDENCE_DIR, exist_ok=True)
    obligations = len(ctx.obligations)
    discharged = sum(1 for o in ctx.obligations if o["verdict"] == "holds")
    distinct = len({(o["rule"], o["construct"]) for o in ctx.obligations})
    samples = []
    seen_rules = set()
    for o in ctx.obligations:
        if o["verdict"] != "holds" or o["rule"] not in seen_rules:
            seen_rules.add(o["rule"])
            samples.append(o)
        if len(samples) >= 40:
            break
    cov = {
        "explanation": getattr(module, "EXPLANATION", "") or "static analysis of /repo working tree",
        "obligations": obligations,
        "discharged": discharged,
        "evaluations": max(obligations, 1),
        "distinct_nontrivial": distinct,
        "rule": "one obligation = one (rule, construct) pair extracted from the current source of /repo by the AST/CFG "
                "analysis; distinct = distinct (rule, normalised construct) pairs; all are non-trivial in the sense that "
                "each names a concrete statement, table row, byte value or path of the code",
        "samples": samples,
        "rule_instances": dict(sorted(ctx.rule_counts.items())),
        "modules_parsed": sorted(ctx.tree.consulted),
        "functions_analysed": sorted(ctx.functions),
        "cfg_nodes": ctx.cfg_nodes,
        "cfg_edges": ctx.cfg_edges,
        "known_findings_reported": [f.as_dict() for f in ctx.listed()],
        "violations_reported": [f.as_dict() for f in ctx.unlisted()],
        "notes": ctx.notes,
        "exhaustive": False,
        "checker_cmd": f"/venv/bin/python sa/check.py --property {ctx.prop} --tier {ctx.tier}",
        "trusted_base": ["CPython ast parser", "sa/ engine (CFG, dominators, effects)", "frozen instance tables in sa/props"],
    }
    cov["obligations_by_kind"] = kinds_of(ctx, module)
    cov["kinds_legend"] = KIND_LEGEND
    cov.update(ctx.extra)
    if selftest is not None:
        cov["selftest"] = selftest
    if error:
        cov["analysis_error"] = error
    ev = {
        "property_id": ctx.prop,
        "tier": ctx.tier,
        "seed": seed,
        "level": "other",
        "coverage": cov,
        "assumptions": list(getattr(module, "ASSUMPTIONS", [])) + [
            "the analysed source is what runs (no monkey-patching of the analysed classes)",
            "opaque call-outs (user callbacks, transports) are the only re-entry points",
        ],
        "wall_s": round(wall, 3),
        "violations": len(ctx.unlisted()),
    }
    path = os.path.join(EVIDENCE_DIR, f"{ctx.prop}.json")
    with open(path, "w") as f:
        json.dump(ev, f, indent=1, sort_keys=False, default=str)
        f.write("\n")
    return path


def write_replays(ctx: Ctx) -> List[str]:
    os.makedirs(REPLAY_DIR, exist_ok=True)
    for old in glob.glob(os.path.join(REPLAY_DIR, f"{ctx.prop}-*.json")):
        os.unlink(old)
    out = []
    for i, f in enumerate(ctx.unlisted(), 1):
        p = os.path.join(REPLAY_DIR, f"{ctx.prop}-{i}.json")
        with open(p, "w") as fh:
            json.dump(f.as_dict(), fh, indent=1)
            fh.write("\n")
        out.append(p)
    return out
