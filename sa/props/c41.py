"""C41 - Mail text codecs round-trip (SMTP xtext, IMAP4 modified UTF-7)."""
from __future__ import annotations

import ast
import base64

from sa.astx import call_attr, call_name, dotted, src
from sa.domains import fmt_set, replace_chain
from sa.selftest import Mutant, Silent
from sa.source import AnalysisError
from sa.props._lib_i import sect, COMPAT, BlockRaised, NotPure, Raised, eval_block, flat_bytes, interp, module_env, peval

PROPERTY = "C41"
SMTP = "mail/smtp.py"
IMAP = "mail/imap4.py"
TECHNIQUE = "exhaustive per-unit evaluation of codec loop bodies against RFC tables"
EXPLANATION = (
    "xtext: the loop body of smtp.xtext_encode is evaluated for all 256 byte values and must equal the RFC 3461 rewrite (raw for "
    "0x21-0x7E except '+' and '=', else '+' and two upper-case hex digits; a bytes-vs-str comparison evaluates to False exactly as "
    "in Python 3: F41a, fixed); one iteration of xtext_decode's loop on each encoded unit must yield that byte's code point and "
    "advance past exactly the unit. Modified UTF-7: imap4.encoder's loop body is evaluated for every ASCII code point and "
    "representative non-ASCII ones: printable ASCII except '&' is emitted as itself, '&' as '&-', pending base64 input is flushed "
    "(and cleared) before every direct character and at the end, shift-in/out are '&'/'-'; the set routed to modified_base64, "
    "whose s.encode('utf-7')[1:-1] assumes a '+...-' wrapper, must be disjoint from the characters the stdlib utf-7 encoder emits "
    "directly (RFC 2152 sets D, O and white space; table frozen here) - TAB, LF, CR are not: known finding F41b; '/'<->',' "
    "substitutions are inverse; the decoder's per-unit transition table is checked for all (state, input) classes. Not decided: "
    "value-level round trip of the base64 payload (delegated to the stdlib codec), str-vs-bytes type of xtext_decode's result."
)
ASSUMPTIONS = [
    "stdlib utf-7 encoder emits exactly RFC 2152 set D, set O, SP, TAB, CR, LF directly and wraps every other run as '+<base64>-' (CPython Objects/unicodeobject.c utf7_category)",
    "iterbytes / networkString / _matchingString behave as documented in twisted.python.compat (modelled, not executed)",
]

# RFC 3461 section 4: xchar = %d33-42 / %d44-60 / %d62-126
XCHAR = set(range(33, 127)) - {ord("+"), ord("=")}
# RFC 2152 (what CPython's utf-7 *encoder* leaves un-encoded with its default flags)
UTF7_SET_D = set(b"ABCDEFGHIJKLMNOPQRSTUVWXYZabcdefghijklmnopqrstuvwxyz0123456789'(),-./:?")
UTF7_SET_O = set(b"!\"#$%&*;<=>@[]^_`{|}")
UTF7_WS = {0x20, 0x09, 0x0D, 0x0A}
UTF7_DIRECT = UTF7_SET_D | UTF7_SET_O | UTF7_WS
PRINTABLE = set(range(0x20, 0x7F))
SAMPLE_NON_ASCII = [0x80, 0xA0, 0xE9, 0xFF, 0x100, 0x20AC, 0xD7FF, 0xE000, 0xFFFD, 0x10000, 0x10FFFF]


def _xtext_ref(v: int) -> bytes:
    return bytes([v]) if v in XCHAR else b"+%02X" % v


def _top_loop(f, kind):
    loops = [st for st in f.body if isinstance(st, kind)]
    if len(loops) != 1:
        raise AnalysisError(f"C41: expected exactly one top-level {kind.__name__} loop in {f.name}, found {len(loops)}")
    return loops[0]


def _list_sink(names):
    def sink(node):
        if isinstance(node, ast.AugAssign):
            return (node.target.id, "extend") if isinstance(node.target, ast.Name) and node.target.id in names and isinstance(node.op, ast.Add) else None
        if isinstance(node, ast.Call) and isinstance(node.func, ast.Attribute) and isinstance(node.func.value, ast.Name) and node.func.value.id in names:
            if node.func.attr in ("append", "extend") and len(node.args) == 1:
                return (node.func.value.id, node.func.attr)
        return None
    return sink


def _accumulators(f):
    """Local names bound to an empty list / bytearray at the top level of the function."""
    out = set()
    for st in f.body:
        if isinstance(st, ast.Assign) and len(st.targets) == 1 and isinstance(st.targets[0], ast.Name):
            v = st.value
            if (isinstance(v, ast.List) and not v.elts) or (isinstance(v, ast.Call) and dotted(v.func) in ("bytearray", "list") and not v.args):
                out.add(st.targets[0].id)
    return out


# ---- xtext ---------------------------------------------------------------------------------------------------

def _check_xtext(ctx):
    env0 = module_env(ctx.mod(SMTP))
    f = ctx.func(SMTP, "xtext_encode")
    q = "twisted.mail.smtp.xtext_encode"
    s = f.args.args[0].arg
    loop = _top_loop(f, ast.For)
    accs = _accumulators(f)
    ctx.need(accs, f"accumulator list in {q}")
    sink = _list_sink(accs)
    outs = {}
    for v in range(256):
        try:
            units = list(peval(loop.iter, {**env0, s: bytes([v])}))
        except (NotPure, Raised) as ex:
            raise AnalysisError(f"{q}: loop iterable not evaluable ({ex})")
        if len(units) != 1:
            raise AnalysisError(f"{q}: loop does not iterate unit by unit")
        env = dict(env0)
        env[s] = bytes([v])
        if not isinstance(loop.target, ast.Name):
            raise AnalysisError(f"{q}: loop target shape")
        env[loop.target.id] = units[0]
        r = eval_block(loop.body, env, sink=sink)
        if len(r.named) > 1:
            raise AnalysisError(f"{q}: more than one accumulator written")
        outs[v] = flat_bytes(next(iter(r.named.values()), []))
    escaped = {v for v in range(256) if outs[v] != bytes([v])}
    want_escaped = set(range(256)) - XCHAR
    missing, extra = want_escaped - escaped, escaped - want_escaped
    ctx.check(not missing, "xtext/escape-set", q + " | bytes that must be escaped",
              f"bytes {fmt_set(missing)} ({bytes(sorted(missing))[:8]!r}) are emitted raw; RFC 3461 xtext allows raw only 0x21-0x7E except '+' and '=' "
              "(a raw '+' is then read back as the start of a hex escape)", detail="256 byte values evaluated")
    ctx.check(not extra, "xtext/escape-set", q + " | bytes that must stay raw",
              f"xchar bytes {fmt_set(extra)} are not emitted as themselves")
    bad = [v for v in sorted(escaped & want_escaped) if outs[v] != _xtext_ref(v)]
    ctx.check(not bad, "xtext/escape-form", q + " | '+' HEXDIG HEXDIG",
              bad and f"byte 0x{bad[0]:02x} is escaped as {outs[bad[0]]!r}; RFC 3461 hexchar is '+' followed by exactly two upper-case hex digits ({_xtext_ref(bad[0])!r})")
    # the value returned is the concatenation of the per-unit outputs, plus the consumed length
    rets = [st for st in f.body if isinstance(st, ast.Return)]
    ctx.need(len(rets) == 1, f"single return in {q}")
    acc = sorted(accs)[0]
    try:
        rv = peval(rets[0].value, {**env0, **{a: [b"a", b"+2B"] for a in accs}, s: b"a+"})
    except (NotPure, Raised) as ex:
        raise AnalysisError(f"{q}: return value not evaluable ({ex})")
    ctx.check(rv == (b"a+2B", 2), "xtext/result", ctx.construct(q, rets[0]),
              f"the encoder returns {rv!r} for per-unit outputs [b'a', b'+2B'] of a 2-byte input; the codec contract is (joined bytes, input length)")

    # ---- decoder: one loop iteration per encoded unit
    f = ctx.func(SMTP, "xtext_decode")
    q = "twisted.mail.smtp.xtext_decode"
    s = f.args.args[0].arg
    loop = _top_loop(f, ast.While)
    accs = _accumulators(f)
    sink = _list_sink(accs)
    idx = [st.targets[0].id for st in f.body if isinstance(st, ast.Assign) and len(st.targets) == 1 and isinstance(st.targets[0], ast.Name)
           and isinstance(st.value, ast.Constant) and st.value.value == 0]
    ctx.need(len(idx) == 1, f"index variable initialised to 0 in {q}")
    i = idx[0]
    bad_val = bad_adv = None
    for v in range(256):
        enc = _xtext_ref(v)
        for tail in (b"", b"41", b"+"):
            env = {**env0, s: enc + tail, i: 0}
            try:
                if not peval(loop.test, env):
                    raise AnalysisError(f"{q}: loop does not start on non-empty input")
            except (NotPure, Raised) as ex:
                raise AnalysisError(f"{q}: loop test not evaluable ({ex})")
            r = eval_block(loop.body, env, sink=sink)
            got = next(iter(r.named.values()), [])
            val = None
            if len(got) == 1:
                g0 = got[0]
                val = ord(g0) if isinstance(g0, str) and len(g0) == 1 else (g0[0] if isinstance(g0, bytes) and len(g0) == 1 else (g0 if isinstance(g0, int) else None))
            if val != v and bad_val is None:
                bad_val = (v, enc + tail, got)
            if env[i] != len(enc) and bad_adv is None:
                bad_adv = (v, enc + tail, env[i])
    ctx.check(bad_val is None, "xtext/decode-inverts", q + " | value",
              bad_val and f"decoding {bad_val[1]!r} yields {bad_val[2]!r} for the first unit instead of byte 0x{bad_val[0]:02x}",
              detail="256 encoded units x 3 continuations")
    ctx.check(bad_adv is None, "xtext/decode-inverts", q + " | advance",
              bad_adv and f"after the unit encoding byte 0x{bad_adv[0]:02x} in {bad_adv[1]!r} the index is {bad_adv[2]} instead of {len(_xtext_ref(bad_adv[0]))}: "
              "the following input is mis-framed")
    try:
        stop = [bool(peval(loop.test, {**env0, s: b"ab", i: k})) for k in (0, 1, 2)]
    except (NotPure, Raised) as ex:
        raise AnalysisError(f"{q}: loop test not evaluable ({ex})")
    ctx.check(stop == [True, True, False], "xtext/decode-inverts", q + " | loop bound", "the decoder loop does not visit exactly the positions 0..len(s)-1")


# ---- modified UTF-7 ---------------------------------------------------------------------------------------------

def _check_utf7_encoder(ctx):
    mod = ctx.mod(IMAP)
    env0 = {}
    f = ctx.func(IMAP, "encoder")
    q = "twisted.mail.imap4.encoder"
    s = f.args.args[0].arg
    loop = _top_loop(f, ast.For)
    ctx.need(isinstance(loop.iter, ast.Name) and loop.iter.id == s and isinstance(loop.target, ast.Name), f"`for c in {s}` in {q}")
    c = loop.target.id
    accs = _accumulators(f)
    ctx.need(len(accs) == 2, f"output and pending accumulators in {q}")
    # locals evaluated before the loop (valid_chars ...)
    pre = {}
    for st in f.body:
        if st is loop:
            break
        if isinstance(st, ast.Assign) and len(st.targets) == 1 and isinstance(st.targets[0], ast.Name) and st.targets[0].id not in accs:
            try:
                pre[st.targets[0].id] = peval(st.value, pre)
            except (NotPure, Raised) as ex:
                raise AnalysisError(f"{q}: local {st.targets[0].id} not evaluable ({ex})")
    marker = lambda x: b"<" + x.encode("utf-16-be") + b">"  # noqa: E731  (opaque model of the base64 helper)
    helper_names = {call_name(x) for x in ast.walk(f) if isinstance(x, ast.Call) and isinstance(x.func, ast.Name) and mod.find(x.func.id) is not None}
    ctx.need(len(helper_names) == 1, f"exactly one base64 helper called from {q}")
    helper = helper_names.pop()
    funcs = {helper: marker}
    sink = _list_sink(accs)

    def step(cp, pending):
        env = {**pre, c: chr(cp)}
        for a in accs:
            env[a] = list(pending) if a == pending_name else []
        r = eval_block(loop.body, env, sink=sink, funcs={**funcs}, ignore={f"{pending_name}[:]"})
        return r

    # which accumulator is "pending"?  the one passed (joined) to the helper
    pending_name = None
    for x in ast.walk(f):
        if isinstance(x, ast.Call) and call_name(x) == helper:
            ns = {n.id for n in ast.walk(x) if isinstance(n, ast.Name) and n.id in accs}
            if len(ns) == 1:
                pending_name = ns.pop()
    ctx.need(pending_name, f"pending-input accumulator in {q}")
    out_name = (accs - {pending_name}).pop()

    direct, amp, routed, other = set(), set(), set(), {}
    cps = list(range(0x80)) + SAMPLE_NON_ASCII
    for cp in cps:
        r = step(cp, [])
        o = flat_bytes(r.named.get(out_name, []))
        p = r.named.get(pending_name, [])
        if p == [chr(cp)] and o == b"":
            routed.add(cp)
        elif not p and cp < 0x80 and o == bytes([cp]):
            direct.add(cp)
        elif not p and o == b"&-":
            amp.add(cp)
        else:
            other[cp] = (o, p)
    ctx.check(not other, "utf7/unit-classes", q + " | per-character output",
              other and f"code point U+{min(other):04X} produces output {other[min(other)][0]!r} / pending {other[min(other)][1]!r}: neither itself, '&-' nor base64 input")
    want_direct = PRINTABLE - {ord("&")}
    ctx.check(direct == want_direct, "utf7/direct-set", q + " | characters that represent themselves",
              f"characters emitted as themselves differ from RFC 3501 5.1.3 (printable US-ASCII except '&') on {fmt_set(direct ^ want_direct)}"
              + ("; a literal '&' is read back as a shift into base64" if ord("&") in direct else ""), detail=f"{len(cps)} code points evaluated")
    ctx.check(amp == {ord("&")}, "utf7/ampersand", q + " | '&' -> '&-'", f"the set of characters encoded as '&-' is {fmt_set(amp)}, must be exactly '&'")
    # the base64 helper, evaluated (the stdlib utf-7 / base64 codecs are delegated to CPython, the repository code is interpreted):
    # for every run of routed characters it must produce RFC 3501 modified base64 of the run's UTF-16BE form.  F41b: characters the
    # stdlib utf-7 encoder emits directly come back without the '+' / '-' wrapper the helper removes.
    hf = ctx.func(IMAP, helper)
    hq = f"twisted.mail.imap4.{helper}"
    helper_fn = interp(hf, COMPAT, {})

    def ref_mb64(t):
        return base64.b64encode(t.encode("utf-16-be")).rstrip(b"=").replace(b"/", b",")
    runs = [chr(cp) for cp in sorted(routed)]
    runs += ["\uf800", "\ufb01", "\ufbff", "\ufb01le", "\ufffd", "\u00e9\u00e9\u00be", "\u00e9\u00e9\u00ff", "\U0001f600", "\x00\x01", "\u00e9\x01", "\u20ac\u00e9",
             "\u00e9\n", "\t\u00e9", "\r\n", "\ufb01\ufb01\u00be"]
    bad_direct = bad_payload = None
    for t in runs:
        try:
            got = helper_fn(t)
        except (Raised, BlockRaised) as ex:
            got = f"<raises {ex}>"
        if got == ref_mb64(t):
            continue
        if any(ord(ch) in UTF7_DIRECT for ch in t):
            bad_direct = bad_direct or (t, got)
        else:
            bad_payload = bad_payload or (t, got)
    ctx.check(bad_direct is None, "utf7/routed-disjoint-from-codec-direct", f"{hq} | <routed characters the utf-7 codec emits directly>",
              bad_direct and f"{helper}({bad_direct[0]!r}) gives {bad_direct[1]!r} instead of {ref_mb64(bad_direct[0])!r}: the character is routed to the base64 helper, but "
              "the stdlib utf-7 encoder emits it directly (no '+' / '-' wrapper), so removing the wrapper cuts payload: the character is lost or turned into '&'",
              detail=f"routed ASCII: {fmt_set(routed & set(range(0x80)))}")
    ctx.check(bad_payload is None, "utf7/helper-payload", f"{hq} | modified base64 of a routed run",
              bad_payload and f"{helper}({bad_payload[0]!r}) gives {bad_payload[1]!r}; RFC 3501 modified base64 of the run is {ref_mb64(bad_payload[0])!r} "
              "('+' and ',' are base64 digits: they may start or end the payload and must survive the removal of the utf-7 wrapper)", detail=f"{len(runs)} runs")
    # flush discipline: with pending input, a direct character / '&' first emits '&' + helper(pending) + '-' and clears pending
    pend = ["\u00e9", "\u20ac"]
    for cp, tail in ((ord("a"), b"a"), (ord("&"), b"&-")):
        r = step(cp, pend)
        o = flat_bytes(r.named.get(out_name, []))
        want = b"&" + marker("".join(pend)) + b"-" + tail
        ctx.check(o == want, "utf7/flush-before-direct", f"{q} | pending then {chr(cp)!r}",
                  f"with pending non-ASCII input, {chr(cp)!r} produces {o!r}; required shift sequence is {want!r} ('&' base64 '-' then the character)")
    # pending cleared after each flush inside the loop
    g = ctx.cfg(f)
    flushes = [n for n in g.find(lambda x: isinstance(x, ast.Call) and call_name(x) == helper) if any(g.node(n).ast is st or _contains(st, g.node(n).ast) for st in [loop])]
    clears = g.ids(lambda n: n.kind == "stmt" and ((isinstance(n.ast, ast.Delete) and any(src(t).startswith(pending_name + "[") for t in n.ast.targets))
                                                    or (isinstance(n.ast, ast.Assign) and any(src(t) == pending_name for t in n.ast.targets))
                                                    or (isinstance(n.ast, ast.Expr) and isinstance(n.ast.value, ast.Call) and call_name(n.ast.value) == pending_name + ".clear")))
    head = g.ids_of(loop)
    for fl in flushes:
        wit = g.path([fl], head, avoid=set(clears), edge_ok=lambda a, b, l: l != "exc", strict=True)
        ctx.check(wit is None, "utf7/pending-cleared-after-flush", ctx.construct(q, g.node(fl).ast),
                  "the pending base64 input is emitted but not cleared: it is emitted again with the next shift sequence", witness=g.describe(wit))
    ctx.floor("utf7/pending-cleared-after-flush", len(flushes), 1)
    # end of input: pending flushed before return
    after = [st for st in f.body[f.body.index(loop) + 1:]]
    env = {**pre, out_name: [], pending_name: list(pend), s: "xy"}
    r = eval_block(after, env, sink=sink, funcs=funcs)
    o = flat_bytes(r.named.get(out_name, []))
    ctx.check(o == b"&" + marker("".join(pend)) + b"-", "utf7/flush-at-end", q + " | end of input",
              f"input ending in non-ASCII characters ends with {o!r} instead of the closed shift sequence '&' base64 '-'")
    env = {**pre, out_name: [], pending_name: [], s: "xy"}
    r = eval_block(after, env, sink=sink, funcs=funcs)
    ctx.check(flat_bytes(r.named.get(out_name, [])) == b"", "utf7/flush-at-end", q + " | nothing pending", "an empty shift sequence is appended at the end of input")


def _contains(outer, inner):
    return any(x is inner for x in ast.walk(outer))


def _check_b64_helpers(ctx):
    enc = ctx.func(IMAP, "modified_base64")
    dec = ctx.func(IMAP, "modified_unbase64")
    pe, pd = replace_chain(enc), replace_chain(dec)
    q = "twisted.mail.imap4.modified_base64 ~ modified_unbase64"
    ctx.check(pe == [(b"/", b",")], "utf7/base64-alphabet", "twisted.mail.imap4.modified_base64 | '/' -> ','",
              f"substitutions {pe!r}: RFC 3501 modified base64 replaces exactly '/' by ','")
    ctx.check(pd == [(n, o) for o, n in pe] and bool(pd), "utf7/base64-alphabet", q,
              f"decoder substitutions {pd!r} are not the inverse of the encoder's {pe!r}")
    # the decoder re-wraps with '+' ... '-'
    rets = [st for st in dec.body if isinstance(st, ast.Return)]
    body_env = {}
    p = dec.args.args[0].arg
    wrapped = None
    for st in dec.body:
        if isinstance(st, ast.Assign) and len(st.targets) == 1 and isinstance(st.targets[0], ast.Name):
            try:
                body_env[st.targets[0].id] = peval(st.value, {**body_env, p: b"AOk,"})
            except (NotPure, Raised):
                pass
    wrapped = [v for v in body_env.values() if isinstance(v, bytes)]
    ok = b"+AOk/-" in wrapped
    if not ok:
        for x in ast.walk(dec):
            if isinstance(x, ast.BinOp):
                try:
                    if peval(x, {p: b"AOk,"}) == b"+AOk/-":
                        ok = True
                except (NotPure, Raised):
                    pass
    ctx.check(ok, "utf7/base64-alphabet", "twisted.mail.imap4.modified_unbase64 | '+' payload '-'",
              "the payload is not handed to the utf-7 decoder as '+' <standard base64> '-'")


def _check_utf7_decoder(ctx):
    f = ctx.func(IMAP, "decoder")
    q = "twisted.mail.imap4.decoder"
    loop = _top_loop(f, ast.For)
    ctx.need(isinstance(loop.target, ast.Name), "loop variable")
    c = loop.target.id
    accs = _accumulators(f)
    ctx.need(len(accs) == 2, f"output and shift accumulators in {q}")
    helper = "modified_unbase64"
    funcs = {helper: lambda b: "<" + b.decode("ascii") + ">"}
    sink = _list_sink(accs)
    # the shift accumulator is the one re-bound inside the loop
    shift = {t.id for st in ast.walk(loop) if isinstance(st, ast.Assign) for t in st.targets if isinstance(t, ast.Name) and t.id in accs}
    ctx.need(len(shift) == 1, f"shift-state accumulator in {q}")
    shift = shift.pop()
    out = (accs - {shift}).pop()
    table = []
    for state in ([], [b"&"], [b"&", b"A"], [b"&", b"A", b"O", b"k"]):
        for unit in (b"&", b"-", b"a", b",", b"+"):
            orig = list(state)
            env = {c: unit, shift: orig, out: []}
            r = eval_block(loop.body, env, sink=sink, funcs=funcs)
            emitted = r.named.get(out, [])
            pushed = r.named.get(shift, [])
            new_state = (orig + pushed) if env[shift] is orig else list(env[shift])
            if not state:
                want = ([], [b"&"]) if unit == b"&" else ([unit.decode("ascii")], [])
            elif unit == b"-":
                want = (["&"], []) if len(state) == 1 else (["<" + b"".join(state[1:]).decode("ascii") + ">"], [])
            else:
                want = ([], state + [unit])
            ok = (emitted, new_state) == want
            table.append(ok)
            ctx.check(ok, "utf7/decoder-transitions", f"{q} | state {'shifted' if state else 'direct'}{'+payload' if len(state) > 1 else ''}, input {unit!r}",
                      f"in state {state!r} the unit {unit!r} emits {emitted!r} and leaves state {new_state!r}; RFC 3501 requires emit {want[0]!r}, state {want[1]!r}")
    # an unterminated shift at end of input is still decoded (lenient), a terminated one leaves nothing pending: structural only
    after = f.body[f.body.index(loop) + 1:]
    env = {shift: [], out: [], f.args.args[0].arg: b"ab"}
    r = eval_block([st for st in after if not isinstance(st, ast.Return)], env, sink=sink, funcs=funcs)
    ctx.check(not r.named.get(out), "utf7/decoder-transitions", q + " | end of input, nothing pending", "text is appended at end of input although no shift sequence is open")


def check(ctx):
    with sect(ctx, "xtext"):
        _check_xtext(ctx)
    with sect(ctx, "utf-7 encoder"):
        _check_utf7_encoder(ctx)
    with sect(ctx, "modified base64 helpers"):
        _check_b64_helpers(ctx)
    with sect(ctx, "utf-7 decoder"):
        _check_utf7_decoder(ctx)


_XT = '        if o == ord("+") or o == ord("=") or o < 33 or o > 126:\n'
MUTANTS = [
    Mutant("F41a-revert-str-literals", SMTP, _XT, '        if ch == "+" or ch == "=" or o < 33 or o > 126:\n', expect_rule="xtext/escape-set"),
    Mutant("xtext-del-raw", SMTP, _XT, '        if o == ord("+") or o == ord("=") or o < 33 or o > 127:\n', expect_rule="xtext/escape-set"),
    Mutant("xtext-space-raw", SMTP, _XT, '        if o == ord("+") or o == ord("=") or o < 32 or o > 126:\n', expect_rule="xtext/escape-set"),
    Mutant("xtext-equals-raw", SMTP, _XT, '        if o == ord("+") or o < 33 or o > 126:\n', expect_rule="xtext/escape-set"),
    Mutant("xtext-lowercase-hex", SMTP, 'networkString(f"+{o:02X}")', 'networkString(f"+{o:02x}")', expect_rule="xtext/escape-form"),
    Mutant("xtext-unpadded-hex", SMTP, 'networkString(f"+{o:02X}")', 'networkString(f"+{o:X}")', expect_rule="xtext/escape-form"),
    Mutant("xtext-decode-short-advance", SMTP, "                r.append(ord(s[i : i + 3]))\n            i += 3\n", "                r.append(ord(s[i : i + 3]))\n            i += 2\n",
           expect_rule="xtext/decode-inverts"),
    Mutant("xtext-decode-one-digit", SMTP, "int(bytes(s[i + 1 : i + 3]), 16)", "int(bytes(s[i + 1 : i + 2]), 16)", expect_rule="xtext/decode-inverts"),
    Mutant("utf7-ampersand-valid", IMAP, '    valid_chars = set(map(chr, range(0x20, 0x7F))) - {"&"}\n', '    valid_chars = set(map(chr, range(0x20, 0x7F)))\n', expect_rule="utf7/"),
    Mutant("utf7-del-direct", IMAP, '    valid_chars = set(map(chr, range(0x20, 0x7F))) - {"&"}\n', '    valid_chars = set(map(chr, range(0x20, 0x80))) - {"&"}\n', expect_rule="utf7/direct-set"),
    Mutant("utf7-space-routed", IMAP, '    valid_chars = set(map(chr, range(0x20, 0x7F))) - {"&"}\n', '    valid_chars = set(map(chr, range(0x21, 0x7F))) - {"&"}\n', expect_rule="utf7/"),
    Mutant("utf7-pending-not-cleared-on-amp", IMAP, '                del _in[:]\n            r += b"&-"\n', '            r += b"&-"\n', expect_rule="utf7/pending-cleared-after-flush"),
    Mutant("utf7-no-flush-before-amp", IMAP, '        elif c == "&":\n            if _in:\n                r += b"&" + modified_base64("".join(_in)) + b"-"\n                del _in[:]\n            r += b"&-"\n',
           '        elif c == "&":\n            r += b"&-"\n', expect_rule="utf7/flush-before-direct"),
    Mutant("utf7-unclosed-final-shift", IMAP, '    if _in:\n        r.extend(b"&" + modified_base64("".join(_in)) + b"-")\n', '    if _in:\n        r.extend(b"&" + modified_base64("".join(_in)))\n',
           expect_rule="utf7/flush-at-end"),
    Mutant("utf7-unbase64-not-inverse", IMAP, '    s_utf7 = b"+" + s.replace(b",", b"/") + b"-"\n', '    s_utf7 = b"+" + s.replace(b".", b"/") + b"-"\n', expect_rule="utf7/base64-alphabet"),
    Mutant("utf7-wrapper-removed-by-strip", IMAP, "    return s_utf7[1:-1].replace(b\"/\", b\",\")\n", "    return s_utf7.strip(b\"+-\").replace(b\"/\", b\",\")\n", expect_rule="utf7/helper-payload"),
    Mutant("utf7-wrapper-slash-not-substituted", IMAP, "    return s_utf7[1:-1].replace(b\"/\", b\",\")\n", "    return s_utf7[1:-1]\n", expect_rule="utf7/"),
    Mutant("utf7-decoder-ampdash-miscount", IMAP, "            if len(decode) == 1:\n", "            if len(decode) <= 2:\n", expect_rule="utf7/decoder-transitions"),
    Mutant("utf7-decoder-shift-char-kept", IMAP, '                r.append(modified_unbase64(b"".join(decode[1:])))\n            decode = []\n',
           '                r.append(modified_unbase64(b"".join(decode)))\n            decode = []\n', expect_rule="utf7/decoder-transitions"),
    Mutant("utf7-decoder-dash-direct", IMAP, '        elif c == b"-" and decode:\n', '        elif c == b"-":\n', expect_rule="utf7/decoder-transitions"),
]
SILENT = [
    Silent("xtext-set-membership", SMTP, _XT, '        if o in (0x2B, 0x3D) or not 33 <= o <= 126:\n'),
    Silent("xtext-percent-format", SMTP, 'networkString(f"+{o:02X}")', 'b"+%02X" % (o,)'),
    Silent("utf7-valid-chars-comprehension", IMAP, '    valid_chars = set(map(chr, range(0x20, 0x7F))) - {"&"}\n', '    valid_chars = {chr(x) for x in range(32, 127) if x != 0x26}\n'),
    Silent("F41b-repaired-base64-helper", IMAP, '    s_utf7 = s.encode("utf-7")\n    return s_utf7[1:-1].replace(b"/", b",")\n',
           '    import binascii\n    return binascii.b2a_base64(s.encode("utf-16-be")).rstrip(b"\\n=").replace(b"/", b",")\n'),
    Silent("utf7-wrapper-removeprefix-removesuffix", IMAP, "    return s_utf7[1:-1].replace(b\"/\", b\",\")\n",
           "    return s_utf7.removeprefix(b\"+\").removesuffix(b\"-\").replace(b\"/\", b\",\")\n"),
    Silent("utf7-decoder-reordered-test", IMAP, '        if c == b"&" and not decode:\n', '        if not decode and c == b"&":\n'),
]
