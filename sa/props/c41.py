"""C41 - Mail text codecs round-trip (SMTP xtext, IMAP4 modified UTF-7)."""
from __future__ import annotations

import ast
import base64
import re

from sa.domains import fmt_set
from sa.selftest import Mutant, Silent
from sa.source import AnalysisError
from sa.astx import walk_local
from sa.props._lib_i import sect, COMPAT, BlockRaised, FollowModule, Raised, domain_argument, interp, kinded, module_env, reads_param_unitwise

PROPERTY = "C41"
RULE_KINDS = {
    # per-unit evaluation over the complete unit domain, premise (unit-wise coder, decisions by comparison with constants) checked on the code
    "xtext/escape-set": "finite-exhaustive", "xtext/escape-form": "finite-exhaustive", "xtext/decode-inverts": "finite-exhaustive",
    "utf7/unit-classes": "finite-exhaustive", "utf7/direct-set": "finite-exhaustive", "utf7/ampersand": "finite-exhaustive",
    "utf7/flush-before-direct": "finite-exhaustive", "utf7/pending-cleared-after-flush": "finite-exhaustive", "utf7/flush-at-end": "finite-exhaustive",
    "utf7/decoder-transitions": "finite-exhaustive",
    "utf7/routed-disjoint-from-codec-direct": "finite-exhaustive",      # every routed ASCII character, singly
    # the same rules when the premise could not be established on the code
    "xtext/escape-set (bounded)": "bounded", "xtext/escape-form (bounded)": "bounded", "xtext/decode-inverts (bounded)": "bounded",
    "utf7/unit-classes (bounded)": "bounded", "utf7/direct-set (bounded)": "bounded", "utf7/ampersand (bounded)": "bounded",
    "utf7/flush-before-direct (bounded)": "bounded", "utf7/pending-cleared-after-flush (bounded)": "bounded", "utf7/flush-at-end (bounded)": "bounded",
    "utf7/decoder-transitions (bounded)": "bounded",
    "xtext/result": "bounded", "utf7/helper-payload": "bounded", "utf7/base64-alphabet": "bounded", "utf7/output-printable-ascii": "bounded",
    "utf7/helper-encoder-does-not-wrap": "structural", "utf7/decoder-alphabet-covers-encoder": "structural", "utf7/roundtrip-covers-base64-alphabet": "bounded",
}
SMTP = "mail/smtp.py"
IMAP = "mail/imap4.py"
TECHNIQUE = "finite-exhaustive per-unit evaluation with unit-wise premise checked; bounded payload samples"
EXPLANATION = (
    'FINITE-EXHAUSTIVE, each with its premise checked on the code (the coder and the module helpers it calls take every bra'
    'nch decision from the current unit, constants and their own small state; the encoders only iterate their input): xtext'
    "_encode on all 256 byte values equals the RFC 3461 rewrite (raw 0x21-0x7E except '+' '=', else '+' and two upper-case "
    'hex digits; a bytes-vs-str comparison is false as in Python 3: F41a, fixed); xtext_decode on every encoded unit x cont'
    "inuations (incl. literal '%XX') yields the byte and frames the rest; imap4.encoder on every ASCII character plus repre"
    "sentatives of the single 'other' class: printable ASCII except '&' as itself, '&' as '&-', and all (pending?, unit cla"
    'ss, end) combinations of the shift discipline; decoder on all (shift state, unit class) pairs that occur in well-formed input (an ampersand inside a shift sequence and an unterminated sequence are outside the property); every ASCII character r'
    'outed to modified_base64, singly, against RFC 3501 modified base64 - TAB, LF, CR come back wrong because the stdlib ut'
    "f-7 encoder emits them directly (known finding F41b). When a premise cannot be established the same rule reports as '("
    "bounded)'. BOUNDED only: modified_base64 / modified_unbase64 on sampled runs (payloads starting or ending with '+' or "
    "','; the payload itself is the stdlib codec's, an infinite domain), xtext_encode's (bytes, length) result on four text"
    "s. Not decided: str-vs-bytes type of xtext_decode's result."
)
ASSUMPTIONS = [
    "stdlib utf-7 encoder emits exactly RFC 2152 set D, set O, SP, TAB, CR, LF directly and wraps every other run as '+<base64>-' (CPython Objects/unicodeobject.c utf7_category)",
    "iterbytes / networkString / _matchingString behave as documented in twisted.python.compat (modelled, not executed)",
]

# RFC 3461 section 4: xchar = %d33-42 / %d44-60 / %d62-126
XCHAR = set(range(33, 127)) - {ord("+"), ord("=")}
# RFC 2152 (what CPython's utf-7 *encoder* leaves un-encoded with its default flags)
UTF7_SET_D = set(b"ABCDEFGHIJKLMNOPQRSTUVWXYZabcdefghijklmnopqrstuvwxyz0123456789'(),-./:?")
UTF7_SET_O = set(b"!\"#$%&*;<=>@[]^_`{|}")
UTF7_WS = {0x20, 0x09, 0x0D, 0x0A}
UTF7_DIRECT = UTF7_SET_D | UTF7_SET_O | UTF7_WS
PRINTABLE = set(range(0x20, 0x7F))
SAMPLE_NON_ASCII = [0x80, 0xA0, 0xE9, 0xFF, 0x100, 0x20AC, 0xD7FF, 0xE000, 0xFFFD, 0x10000, 0x10FFFF]


def _xtext_ref(v: int) -> bytes:
    return bytes([v]) if v in XCHAR else b"+%02X" % v


# ---- xtext ---------------------------------------------------------------------------------------------------

def _unit_argument(mod, f, seq_param=None, scanner=False):
    """Domain argument for a codec function (with the module-level helpers it calls): every branch decision depends only on the
    current unit (loop variables / helper parameters), on constants, and on the function's own small state (accumulators, an index);
    for a non-scanning coder the sequence is moreover only iterated.  Then one evaluation per unit value (x state) is complete."""
    helpers, work = {}, [f]
    while work:
        cur = work.pop()
        for c in ast.walk(cur):
            if isinstance(c, ast.Call) and isinstance(c.func, ast.Name):
                h = next((st for st in mod.tree.body if isinstance(st, ast.FunctionDef) and st.name == c.func.id), None)
                if h is not None and h.name not in helpers and h is not f:
                    helpers[h.name] = h
                    work.append(h)
    funcs = [f] + list(helpers.values())
    for fn in funcs:
        for lp in walk_local(fn):
            if isinstance(lp, (ast.For, ast.While)) and any(isinstance(x, (ast.For, ast.While)) and x is not lp for x in ast.walk(lp)):
                return False, f"in {fn.name} a loop nested in the scanning loop reads ahead over an unbounded stretch of the input, so (state x unit) is not the whole domain"
        params = {a.arg for a in fn.args.args}
        loopvars = {n.id for st in walk_local(fn) if isinstance(st, (ast.For, ast.comprehension)) for n in ast.walk(st.target) if isinstance(n, ast.Name)}
        state = {t.id for st in walk_local(fn) if isinstance(st, ast.Assign) for t in st.targets if isinstance(t, ast.Name)
                 and (isinstance(st.value, (ast.List, ast.Constant)) or (isinstance(st.value, ast.Call) and not st.value.args))}
        state |= {st.target.id for st in walk_local(fn) if isinstance(st, ast.AugAssign) and isinstance(st.target, ast.Name)}
        ok, why = domain_argument([fn], inputs=params | loopvars, state=state, helpers=set(helpers) | {"groupby", "reduce", "memory_cast", "memoryview"})
        if not ok:
            return False, why
    if seq_param is not None and not scanner:
        ok, why = reads_param_unitwise([f], seq_param)
        if not ok:
            return False, why
    return True, "branch decisions read only the current unit, constants and the coder's own state" + ("; the input is only iterated" if seq_param and not scanner else "")


def _dotted(node):
    parts = []
    while isinstance(node, ast.Attribute):
        parts.append(node.attr)
        node = node.value
    if isinstance(node, ast.Name):
        parts.append(node.id)
        return ".".join(reversed(parts))
    return None


def _call(fn, *args):
    """(value, None) or (None, text describing the exception the evaluated repository function raises)."""
    try:
        return fn(*args), None
    except Raised as e:
        return None, str(e)
    except BlockRaised as e:
        return None, repr(e.exc)


def _as_text(v):
    return v.decode("latin-1") if isinstance(v, (bytes, bytearray)) else v


def _check_xtext(ctx):
    env0 = module_env(ctx.mod(SMTP))
    f = ctx.func(SMTP, "xtext_encode")
    q = "twisted.mail.smtp.xtext_encode"
    smod = ctx.mod(SMTP)
    enc = interp(f, FollowModule(smod, dict(COMPAT), env0), env0)
    ex_enc, why_enc = _unit_argument(smod, f, f.args.args[0].arg)
    if not ex_enc:
        ctx.note(f"{q}: domain argument not established ({why_enc}); the per-byte evaluation is bounded evidence")
    outs = {}
    for v in range(256):
        got, err = _call(enc, bytes([v]))
        if err is not None:
            raise AnalysisError(f"{q}: evaluation raises for byte 0x{v:02x}: {err}")
        if not (isinstance(got, tuple) and len(got) == 2 and isinstance(got[0], (bytes, bytearray))):
            raise AnalysisError(f"{q}: result shape {got!r}")
        outs[v] = bytes(got[0])
    escaped = {v for v in range(256) if outs[v] != bytes([v])}
    want_escaped = set(range(256)) - XCHAR
    missing, extra = want_escaped - escaped, escaped - want_escaped
    ctx.check(not missing, kinded("xtext/escape-set", ex_enc), q + " | bytes that must be escaped",
              f"bytes {fmt_set(missing)} ({bytes(sorted(missing))[:8]!r}) are emitted raw; RFC 3461 xtext allows raw only 0x21-0x7E except '+' and '=' "
              "(a raw '+' is then read back as the start of a hex escape)", detail="all 256 byte values; " + why_enc)
    ctx.check(not extra, kinded("xtext/escape-set", ex_enc), q + " | bytes that must stay raw",
              f"xchar bytes {fmt_set(extra)} are not emitted as themselves")
    bad = [v for v in sorted(escaped & want_escaped) if outs[v] != _xtext_ref(v)]
    ctx.check(not bad, kinded("xtext/escape-form", ex_enc), q + " | '+' HEXDIG HEXDIG",
              bad and f"byte 0x{bad[0]:02x} is escaped as {outs[bad[0]]!r}; RFC 3461 hexchar is '+' followed by exactly two upper-case hex digits ({_xtext_ref(bad[0])!r})")
    bad = None
    for text in (b"", b"a+", b"+=\x00\xff~!", b"ab cd"):
        got, err = _call(enc, text)
        want = (b"".join(_xtext_ref(b) for b in text), len(text))
        if err is not None or (bytes(got[0]), got[1]) != want:
            bad = (text, got if err is None else err, want)
            break
    ctx.check(bad is None, "xtext/result", q + " | (joined units, input length)",
              bad and f"xtext_encode({bad[0]!r}) gives {bad[1]!r}; the codec contract is {bad[2]!r}")

    # ---- decoder on every encoded unit, with continuations
    f = ctx.func(SMTP, "xtext_decode")
    q = "twisted.mail.smtp.xtext_decode"
    dec = interp(f, FollowModule(smod, dict(COMPAT), env0), env0)
    ex_dec, why_dec = _unit_argument(smod, f, f.args.args[0].arg, scanner=True)
    if not ex_dec:
        ctx.note(f"{q}: domain argument not established ({why_dec}); the per-unit evaluation is bounded evidence")
    bad_val = bad_len = None
    for v in range(256):
        unit = _xtext_ref(v)
        for tail, tail_text in ((b"", ""), (b"41", "41"), (b"+41z", "Az"), (b"a+2B", "a+"), (b"%41", "%41"), (b"a%2B%", "a%2B%"), (b"%+25", "%%")):
            got, err = _call(dec, unit + tail)
            if err is not None:
                bad_val = bad_val or (v, unit + tail, err)
                continue
            text = _as_text(got[0]) if isinstance(got, tuple) and len(got) == 2 else None
            if text != chr(v) + tail_text and bad_val is None:
                bad_val = (v, unit + tail, got)
            if isinstance(got, tuple) and len(got) == 2 and got[1] != len(unit + tail) and bad_len is None:
                bad_len = (v, unit + tail, got)
    ctx.check(bad_val is None, kinded("xtext/decode-inverts", ex_dec), q + " | value",
              bad_val and f"decoding {bad_val[1]!r} gives {bad_val[2]!r}; the first unit encodes byte 0x{bad_val[0]:02x} and the rest must be framed after exactly that unit",
              detail="every encoded unit (the complete image of the per-byte encoder) x 7 continuations; " + why_dec)
    ctx.check(bad_len is None, kinded("xtext/decode-inverts", ex_dec), q + " | consumed length",
              bad_len and f"decoding {bad_len[1]!r} reports {bad_len[2][1]} consumed units instead of {len(bad_len[1])}")


# ---- modified UTF-7 ---------------------------------------------------------------------------------------------

def _marker(x):
    return b"<" + x.encode("utf-16-be").hex().encode("ascii") + b">"      # opaque, injective model of the base64 helper


def _check_utf7_encoder(ctx):
    mod = ctx.mod(IMAP)
    f = ctx.func(IMAP, "encoder")
    q = "twisted.mail.imap4.encoder"
    helper = "modified_base64"
    ctx.need(isinstance(mod.find(helper), ast.FunctionDef), f"imap4.{helper}")
    menv = module_env(mod)
    enc = interp(f, FollowModule(mod, {**COMPAT, helper: _marker}, menv), menv)

    ex_u7, why_u7 = _unit_argument(mod, f, f.args.args[0].arg)
    if not ex_u7:
        ctx.note(f"{q}: domain argument not established ({why_u7}); the per-character / per-state evaluation is bounded evidence")

    def run(text):
        got, err = _call(enc, text)
        if err is not None:
            raise AnalysisError(f"{q}: evaluation raises for {text!r}: {err}")
        if not (isinstance(got, tuple) and len(got) == 2 and isinstance(got[0], (bytes, bytearray))):
            raise AnalysisError(f"{q}: result shape {got!r}")
        return bytes(got[0])

    direct, amp, routed, other = set(), set(), set(), {}
    cps = list(range(0x80)) + SAMPLE_NON_ASCII
    for cp in cps:
        o = run(chr(cp))
        if o == b"&" + _marker(chr(cp)) + b"-":
            routed.add(cp)
        elif cp < 0x80 and o == bytes([cp]):
            direct.add(cp)
        elif o == b"&-":
            amp.add(cp)
        else:
            other[cp] = o
    ctx.check(not other, kinded("utf7/unit-classes", ex_u7), q + " | per-character output",
              other and f"code point U+{min(other):04X} alone is encoded as {other[min(other)]!r}: neither itself, '&-' nor '&' base64 '-'")
    want_direct = PRINTABLE - {ord("&")}
    ctx.check(direct == want_direct, kinded("utf7/direct-set", ex_u7), q + " | characters that represent themselves",
              f"characters emitted as themselves differ from RFC 3501 5.1.3 (printable US-ASCII except '&') on {fmt_set(direct ^ want_direct)}"
              + ("; a literal '&' is read back as a shift into base64" if ord("&") in direct else ""), detail=f"every ASCII character + {len(SAMPLE_NON_ASCII)} representatives of the single 'other' class; " + why_u7)
    ctx.check(amp == {ord("&")}, kinded("utf7/ampersand", ex_u7), q + " | '&' -> '&-'", f"the set of characters encoded as '&-' is {fmt_set(amp)}, must be exactly '&'")

    # the base64 helper, evaluated (the stdlib utf-7 / base64 codecs are delegated to CPython, the repository code is interpreted):
    # for every run of routed characters it must produce RFC 3501 modified base64 of the run's UTF-16BE form.  F41b: characters the
    # stdlib utf-7 encoder emits directly come back without the '+' / '-' wrapper the helper removes.
    hf = ctx.func(IMAP, helper)
    hq = f"twisted.mail.imap4.{helper}"
    helper_fn = interp(hf, FollowModule(mod, dict(COMPAT), menv), menv)

    def ref_mb64(t):
        return base64.b64encode(t.encode("utf-16-be")).rstrip(b"=").replace(b"/", b",")
    runs = [chr(cp) for cp in sorted(routed)]
    runs += ["", "ﬁ", "ﯿ", "ﬁle", "�", "éé¾", "ééÿ", "\U0001f600", "\x00\x01", "é\x01", "€é",
             "é\n", "\té", "\r\n", "ﬁﬁ¾"]
    # payloads longer than one line of a line-wrapping base64 encoder (57 input bytes = 29 BMP / 15 astral characters), and several lines
    runs += ["é" * k for k in (28, 29, 30, 57, 58, 100)] + ["\U0001f600" * k for k in (14, 15, 16, 40)] + ["€\x01" * 20, "\x00" * 60]
    bad_direct = bad_payload = None
    for t in runs:
        got, err = _call(helper_fn, t)
        if err is not None:
            got = f"<raises {err}>"
        if got == ref_mb64(t):
            continue
        if any(ord(ch) in UTF7_DIRECT for ch in t):
            bad_direct = bad_direct or (t, got)
        else:
            bad_payload = bad_payload or (t, got)
    ctx.check(bad_direct is None, "utf7/routed-disjoint-from-codec-direct", f"{hq} | <routed characters the utf-7 codec emits directly>",
              bad_direct and f"{helper}({bad_direct[0]!r}) gives {bad_direct[1]!r} instead of {ref_mb64(bad_direct[0])!r}: the character is routed to the base64 helper, but "
              "the stdlib utf-7 encoder emits it directly (no '+' / '-' wrapper), so removing the wrapper cuts payload: the character is lost or turned into '&'",
              detail=f"routed ASCII: {fmt_set(routed & set(range(0x80)))}")
    ctx.check(bad_payload is None, "utf7/helper-payload", f"{hq} | modified base64 of a routed run",
              bad_payload and f"{helper}({bad_payload[0]!r}) gives {bad_payload[1]!r}; RFC 3501 modified base64 of the run is {ref_mb64(bad_payload[0])!r} "
              "('+' and ',' are base64 digits: they may start or end the payload and must survive the removal of the utf-7 wrapper)", detail=f"{len(runs)} runs")

    # structural: the payload comes from a base64 encoder that does not insert line breaks (or every line break is removed again)
    wrapping = {"encodebytes", "base64.encodebytes", "encodestring", "base64.encodestring", "b2a_uu", "binascii.b2a_uu"}
    hfuncs = [hf] + [st for st in mod.tree.body if isinstance(st, ast.FunctionDef) and st is not hf and any(isinstance(c, ast.Call) and isinstance(c.func, ast.Name) and c.func.id == st.name for c in ast.walk(hf))]
    wraps = [c for fn in hfuncs for c in ast.walk(fn) if isinstance(c, ast.Call) and ((_dotted(c.func) or "") in wrapping or
             ((_dotted(c.func) or "") in ("codecs.encode",) and len(c.args) > 1 and isinstance(c.args[1], ast.Constant) and "base64" in str(c.args[1].value).lower()))]
    removes_breaks = any(isinstance(c, ast.Call) and isinstance(c.func, ast.Attribute) and c.func.attr in ("replace", "translate") and c.args
                         and isinstance(c.args[0], ast.Constant) and c.args[0].value in (b"\n", "\n") for fn in hfuncs for c in ast.walk(fn))
    for c in wraps:
        ctx.check(removes_breaks, "utf7/helper-encoder-does-not-wrap", f"{hq} | {_dotted(c.func)}(...)",
                  f"{_dotted(c.func)} inserts a line feed after every 57 input bytes and the helper only strips trailing characters: a run of 29 or more BMP (15 astral) characters puts a "
                  "raw LF inside the '&...-' sequence, which is neither printable ASCII nor decodable")
    if not wraps:
        ctx.ok("utf7/helper-encoder-does-not-wrap", hq, "no line-wrapping base64 encoder is used for the payload")
    # the real encoder (real helper) only ever emits printable ASCII - short and long runs (bounded evidence: run lengths are unbounded)
    real_enc = interp(f, FollowModule(mod, dict(COMPAT), menv), menv)
    bad_out = None
    for t in ["", "a&b", "é", "a" + "é" * 29 + "b", "é" * 58 + "&" + "\U0001f600" * 15, "\x00" * 60 + "~", "tab\there", "€" * 100]:
        got, err = _call(real_enc, t)
        if err is not None:
            raise AnalysisError(f"{q}: evaluation raises for a {len(t)}-character text: {err}")
        odd = sorted({b for b in bytes(got[0]) if not 0x20 <= b <= 0x7E})
        if odd and bad_out is None:
            bad_out = (t if len(t) < 24 else t[:12] + "..." + f"({len(t)} characters)", odd)
    ctx.check(bad_out is None, "utf7/output-printable-ascii", q + " | encoded form is printable ASCII",
              bad_out and f"the encoding of {bad_out[0]!r} contains the byte(s) {bad_out[1]!r}: RFC 3501 mailbox names are printable US-ASCII only", detail="8 texts incl. runs of 29-100 routed characters")
    # shift discipline on whole inputs (E = U+00E9, U = U+20AC are routed, 'a' is direct)
    E, U = "é", "€"

    def sh(t):
        return b"&" + _marker(t) + b"-"
    for rule, case, text, want in (
            ("utf7/flush-before-direct", "pending then direct character", E + U + "a", sh(E + U) + b"a"),
            ("utf7/flush-before-direct", "pending then '&'", E + U + "&", sh(E + U) + b"&-"),
            ("utf7/pending-cleared-after-flush", "direct character between two runs", E + "a" + U, sh(E) + b"a" + sh(U)),
            ("utf7/pending-cleared-after-flush", "'&' between two runs", E + "&" + U, sh(E) + b"&-" + sh(U)),
            ("utf7/flush-at-end", "input ending in a routed run", "a" + E + U, b"a" + sh(E + U)),
            ("utf7/flush-at-end", "nothing pending at the end", "ab", b"ab"),
            ("utf7/flush-at-end", "empty input", "", b""),
            ("utf7/unit-classes", "consecutive routed characters share one shift sequence", E + U + E, sh(E + U + E))):
        got = run(text)
        ctx.check(got == want, kinded(rule, ex_u7), f"{q} | {case}", f"{text!r} is encoded as {got!r}; required {want!r} (shift in with '&', base64 of the whole run, shift out with '-')")
    got, err = _call(enc, E + "ab")
    ctx.check(err is None and got[1] == 3, kinded("utf7/unit-classes", ex_u7), q + " | consumed length", f"encoder reports {got[1] if err is None else err} consumed characters for a 3-character input")


def _check_b64_helpers(ctx):
    dec = ctx.func(IMAP, "modified_unbase64")
    q = "twisted.mail.imap4.modified_unbase64"
    imod = ctx.mod(IMAP)
    ienv = module_env(imod)
    unb = interp(dec, FollowModule(imod, dict(COMPAT), ienv), ienv)
    bad = None
    runs = ["é", "€é", "ééÿ", "éé¾", "ﬁ", "�", "\U0001f600", "\x00\x01", "\x7f", "ﬁle"]
    for t in runs:
        payload = base64.b64encode(t.encode("utf-16-be")).rstrip(b"=").replace(b"/", b",")
        got, err = _call(unb, payload)
        if err is not None or got != t:
            bad = (t, payload, got if err is None else err)
            break
    ctx.check(bad is None, "utf7/base64-alphabet", q + " | inverse of modified base64",
              bad and f"modified_unbase64({bad[1]!r}) gives {bad[2]!r}; the payload is the modified base64 (',' for '/', no padding) of {bad[0]!r}", detail=f"{len(runs)} runs")


MODIFIED_B64_DIGITS = set(b"ABCDEFGHIJKLMNOPQRSTUVWXYZabcdefghijklmnopqrstuvwxyz0123456789+,")     # RFC 3501 5.1.3


def _check_utf7_alphabet(ctx):
    """Writer/reader agreement on the modified BASE64 alphabet, and a round trip through the real coder on texts that together use all 64 digits."""
    import re._parser as sp, re._constants as sc          # noqa: E401
    mod = ctx.mod(IMAP)
    menv = module_env(mod)
    fdec = ctx.func(IMAP, "decoder")
    q = "twisted.mail.imap4.decoder"
    # structural: every character class a decoder-side pattern repeats over, inside a shift sequence, contains all 64 digits
    funcs_ = [fdec] + [st for st in mod.tree.body if isinstance(st, ast.FunctionDef) and st is not fdec
                       and any(isinstance(c, ast.Call) and isinstance(c.func, ast.Name) and c.func.id == st.name for c in ast.walk(fdec))]
    patterns = sorted({n.id for fn in funcs_ for n in ast.walk(fn) if isinstance(n, ast.Name) and isinstance(menv.get(n.id), re.Pattern)})
    n_classes = 0
    for pn in patterns:
        pat = menv[pn].pattern
        text = pat.decode("latin-1") if isinstance(pat, bytes) else pat
        if "&" not in text:
            continue

        def classes(items):
            for op, arg in items:
                if op in (sc.MAX_REPEAT, sc.MIN_REPEAT):
                    sub = list(arg[2])
                    if len(sub) == 1 and sub[0][0] is sc.IN:
                        neg = any(o is sc.NEGATE for o, _ in sub[0][1])
                        members = set()
                        for o, a_ in sub[0][1]:
                            if o is sc.LITERAL:
                                members.add(a_)
                            elif o is sc.RANGE:
                                members.update(range(a_[0], a_[1] + 1))
                            elif o is sc.CATEGORY:
                                members = None
                                break
                        if members is not None:
                            yield (set(range(256)) - members) if neg else members
                    yield from classes(sub)
                elif op is sc.SUBPATTERN:
                    yield from classes(list(arg[3]))
                elif op is sc.BRANCH:
                    for br in arg[1]:
                        yield from classes(list(br))
        for members in classes(list(sp.parse(text))):
            n_classes += 1
            missing = sorted(MODIFIED_B64_DIGITS - members)
            ctx.check(not missing or not (members & MODIFIED_B64_DIGITS), "utf7/decoder-alphabet-covers-encoder", f"twisted.mail.imap4.{pn} | character class of the shifted payload",
                      f"the decoder's pattern {text!r} accepts a payload alphabet that lacks the modified BASE64 digit(s) {bytes(missing)!r}: a shift sequence containing one is cut short "
                      "(the encoder can emit all 64 digits A-Z a-z 0-9 '+' ',')")
    if not n_classes:
        ctx.ok("utf7/decoder-alphabet-covers-encoder", q, "the decoder does not restrict the payload alphabet by a pattern (every unit up to '-' is payload)")
    # bounded, with an alphabet-coverage argument: texts whose encodings together contain every one of the 64 digits
    enc = interp(ctx.func(IMAP, "encoder"), FollowModule(mod, dict(COMPAT), menv), menv)
    dfuncs = FollowModule(mod, dict(COMPAT), menv)
    dfuncs["memory_cast"] = lambda mv, fmt: mv.cast(fmt)
    dec = interp(fdec, dfuncs, menv)
    texts, seen = [], set()
    for cp in list(range(0xA0, 0x400)) + list(range(0xF800, 0xFC00, 7)) + [0xFB01, 0x20AC, 0xFFFD, 0x1F600]:
        payload = base64.b64encode(chr(cp).encode("utf-16-be")).rstrip(b"=").replace(b"/", b",")
        if set(payload) - seen:
            seen |= set(payload)
            texts.append(chr(cp))
        if seen >= MODIFIED_B64_DIGITS:
            break
    if not seen >= MODIFIED_B64_DIGITS:
        raise AnalysisError("C41: candidate code points do not cover the 64 modified BASE64 digits")
    texts += ["".join(texts), "a" + texts[0] + "&" + texts[-1] + "-b", "\ufb01le", "\u00fb"]
    bad = None
    for t in texts:
        e, err = _call(enc, t)
        if err is not None:
            raise AnalysisError(f"encoder not evaluable on {t!r}: {err}")
        d, err = _call(dec, bytes(e[0]))
        if err is not None or d[0] != t:
            bad = (t, bytes(e[0]), d[0] if err is None else err)
            break
    ctx.check(bad is None, "utf7/roundtrip-covers-base64-alphabet", q + " ~ encoder | texts using all 64 digits",
              bad and f"{bad[0]!r} is encoded as {bad[1]!r} and decoded back as {bad[2]!r}",
              detail=f"{len(texts)} texts; their shifted payloads together contain every one of the 64 modified BASE64 digits (incl. '+' and ',')")


def _check_utf7_decoder(ctx):
    mod = ctx.mod(IMAP)
    f = ctx.func(IMAP, "decoder")
    q = "twisted.mail.imap4.decoder"
    denv = module_env(mod)
    funcs = FollowModule(mod, dict(COMPAT), denv)
    funcs["modified_unbase64"] = lambda b: "<" + bytes(b).decode("ascii") + ">"
    funcs["memory_cast"] = lambda mv, fmt: mv.cast(fmt)       # imap4.memory_cast is memoryview.cast: units become one-byte bytes objects, slices stay memoryviews
    dec = interp(f, funcs, denv)
    ex_d7, why_d7 = _unit_argument(mod, f, f.args.args[0].arg, scanner=True)
    if not ex_d7:
        ctx.note(f"{q}: domain argument not established ({why_d7}); the transition cases are bounded evidence")
    cases = [
        ("direct text", b"ab-c", "ab-c"), ("'&-' is a literal ampersand", b"a&-b", "a&b"), ("shift sequence", b"&AOk-", "<AOk>"),
        ("shift sequence of one sextet group", b"&A-", "<A>"), ("shift sequence between direct text", b"x&AOk-y", "x<AOk>y"),
        ("',' and '+' inside a shift sequence are payload", b"&A,+-", "<A,+>"),
        ("'-' outside a shift sequence is itself", b"-a-", "-a-"), ("two shift sequences", b"&AOk-&-&IKw-", "<AOk>&<IKw>"), ("empty input", b"", ""),
    ]
    for case, data, want in cases:
        got, err = _call(dec, data)
        ok = err is None and isinstance(got, tuple) and len(got) == 2 and got[0] == want and got[1] == len(data)
        ctx.check(ok, kinded("utf7/decoder-transitions", ex_d7), f"{q} | {case}",
                  f"decoder({data!r}) gives {(got if err is None else err)!r}; RFC 3501 modified UTF-7 requires ({want!r}, {len(data)}) (<...> stands for the base64 payload handed to modified_unbase64)")


def check(ctx):
    with sect(ctx, "xtext"):
        _check_xtext(ctx)
    with sect(ctx, "utf-7 encoder"):
        _check_utf7_encoder(ctx)
    with sect(ctx, "modified base64 helpers"):
        _check_b64_helpers(ctx)
    with sect(ctx, "utf-7 alphabet agreement"):
        _check_utf7_alphabet(ctx)
    with sect(ctx, "utf-7 decoder"):
        _check_utf7_decoder(ctx)


_XT = '        if o == ord("+") or o == ord("=") or o < 33 or o > 126:\n'
MUTANTS = [
    Mutant('regex-decoder-alphabet-without-comma', IMAP, '    r = []\n    decode = []\n    s = memory_cast(memoryview(s), "c")\n    for c in s:\n        if c == b"&" and not decode:\n            decode.append(b"&")\n        elif c == b"-" and decode:\n            if len(decode) == 1:\n                r.append("&")\n            else:\n                r.append(modified_unbase64(b"".join(decode[1:])))\n            decode = []\n        elif decode:\n            decode.append(c)\n        else:\n            r.append(c.decode())\n    if decode:\n        r.append(modified_unbase64(b"".join(decode[1:])))\n    return ("".join(r), len(s))\n', '    raw = bytes(s)\n    out = []\n    last = 0\n    for m in _SHIFTED.finditer(raw):\n        out.append(raw[last : m.start()].decode())\n        out.append(modified_unbase64(m.group(1)) if m.group(1) else "&")\n        last = m.end()\n    out.append(raw[last:].decode())\n    return ("".join(out), len(s))\n', more=[(IMAP, 'def decoder(s, errors=None):\n', '_SHIFTED = re.compile(rb"&([A-Za-z0-9+/]*)-?")\n\n\ndef decoder(s, errors=None):\n')], expect_rule='utf7/decoder-alphabet-covers-encoder'),
    Mutant('payload-coder-class-strips-both-ends', IMAP, '    s_utf16 = s.encode("utf-16-be")\n    return binascii.b2a_base64(s_utf16).rstrip(b"\\n=").replace(b"/", b",")\n', '    coder = _PayloadCoder()\n    coder.feed(s)\n    return coder.finish()\n', more=[(IMAP, 'def modified_base64(s):\n', 'class _PayloadCoder:\n    def __init__(self):\n        self.parts = []\n\n    def feed(self, text):\n        self.parts.append(binascii.b2a_base64(text.encode("utf-16-be")))\n\n    def finish(self):\n        return b"".join(self.parts).strip(b"\\n=+").replace(b"/", b",")\n\n\ndef modified_base64(s):\n')], expect_rule='utf7/helper-payload'),
    Mutant("F41a-revert-str-literals", SMTP, _XT, '        if ch == "+" or ch == "=" or o < 33 or o > 126:\n', expect_rule="xtext/escape-set"),
    Mutant("xtext-del-raw", SMTP, _XT, '        if o == ord("+") or o == ord("=") or o < 33 or o > 127:\n', expect_rule="xtext/escape-set"),
    Mutant("xtext-space-raw", SMTP, _XT, '        if o == ord("+") or o == ord("=") or o < 32 or o > 126:\n', expect_rule="xtext/escape-set"),
    Mutant("xtext-equals-raw", SMTP, _XT, '        if o == ord("+") or o < 33 or o > 126:\n', expect_rule="xtext/escape-set"),
    Mutant("xtext-lowercase-hex", SMTP, 'networkString(f"+{o:02X}")', 'networkString(f"+{o:02x}")', expect_rule="xtext/escape-form"),
    Mutant("xtext-unpadded-hex", SMTP, 'networkString(f"+{o:02X}")', 'networkString(f"+{o:X}")', expect_rule="xtext/escape-form"),
    Mutant("xtext-decode-short-advance", SMTP, "                r.append(ord(s[i : i + 3]))\n            i += 3\n", "                r.append(ord(s[i : i + 3]))\n            i += 2\n",
           expect_rule="xtext/decode-inverts"),
    Mutant("xtext-decode-one-digit", SMTP, "int(bytes(s[i + 1 : i + 3]), 16)", "int(bytes(s[i + 1 : i + 2]), 16)", expect_rule="xtext/decode-inverts"),
    Mutant("xtext-decode-via-percent-unquoting", SMTP, "    r = []\n    i = 0\n    while i < len(s):\n        if s[i : i + 1] == b\"+\":\n",
           "    from urllib.parse import unquote_to_bytes\n\n    return (unquote_to_bytes(bytes(s).replace(b\"+\", b\"%\")).decode(\"latin-1\"), len(s))\n    r = []\n    i = 0\n    while i < len(s):\n        if s[i : i + 1] == b\"+\":\n",
           expect_rule="xtext/decode-inverts"),
    Mutant("utf7-ampersand-valid", IMAP, '    valid_chars = set(map(chr, range(0x20, 0x7F))) - {"&"}\n', '    valid_chars = set(map(chr, range(0x20, 0x7F)))\n', expect_rule="utf7/"),
    Mutant("utf7-del-direct", IMAP, '    valid_chars = set(map(chr, range(0x20, 0x7F))) - {"&"}\n', '    valid_chars = set(map(chr, range(0x20, 0x80))) - {"&"}\n', expect_rule="utf7/direct-set"),
    Mutant("utf7-space-routed", IMAP, '    valid_chars = set(map(chr, range(0x20, 0x7F))) - {"&"}\n', '    valid_chars = set(map(chr, range(0x21, 0x7F))) - {"&"}\n', expect_rule="utf7/"),
    Mutant("utf7-pending-not-cleared-on-amp", IMAP, '                del _in[:]\n            r += b"&-"\n', '            r += b"&-"\n', expect_rule="utf7/pending-cleared-after-flush"),
    Mutant("utf7-no-flush-before-amp", IMAP, '        elif c == "&":\n            if _in:\n                r += b"&" + modified_base64("".join(_in)) + b"-"\n                del _in[:]\n            r += b"&-"\n',
           '        elif c == "&":\n            r += b"&-"\n', expect_rule="utf7/flush-before-direct"),
    Mutant("utf7-unclosed-final-shift", IMAP, '    if _in:\n        r.extend(b"&" + modified_base64("".join(_in)) + b"-")\n', '    if _in:\n        r.extend(b"&" + modified_base64("".join(_in)))\n',
           expect_rule="utf7/flush-at-end"),
    Mutant("utf7-unbase64-not-inverse", IMAP, '    s_utf7 = b"+" + s.replace(b",", b"/") + b"-"\n', '    s_utf7 = b"+" + s.replace(b".", b"/") + b"-"\n', expect_rule="utf7/base64-alphabet"),
    Mutant('F41b-revert-utf7-codec-slice', IMAP, '    s_utf16 = s.encode("utf-16-be")\n    return binascii.b2a_base64(s_utf16).rstrip(b"\\n=").replace(b"/", b",")\n', '    s_utf7 = s.encode("utf-7")\n    return s_utf7[1:-1].replace(b"/", b",")\n', expect_rule='utf7/routed-disjoint-from-codec-direct'),
    Mutant('base64-padding-stripped-at-both-ends', IMAP, 'binascii.b2a_base64(s_utf16).rstrip(b"\\n=")', 'binascii.b2a_base64(s_utf16).strip(b"\\n=+")', expect_rule='utf7/helper-payload'),
    Mutant('base64-slash-not-substituted', IMAP, 'rstrip(b"\\n=").replace(b"/", b",")\n', 'rstrip(b"\\n=")\n', expect_rule='utf7/'),
    Mutant("payload-from-line-wrapping-encoder", IMAP, "binascii.b2a_base64(s_utf16).rstrip(", "encodebytes(s_utf16).rstrip(", expect_rule="utf7/helper-"),
    Mutant("payload-from-codecs-base64", IMAP, "binascii.b2a_base64(s_utf16).rstrip(", "codecs.encode(s_utf16, \"base64\").rstrip(", expect_rule="utf7/helper-encoder-does-not-wrap"),
    Mutant("utf7-decoder-ampdash-miscount", IMAP, "            if len(decode) == 1:\n", "            if len(decode) <= 2:\n", expect_rule="utf7/decoder-transitions"),
    Mutant("utf7-decoder-shift-char-kept", IMAP, '                r.append(modified_unbase64(b"".join(decode[1:])))\n            decode = []\n',
           '                r.append(modified_unbase64(b"".join(decode)))\n            decode = []\n', expect_rule="utf7/decoder-transitions"),
    Mutant("utf7-decoder-dash-direct", IMAP, '        elif c == b"-" and decode:\n', '        elif c == b"-":\n', expect_rule="utf7/decoder-transitions"),
]
SILENT = [
    Silent('regex-decoder-with-the-full-alphabet', IMAP, '    r = []\n    decode = []\n    s = memory_cast(memoryview(s), "c")\n    for c in s:\n        if c == b"&" and not decode:\n            decode.append(b"&")\n        elif c == b"-" and decode:\n            if len(decode) == 1:\n                r.append("&")\n            else:\n                r.append(modified_unbase64(b"".join(decode[1:])))\n            decode = []\n        elif decode:\n            decode.append(c)\n        else:\n            r.append(c.decode())\n    if decode:\n        r.append(modified_unbase64(b"".join(decode[1:])))\n    return ("".join(r), len(s))\n', '    raw = bytes(s)\n    out = []\n    last = 0\n    for m in _SHIFTED.finditer(raw):\n        out.append(raw[last : m.start()].decode())\n        out.append(modified_unbase64(m.group(1)) if m.group(1) else "&")\n        last = m.end()\n    out.append(raw[last:].decode())\n    return ("".join(out), len(s))\n', more=[(IMAP, 'def decoder(s, errors=None):\n', '_SHIFTED = re.compile(rb"&([A-Za-z0-9+,]*)-?")\n\n\ndef decoder(s, errors=None):\n')]),
    Silent('regex-decoder-anything-up-to-dash', IMAP, '    r = []\n    decode = []\n    s = memory_cast(memoryview(s), "c")\n    for c in s:\n        if c == b"&" and not decode:\n            decode.append(b"&")\n        elif c == b"-" and decode:\n            if len(decode) == 1:\n                r.append("&")\n            else:\n                r.append(modified_unbase64(b"".join(decode[1:])))\n            decode = []\n        elif decode:\n            decode.append(c)\n        else:\n            r.append(c.decode())\n    if decode:\n        r.append(modified_unbase64(b"".join(decode[1:])))\n    return ("".join(r), len(s))\n', '    raw = bytes(s)\n    out = []\n    last = 0\n    for m in _SHIFTED.finditer(raw):\n        out.append(raw[last : m.start()].decode())\n        out.append(modified_unbase64(m.group(1)) if m.group(1) else "&")\n        last = m.end()\n    out.append(raw[last:].decode())\n    return ("".join(out), len(s))\n', more=[(IMAP, 'def decoder(s, errors=None):\n', '_SHIFTED = re.compile(rb"&([^-]*)-?")\n\n\ndef decoder(s, errors=None):\n')]),
    Silent('payload-through-private-state-class', IMAP, '    s_utf16 = s.encode("utf-16-be")\n    return binascii.b2a_base64(s_utf16).rstrip(b"\\n=").replace(b"/", b",")\n', '    coder = _PayloadCoder()\n    coder.feed(s)\n    return coder.finish()\n', more=[(IMAP, 'def modified_base64(s):\n', 'class _PayloadCoder:\n    def __init__(self):\n        self.parts = []\n\n    def feed(self, text):\n        self.parts.append(binascii.b2a_base64(text.encode("utf-16-be")))\n\n    def finish(self):\n        return b"".join(self.parts).rstrip(b"\\n=").replace(b"/", b",")\n\n\ndef modified_base64(s):\n')]),
    Silent("xtext-set-membership", SMTP, _XT, '        if o in (0x2B, 0x3D) or not 33 <= o <= 126:\n'),
    Silent("xtext-as-comprehension", SMTP, "    r = []\n    for ch in iterbytes(s):\n        o = ord(ch)\n" + _XT +
           '            r.append(networkString(f"+{o:02X}"))\n        else:\n            r.append(bytes((o,)))\n    return (b"".join(r), len(s))\n',
           '    raw = set(range(33, 127)) - {43, 61}\n    return (b"".join(bytes((o,)) if o in raw else b"+%02X" % (o,) for o in s), len(s))\n'),
    Silent("xtext-decode-via-percent-unquoting-protected", SMTP, "    r = []\n    i = 0\n    while i < len(s):\n        if s[i : i + 1] == b\"+\":\n",
           "    from urllib.parse import unquote_to_bytes\n\n    if all(c in b\"0123456789ABCDEFabcdef\" for k in range(len(s)) if s[k : k + 1] == b\"+\" for c in bytes(s[k + 1 : k + 3]).ljust(2, b\"!\")):\n"
           "        return (unquote_to_bytes(bytes(s).replace(b\"%\", b\"%25\").replace(b\"+\", b\"%\")).decode(\"latin-1\"), len(s))\n    r = []\n    i = 0\n    while i < len(s):\n        if s[i : i + 1] == b\"+\":\n"),
    Silent("xtext-predicate-helper", SMTP, _XT, "        if _needsHexchar(o):\n",
           more=[(SMTP, "def xtext_encode(s, errors=None):\n", "def _needsHexchar(o):\n    return o in (43, 61) or not 33 <= o <= 126\n\n\ndef xtext_encode(s, errors=None):\n")]),
    Silent("utf7-direct-set-at-module-level", IMAP, '    valid_chars = set(map(chr, range(0x20, 0x7F))) - {"&"}\n', "    valid_chars = _DIRECT\n",
           more=[(IMAP, "def encoder(s, errors=None):\n", "_DIRECT = frozenset(map(chr, range(0x20, 0x7F))) - {\"&\"}\n\n\ndef encoder(s, errors=None):\n")]),
    Silent("utf7-flush-helper", IMAP, '        elif c == "&":\n            if _in:\n                r += b"&" + modified_base64("".join(_in)) + b"-"\n                del _in[:]\n            r += b"&-"\n',
           '        elif c == "&":\n            r += _shift(_in)\n            del _in[:]\n            r += b"&-"\n',
           more=[(IMAP, "def encoder(s, errors=None):\n", "def _shift(pending):\n    return b\"&\" + modified_base64(\"\".join(pending)) + b\"-\" if pending else b\"\"\n\n\ndef encoder(s, errors=None):\n")]),
    Silent("xtext-percent-format", SMTP, 'networkString(f"+{o:02X}")', 'b"+%02X" % (o,)'),
    Silent("utf7-valid-chars-comprehension", IMAP, '    valid_chars = set(map(chr, range(0x20, 0x7F))) - {"&"}\n', '    valid_chars = {chr(x) for x in range(32, 127) if x != 0x26}\n'),
    Silent('base64-helper-single-expression', IMAP, '    s_utf16 = s.encode("utf-16-be")\n    return binascii.b2a_base64(s_utf16).rstrip(b"\\n=").replace(b"/", b",")\n', '    return binascii.b2a_base64(s.encode("utf-16-be"))[:-1].rstrip(b"=").replace(b"/", b",")\n'),
    Silent('base64-helper-via-base64-module', IMAP, '    s_utf16 = s.encode("utf-16-be")\n    return binascii.b2a_base64(s_utf16).rstrip(b"\\n=").replace(b"/", b",")\n', '    import base64\n\n    return base64.b64encode(s.encode("utf-16-be")).rstrip(b"=").replace(b"/", b",")\n'),
    Silent("payload-from-encodebytes-with-breaks-removed", IMAP, "binascii.b2a_base64(s_utf16).rstrip(b\"\\n=\")", "encodebytes(s_utf16).replace(b\"\\n\", b\"\").rstrip(b\"=\")"),
    Silent("utf7-decoder-reordered-test", IMAP, '        if c == b"&" and not decode:\n', '        if not decode and c == b"&":\n'),
]
