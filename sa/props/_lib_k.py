"""Helpers shared by C55-C58 (batch K): exception-escape analysis with arbitrary-object
values (C55), small structural helpers."""
from __future__ import annotations

import ast
from typing import Dict, List, Optional, Tuple

from sa.astx import FUNC_TYPES, dotted, src
from sa.source import AnalysisError

# ---- value kinds -----------------------------------------------------------------------------
EVENT = "event"      # the event dict itself (a real dict: get / in / items / [guarded key] are total)
HOSTILE = "hostile"  # arbitrary object: attribute access, call, str/repr/format, arithmetic, comparison may raise
TEXT = "text"        # known to be a str
SAFE = "safe"        # trusted / not event-derived (flags, callables given by the caller, library objects)
TYPED = "typed"      # event-derived but established (isinstance) to be of a known library type: its own attributes and
                     # methods are trusted, handing it to another callee is still a may-raise site

_RANK = {TEXT: 0, SAFE: 1, TYPED: 2, EVENT: 3, HOSTILE: 4}
LEVELS = {"none": 0, "exc": 1, "all": 2}


def worst(a: Optional[str], b: Optional[str]) -> str:
    if a is None:
        return b or SAFE
    if b is None:
        return a
    return a if _RANK[a] >= _RANK[b] else b


def handler_names(h: ast.ExceptHandler) -> List[str]:
    if h.type is None:
        return ["BaseException"]
    ts = h.type.elts if isinstance(h.type, ast.Tuple) else [h.type]
    return [(dotted(t) or "?").split(".")[-1] for t in ts]


def handler_reraises(h: ast.ExceptHandler) -> bool:
    """The handler body contains a bare ``raise`` (or re-raises its bound name) outside nested defs/handlers."""
    stack = list(h.body)
    while stack:
        n = stack.pop()
        if isinstance(n, ast.Raise) and (n.exc is None or (isinstance(n.exc, ast.Name) and n.exc.id == h.name)):
            return True
        if isinstance(n, FUNC_TYPES + (ast.ClassDef,)):
            continue
        if isinstance(n, ast.Try):
            # a raise inside an inner try body that is itself caught does not leave; keep it simple: look only
            # at the inner handlers/finally/orelse, not the protected body
            stack.extend(n.orelse + n.finalbody)
            for hh in n.handlers:
                stack.extend(hh.body)
            continue
        stack.extend(ast.iter_child_nodes(n))
    return False


def try_level(t: ast.Try) -> str:
    """What the handlers of this try statement stop: 'all' (BaseException / bare), 'exc' (Exception), 'none'."""
    lvl = "none"
    for h in t.handlers:
        if handler_reraises(h):
            continue
        names = handler_names(h)
        if "BaseException" in names:
            return "all" if LEVELS[lvl] < 2 else lvl
        if "Exception" in names:
            lvl = "exc"
    return lvl


def protection(node: ast.AST, stop: ast.AST) -> str:
    """Strongest catch-all level among the try *bodies* that enclose ``node`` inside function ``stop``."""
    best = "none"
    child = node
    n = getattr(node, "_parent", None)
    while n is not None and child is not stop:
        if isinstance(n, ast.Try) and any(child is s for s in n.body):
            lv = try_level(n)
            if LEVELS[lv] > LEVELS[best]:
                best = lv
        child = n
        n = getattr(n, "_parent", None)
    return best


class Site:
    __slots__ = ("rel", "qual", "node", "op", "level", "why", "text", "fname")

    def __init__(self, rel, qual, node, op, level, why, text="", fname=""):
        self.rel, self.qual, self.node, self.op, self.level, self.why = rel, qual, node, op, level, why
        self.text = text or src(node)     # semantic text: event-derived operands named by their provenance, other locals alpha-renamed
        self.fname = fname


class EscapeAnalysis:
    """May-raise sites on event-derived (arbitrary object) values, interprocedural over named module
    functions, context = (parameter kinds, protection level inherited from the call site)."""

    TOTAL_FUNCS = {"cast", "isinstance", "safe_repr", "safe_str", "callable", "id", "type", "Failure",
                   "PotentialCallWrapper", "CallMapping", "bool"}
    TEXT_FUNCS = {"safe_repr", "safe_str", "str", "repr", "format", "ascii"}
    TEXT_METHODS = {"format", "join", "replace", "decode", "strftime", "vformat", "strip", "lower", "upper",
                    "format_map", "rstrip", "lstrip", "expandtabs"}
    DICT_TOTAL = {"get", "items", "keys", "values", "copy"}

    def __init__(self, ctx, rels: List[str], required_keys=(), typed_keys: Optional[Dict[str, str]] = None):
        self.ctx = ctx
        self.rels = rels
        self.required_keys = set(required_keys)
        self.typed_keys = dict(typed_keys or {})   # key -> kind override for event[key]
        self.sites: Dict[Tuple[str, int], Site] = {}
        self.returns: Dict[Tuple[str, str], List[Tuple[ast.AST, str]]] = {}
        self._memo: Dict[tuple, str] = {}
        self._active: set = set()
        self.assumed_total: set = set()
        self.table_funcs: Dict[str, list] = {}   # local callable name -> [(function node, kind of its argument)] (table-driven dispatch)
        self.callers: Dict[Tuple[str, str], set] = {}   # (rel, function) -> {(rel, calling function)}
        self.entries: set = set()

    def root(self, rel: str, fname: str, _seen=None) -> Tuple[str, str]:
        """The function a site is attributed to: a helper with a single caller counts as inlined into that caller
        (so extracting / inlining a private helper does not rename a construct)."""
        _seen = _seen or set()
        if (rel, fname) in self.entries or (rel, fname) in _seen:
            return rel, fname
        cs = self.callers.get((rel, fname), set()) - {(rel, fname)}
        if len(cs) == 1:
            r2, f2 = next(iter(cs))
            return self.root(r2, f2, _seen | {(rel, fname)})
        return rel, fname

    # ---- resolution --------------------------------------------------------------------------
    def resolve(self, name: str, func: ast.AST, rel: str) -> Optional[Tuple[str, ast.AST]]:
        # a parameter whose default is a module-level function: use the default
        if isinstance(func, (ast.FunctionDef, ast.AsyncFunctionDef)):
            a = func.args
            pos = a.posonlyargs + a.args
            defaults = dict(zip([p.arg for p in pos[len(pos) - len(a.defaults):]], a.defaults))
            defaults.update({p.arg: d for p, d in zip(a.kwonlyargs, a.kw_defaults) if d is not None})
            allp = {p.arg for p in pos + a.kwonlyargs}
            if name in allp:
                d = defaults.get(name)
                if isinstance(d, ast.Name):
                    return self._module_func(d.id, rel)
                return None
        return self._module_func(name, rel)

    def _module_func(self, name: str, rel: str) -> Optional[Tuple[str, ast.AST]]:
        for r in [rel] + [x for x in self.rels if x != rel]:
            m = self.ctx.mod(r)
            f = m.find(name)
            if isinstance(f, (ast.FunctionDef, ast.AsyncFunctionDef)):
                return r, f
        return None

    # ---- driver -------------------------------------------------------------------------------
    def run(self, rel: str, qual: str, kinds: Dict[str, str]) -> str:
        f = self.ctx.func(rel, qual)
        self.entries.add((rel, f.name))
        return self.analyse(rel, f, kinds, "none")

    def analyse(self, rel: str, func: ast.AST, kinds: Dict[str, str], inherited: str, origins: Optional[Dict[str, str]] = None,
                fbind: Optional[Dict[str, tuple]] = None) -> str:
        """``fbind``: parameters of ``func`` that are bound (at this call) to repository functions - calls through them are followed."""
        fbind = dict(fbind or {})
        origins = dict(origins or {})
        for nm, k in kinds.items():
            origins.setdefault(nm, "event" if k == EVENT else f"<arg {nm}>")
        key = (rel, func.name, tuple(sorted(kinds.items())), inherited, tuple(sorted(origins.items())), tuple(sorted((k, v[1].name) for k, v in fbind.items())))
        if key in self._memo:
            return self._memo[key]
        if key in self._active:
            return SAFE
        self._active.add(key)
        w = _FuncWalker(self, rel, func, dict(kinds), inherited, origins)
        w.fbind = fbind
        ret = w.run()
        self._active.discard(key)
        self._memo[key] = ret
        self.returns.setdefault((rel, func.name), [])
        have = {id(n): i for i, (n, _) in enumerate(self.returns[(rel, func.name)])}
        for node, k in w.rets:
            if id(node) in have:
                i = have[id(node)]
                self.returns[(rel, func.name)][i] = (node, worst(self.returns[(rel, func.name)][i][1], k))
            else:
                self.returns[(rel, func.name)].append((node, k))
        return ret

    def add_site(self, rel, qual, node, op, level, why, text="", fname=""):
        k = (rel, id(node), op)
        s = self.sites.get(k)
        if s is None or LEVELS[level] < LEVELS[s.level]:
            self.sites[k] = Site(rel, qual, node, op, level, why, text, fname)


class _FuncWalker:
    def __init__(self, an: EscapeAnalysis, rel: str, func: ast.AST, env: Dict[str, str], inherited: str, origins: Optional[Dict[str, str]] = None):
        self.origin: Dict[str, str] = dict(origins or {})
        self.fbind: Dict[str, tuple] = {}
        self._locals = None
        self.an = an
        self.rel = rel
        self.func = func
        self.qual = an.ctx.mod(rel).qualname(func)
        self.env = env
        self.inherited = inherited
        self.rets: List[Tuple[ast.AST, str]] = []
        self._cfg = None

    # ---- helpers ------------------------------------------------------------------------------
    def level(self, node) -> str:
        loc = protection(node, self.func)
        return loc if LEVELS[loc] >= LEVELS[self.inherited] else self.inherited

    def site(self, node, op, why):
        text = self.label_text(node)
        if op == "truth":
            text = f"bool({text})"
        self.an.add_site(self.rel, self.qual, node, op, self.level(node), why, text, self.func.name)

    def _snap(self):
        return dict(self.env), dict(self.origin)

    def _restore(self, snap):
        self.env, self.origin = dict(snap[0]), dict(snap[1])

    def _join(self, snap):
        """Join the current state with ``snap`` (worst kind wins; a provenance label survives while the name may still be event-derived)."""
        self.env = _merge(snap[0], self.env)
        org = dict(snap[1])
        org.update(self.origin)
        self.origin = {k: v for k, v in org.items() if self.env.get(k) in (HOSTILE, EVENT, TYPED)}

    # ---- provenance labels (stable construct keys) ---------------------------------------------------------
    def local_names(self) -> set:
        if self._locals is None:
            out = set()
            a = self.func.args
            for p in a.posonlyargs + a.args + a.kwonlyargs + ([a.vararg] if a.vararg else []) + ([a.kwarg] if a.kwarg else []):
                out.add(p.arg)
            for n in ast.walk(self.func):
                if isinstance(n, ast.Name) and isinstance(n.ctx, (ast.Store, ast.Del)):
                    out.add(n.id)
                elif isinstance(n, ast.ExceptHandler) and n.name:
                    out.add(n.name)
            self._locals = out
        return self._locals

    def origin_of(self, e) -> Optional[str]:
        """Where an event-derived value comes from, as a label independent of local variable names."""
        if isinstance(e, ast.Name):
            return self.origin.get(e.id)
        if isinstance(e, ast.Call):
            f = e.func
            if isinstance(f, ast.Name) and f.id == "cast" and len(e.args) == 2:
                return self.origin_of(e.args[1])
            if isinstance(f, ast.Attribute) and isinstance(f.value, ast.Name) and self.env.get(f.value.id) == EVENT and f.attr == "get" \
                    and e.args and isinstance(e.args[0], ast.Constant):
                return f"<event[{e.args[0].value!r}]>"
            o = self.origin_of(f)
            return f"{o}()" if o else None
        if isinstance(e, ast.Subscript):
            if isinstance(e.value, ast.Name) and self.env.get(e.value.id) == EVENT and isinstance(e.slice, ast.Constant):
                return f"<event[{e.slice.value!r}]>"
            o = self.origin_of(e.value)
            return f"{o}[...]" if o else None
        if isinstance(e, ast.Attribute):
            o = self.origin_of(e.value)
            return f"{o}.{e.attr}" if o else None
        if isinstance(e, ast.IfExp):
            return self.origin_of(e.body) or self.origin_of(e.orelse)
        if isinstance(e, ast.BoolOp):
            return next((o for o in (self.origin_of(v) for v in e.values) if o), None)
        return None

    def label_text(self, node) -> str:
        alpha: Dict[str, str] = {}
        loc = self.local_names()

        def cp(n):
            if isinstance(n, ast.expr):
                o = self.origin_of(n)
                if o:
                    return ast.Name(id=o, ctx=ast.Load())
                if isinstance(n, ast.Name) and n.id in loc:
                    return ast.Name(id=alpha.setdefault(n.id, f"_{len(alpha) + 1}"), ctx=ast.Load())
            if isinstance(n, FUNC_TYPES + (ast.ClassDef,)):
                return ast.Name(id="<nested def>", ctx=ast.Load())
            new = type(n)()
            for fld, val in ast.iter_fields(n):
                if isinstance(val, list):
                    setattr(new, fld, [cp(x) if isinstance(x, ast.AST) else x for x in val])
                elif isinstance(val, ast.AST):
                    setattr(new, fld, cp(val))
                else:
                    setattr(new, fld, val)
            return new
        try:
            return src(cp(node))
        except Exception:
            return src(node)

    def run(self) -> str:
        for _ in range(2):  # second pass: loop-carried / later-assigned kinds
            self.rets = []
            self.block(self.func.body)
        out = None
        for _, k in self.rets:
            out = worst(out, k)
        return out or SAFE

    def bind(self, target, kind, org: Optional[str] = None):
        if isinstance(target, ast.Name):
            self.env[target.id] = kind
            if kind in (HOSTILE, EVENT, TYPED):
                self.origin[target.id] = org or self.origin.get(target.id) or "<value>"
            else:
                self.origin.pop(target.id, None)
        elif isinstance(target, (ast.Tuple, ast.List)):
            for e in target.elts:
                self.bind(e.value if isinstance(e, ast.Starred) else e, HOSTILE if kind in (HOSTILE, EVENT) else kind, f"<part of {org}>" if org else None)
        elif isinstance(target, (ast.Attribute, ast.Subscript)):
            self.ev(target.value)

    def elem_kind(self, kind):
        return HOSTILE if kind in (HOSTILE, EVENT) else SAFE

    def block(self, stmts):
        for st in stmts:
            self.stmt(st)

    def stmt(self, st):
        if isinstance(st, (ast.FunctionDef, ast.AsyncFunctionDef, ast.ClassDef)):
            self.env[st.name] = SAFE
            return
        if isinstance(st, ast.Assign):
            k = self.ev(st.value)
            for t in st.targets:
                if isinstance(t, (ast.Tuple, ast.List)) and k in (HOSTILE, EVENT):
                    self.site(st, "unpack", "tuple-unpacking an event-derived value")
                self.bind(t, k, self.origin_of(st.value))
            return
        if isinstance(st, ast.AnnAssign):
            if st.value is not None:
                self.bind(st.target, self.ev(st.value), self.origin_of(st.value))
            return
        if isinstance(st, ast.AugAssign):
            k = self.ev(ast.BinOp(left=_load(st.target), op=st.op, right=st.value), at=st)
            self.bind(st.target, k)
            return
        if isinstance(st, ast.Expr):
            self.ev(st.value)
            return
        if isinstance(st, ast.Return):
            k = self.ev(st.value) if st.value is not None else SAFE
            self.rets.append((st, k))
            return
        if isinstance(st, ast.Raise):
            if st.exc is not None:
                self.ev(st.exc)
            # a bare re-raise of KeyboardInterrupt is a documented pass-through, any other explicit raise is a site
            h = _enclosing_handler(st, self.func)
            if not (st.exc is None and h is not None and handler_names(h) == ["KeyboardInterrupt"]):
                self.site(st, "raise", "explicit raise")
            return
        if isinstance(st, ast.If):
            self.ev(st.test, truth=True)
            s0 = self._snap()
            for nm in _isinstance_names(st.test):
                if self.env.get(nm) in (HOSTILE, EVENT):
                    self.env[nm] = _narrow_kind(st.test, nm)
            self.block(st.body)
            s1 = self._snap()
            self._restore(s0)
            neg = _isinstance_names(st.test.operand) if isinstance(st.test, ast.UnaryOp) and isinstance(st.test.op, ast.Not) else []
            for nm in neg:
                if self.env.get(nm) in (HOSTILE, EVENT):
                    self.env[nm] = _narrow_kind(st.test, nm)   # the else branch runs when the isinstance test held
            self.block(st.orelse)
            if _always_exits(st.body):
                return   # `if c: return/raise ...` - only the else state flows on (with x narrowed after `if not isinstance(x, T): return`)
            if _always_exits(st.orelse):
                self._restore(s1)
                return
            self._join(s1)
            return
        if isinstance(st, ast.While):
            self.ev(st.test, truth=True)
            for _ in range(2):
                s0 = self._snap()
                self.block(st.body)
                self._join(s0)
            self.block(st.orelse)
            return
        if isinstance(st, (ast.For, ast.AsyncFor)):
            k = self.ev(st.iter)
            if k == HOSTILE:
                self.site(st.iter, "iterate", "iterating an event-derived value")
            for _ in range(2):
                s0 = self._snap()
                o = self.origin_of(st.iter)
                self.bind(st.target, self.elem_kind(k), f"<item of {o}>" if o else "<item>")
                self.block(st.body)
                self._join(s0)
            self.block(st.orelse)
            return
        if isinstance(st, (ast.With, ast.AsyncWith)):
            for it in st.items:
                k = self.ev(it.context_expr)
                if it.optional_vars is not None:
                    self.bind(it.optional_vars, k)
            self.block(st.body)
            return
        if isinstance(st, ast.Try):
            s0 = self._snap()
            self.block(st.body)
            self.block(st.orelse)
            acc = self._snap()
            for h in st.handlers:
                self._restore(s0)
                self._join(acc)
                if h.name:
                    self.env[h.name] = HOSTILE  # the exception object comes out of arbitrary code
                    self.origin[h.name] = "<caught exception>"
                self.block(h.body)
                if _always_exits(h.body):
                    continue   # a handler that re-raises / returns contributes nothing to the state after the try statement
                self._join(acc)
                acc = self._snap()
            self._restore(acc)
            self.block(st.finalbody)
            return
        if isinstance(st, ast.Assert):
            self.ev(st.test, truth=True)
            return
        if isinstance(st, ast.Delete):
            for t in st.targets:
                self.ev(_load(t))
            return
        # pass / break / continue / import / global
        return

    # ---- expressions --------------------------------------------------------------------------
    def ev(self, e, truth: bool = False, at=None) -> str:
        """Kind of expression ``e``; records may-raise sites.  ``truth``: the value is (also) tested for truthiness, which calls
        __bool__ / __len__ of an arbitrary object (identity tests, comparisons and `key in event` yield plain bools and are safe)."""
        k = self._ev(e, truth, at)
        if truth and k == HOSTILE and e is not None and not isinstance(e, (ast.BoolOp, ast.Compare)) \
                and not (isinstance(e, ast.UnaryOp) and isinstance(e.op, ast.Not)):
            self.site(at or e, "truth", f"truth test of event-derived value {src(e)[:50]} (calls its __bool__ / __len__)")
        return k

    def _ev(self, e, truth: bool = False, at=None) -> str:
        an = self.an
        where = at or e
        if e is None:
            return SAFE
        if isinstance(e, ast.Constant):
            return TEXT if isinstance(e.value, str) else SAFE
        if isinstance(e, ast.Name):
            return self.env.get(e.id, SAFE)
        if isinstance(e, ast.JoinedStr):
            for v in e.values:
                if isinstance(v, ast.FormattedValue):
                    k = self.ev(v.value)
                    if k in (HOSTILE, EVENT):
                        self.site(where, "format", f"f-string formats event-derived value {src(v.value)}")
            return TEXT
        if isinstance(e, (ast.Tuple, ast.List, ast.Set)):
            k = None
            for x in e.elts:
                kx = self.ev(x.value if isinstance(x, ast.Starred) else x)
                k = worst(k, HOSTILE if kx in (HOSTILE, EVENT) else SAFE)
            return HOSTILE if k == HOSTILE else SAFE
        if isinstance(e, ast.Dict):
            k = None
            for x in list(e.keys) + list(e.values):
                if x is not None:
                    kx = self.ev(x)
                    k = worst(k, HOSTILE if kx in (HOSTILE, EVENT) else SAFE)
            return HOSTILE if k == HOSTILE else SAFE
        if isinstance(e, (ast.GeneratorExp, ast.ListComp, ast.SetComp, ast.DictComp)):
            for g in e.generators:
                k = self.ev(g.iter)
                if k == HOSTILE:
                    self.site(g.iter, "iterate", "iterating an event-derived value")
                o = self.origin_of(g.iter)
                self.bind(g.target, self.elem_kind(k), f"<item of {o}>" if o else "<item>")
                for c in g.ifs:
                    self.ev(c, truth=True)
            if isinstance(e, ast.DictComp):
                k = worst(self.ev(e.key), self.ev(e.value))
            else:
                k = self.ev(e.elt)
            return HOSTILE if k in (HOSTILE, EVENT) else SAFE
        if isinstance(e, ast.BoolOp):
            k = None
            saved = dict(self.env)
            for i_, v in enumerate(e.values):
                k = worst(k, self.ev(v, truth=truth or i_ < len(e.values) - 1))
                if isinstance(e.op, ast.And):
                    for nm in _isinstance_names(v):
                        if self.env.get(nm) in (HOSTILE, EVENT):
                            self.env[nm] = TYPED   # later operands run only when the isinstance test held
            for nm in list(self.env):
                if self.env[nm] == TYPED and saved.get(nm) in (HOSTILE, EVENT):
                    self.env[nm] = saved[nm]
            return k
        if isinstance(e, ast.UnaryOp):
            k = self.ev(e.operand, truth=isinstance(e.op, ast.Not))
            if isinstance(e.op, ast.Not):
                return SAFE
            if k in (HOSTILE, EVENT):
                self.site(where, "arith", f"unary operator on event-derived value {src(e.operand)}")
            return k
        if isinstance(e, ast.IfExp):
            self.ev(e.test, truth=True)
            s0 = self._snap()
            for nm in _isinstance_names(e.test):
                if self.env.get(nm) in (HOSTILE, EVENT):
                    self.env[nm] = _narrow_kind(e.test, nm)
            kb = self.ev(e.body)
            self._restore(s0)
            if isinstance(e.test, ast.UnaryOp) and isinstance(e.test.op, ast.Not):
                for nm in _isinstance_names(e.test.operand):
                    if self.env.get(nm) in (HOSTILE, EVENT):
                        self.env[nm] = _narrow_kind(e.test, nm)
            ko = self.ev(e.orelse)
            self._restore(s0)
            return worst(kb, ko)
        if isinstance(e, ast.NamedExpr):
            k = self.ev(e.value)
            self.bind(e.target, k)
            return k
        if isinstance(e, ast.Compare):
            ks = [self.ev(e.left)] + [self.ev(c) for c in e.comparators]
            left = ks[0]
            for op, rk in zip(e.ops, ks[1:]):
                if isinstance(op, (ast.Is, ast.IsNot)):
                    pass
                elif isinstance(op, (ast.In, ast.NotIn)):
                    if rk == HOSTILE or (left == HOSTILE and rk != EVENT and not _is_const(e.left)):
                        self.site(where, "compare", f"membership test involving event-derived value in {src(e)}")
                elif HOSTILE in (left, rk):
                    self.site(where, "compare", f"comparison of event-derived value in {src(e)}")
                left = rk
            return SAFE
        if isinstance(e, ast.BinOp):
            lk, rk = self.ev(e.left), self.ev(e.right)
            if lk in (HOSTILE, EVENT) or rk in (HOSTILE, EVENT):
                self.site(where, "arith", f"operator {type(e.op).__name__} on event-derived operand in {src(e)}")
            if lk == TEXT and (isinstance(e.op, (ast.Add, ast.Mod)) or rk == TEXT):
                return TEXT
            return HOSTILE if (lk in (HOSTILE, EVENT) or rk in (HOSTILE, EVENT)) else SAFE
        if isinstance(e, ast.Attribute):
            k = self.ev(e.value)
            if k == HOSTILE:
                self.site(where, "getattr", f"attribute .{e.attr} read on event-derived value {src(e.value)}")
                return HOSTILE
            return TYPED if k == TYPED else SAFE
        if isinstance(e, ast.Subscript):
            k = self.ev(e.value)
            sk = self.ev(e.slice) if not isinstance(e.slice, ast.Slice) else worst(worst(self.ev(e.slice.lower), self.ev(e.slice.upper)), SAFE)
            if k == EVENT:
                key = e.slice.value if isinstance(e.slice, ast.Constant) else None
                if not (isinstance(key, str) and (key in an.required_keys or self.key_guarded(e, e.value, key))):
                    self.site(where, "getitem", f"{src(e)}: key not established by a dominating `in` test")
                return an.typed_keys.get(key, HOSTILE) if isinstance(key, str) else HOSTILE
            if k == HOSTILE or sk == HOSTILE:
                self.site(where, "getitem", f"subscript on / with event-derived value in {src(e)}")
                return HOSTILE
            return TEXT if k == TEXT else SAFE
        if isinstance(e, ast.Slice):
            return SAFE
        if isinstance(e, ast.Lambda):
            return SAFE
        if isinstance(e, ast.Starred):
            return self.ev(e.value)
        if isinstance(e, ast.Await) or isinstance(e, (ast.Yield, ast.YieldFrom)):
            return self.ev(e.value) if e.value is not None else SAFE
        if isinstance(e, ast.Call):
            return self.call(e, where)
        raise AnalysisError(f"escape analysis: expression {type(e).__name__} not modelled in {self.qual}")

    def key_guarded(self, sub: ast.Subscript, recv: ast.AST, key: str) -> bool:
        """``recv[key]`` is dominated by a true `key in recv` test (CFG dominance with polarity)."""
        if self._cfg is None:
            self._cfg = self.an.ctx.cfg(self.func)
        g = self._cfg
        want = src(recv)

        def pred(t):
            return (isinstance(t, ast.Compare) and len(t.ops) == 1 and isinstance(t.ops[0], (ast.In, ast.NotIn))
                    and isinstance(t.left, ast.Constant) and t.left.value == key and src(t.comparators[0]) == want)
        for n in g.ids_of(sub):
            ok = False
            for t, lab in g.edge_guards(n):
                te = g.node(t).ast
                if pred(te) and ((lab == "T") == isinstance(te.ops[0], ast.In)):
                    ok = True
            if not ok:
                return False
        return True

    def call(self, e: ast.Call, where) -> str:
        an = self.an
        f = e.func
        argk = [self.ev(a) for a in e.args]
        kwk = {k.arg: self.ev(k.value) for k in e.keywords}
        allk = argk + list(kwk.values())
        anyh = any(k in (HOSTILE, EVENT) for k in allk)
        anyt = anyh or any(k == TYPED for k in allk)
        name = f.id if isinstance(f, ast.Name) else None
        if name is not None:
            fk = self.env.get(name, SAFE)
            if fk == HOSTILE:
                self.site(where, "call", f"calling event-derived value {name}()")
                return HOSTILE
            if name == "cast" and len(e.args) == 2:
                return argk[1]
            if name == "map" and len(e.args) == 2 and isinstance(e.args[0], (ast.Name, ast.Attribute)) \
                    and (dotted(e.args[0]) or "").split(".")[-1] in an.TOTAL_FUNCS:
                return SAFE
            if name in an.TOTAL_FUNCS:
                return TEXT if name in an.TEXT_FUNCS else SAFE
            if name == "getattr" and len(e.args) == 3 and argk[0] not in (HOSTILE, EVENT) and argk[1] != HOSTILE:
                return SAFE   # three-argument getattr on a trusted object never raises for a str name
            if name in an.table_funcs:
                out = None
                for fn, kind in an.table_funcs[name]:
                    kinds = {}
                    if fn.args.args and argk:
                        kinds[fn.args.args[0].arg] = kind if argk[0] in (HOSTILE, EVENT, TYPED) else argk[0]
                    out = worst(out, an.analyse(self.rel, fn, {k_: v for k_, v in kinds.items() if v != SAFE}, self.level(e)))
                return out or SAFE
            if name in ("str", "repr", "format", "ascii", "len", "int", "float", "bytes", "iter", "list", "tuple", "dict",
                        "sorted", "hash", "abs", "round", "map", "getattr", "hasattr", "next", "sum", "min", "max", "any", "all"):
                if anyh and not (name in ("list", "tuple", "len", "dict", "iter") and all(k != HOSTILE for k in allk)):
                    self.site(where, "convert", f"{name}() of event-derived value in {src(e)}")
                return TEXT if name in an.TEXT_FUNCS else SAFE
            r = self.fbind.get(name) or an.resolve(name, self.func, self.rel)
            if r is not None:
                return self.call_repo(r, e, argk, kwk)
            if name in self.env and self.env[name] == SAFE and isinstance(an.ctx.mod(self.rel).find(self.qual + "." + name), (ast.FunctionDef,)):
                return self.call_repo((self.rel, an.ctx.mod(self.rel).find(self.qual + "." + name)), e, argk, kwk)
            if anyt:
                self.site(where, "call-out", f"{name}(...) receives an event-derived value")
            return SAFE
        if isinstance(f, ast.Attribute):
            rk = self.ev(f.value)
            m = f.attr
            if rk == HOSTILE:
                self.site(where, "method", f"method .{m}() on event-derived value {src(f.value)}")
                return HOSTILE
            if rk == TYPED:
                total_decode = m == "decode" and ((e.args and isinstance(e.args[0], ast.Constant) and str(e.args[0].value).lower().replace("_", "-") in
                                                   ("charmap", "latin-1", "latin1", "iso-8859-1", "iso8859-1")) or
                                                  any(isinstance(a, ast.Constant) and a.value in ("replace", "ignore", "backslashreplace")
                                                      for a in list(e.args[1:]) + [k.value for k in e.keywords if k.arg == "errors"]))
                if m in ("decode", "encode", "index", "format", "format_map", "pop", "remove") and not total_decode:
                    self.site(where, "method", f"method .{m}() of event-derived value {src(f.value)} can raise for some values of its type")
                return TEXT if m in an.TEXT_METHODS else SAFE
            if rk == EVENT:
                if m in an.DICT_TOTAL:
                    if m == "get":
                        key = e.args[0].value if e.args and isinstance(e.args[0], ast.Constant) else None
                        return an.typed_keys.get(key, HOSTILE)
                    return EVENT  # copy / items / keys / values: iterating them is total, elements are arbitrary
                self.site(where, "method", f"method .{m}() on the event")
                return HOSTILE
            if rk == TEXT:
                if anyh and m in ("format", "join", "format_map", "__mod__"):
                    self.site(where, "format", f"{src(f.value)[:40]}.{m}() formats event-derived values")
                elif anyh:
                    self.site(where, "call-out", f"str.{m}() with event-derived argument")
                return TEXT if m in an.TEXT_METHODS else SAFE
            # method of a trusted object (library / module): container mutators propagate taint into the local
            if m in ("append", "extend", "add", "insert", "appendleft") and isinstance(f.value, ast.Name):
                if anyh:
                    self.env[f.value.id] = HOSTILE
                return SAFE
            d = dotted(f) or ""
            last = d.split(".")[-1]
            if last in an.TOTAL_FUNCS:
                return TEXT if last in an.TEXT_FUNCS else SAFE
            if anyt:
                self.site(where, "call-out", f"{src(f)}(...) receives an event-derived value")
            else:
                an.assumed_total.add(src(f))
            return TEXT if m in an.TEXT_METHODS else SAFE
        # call of a call result etc.
        k = self.ev(f)
        if k == HOSTILE or anyh:
            self.site(where, "call", f"call {src(e)[:60]} involves event-derived values")
        return k if k == HOSTILE else SAFE

    def call_repo(self, target, e: ast.Call, argk, kwk) -> str:
        rel, fn = target
        a = fn.args
        pos = [p.arg for p in a.posonlyargs + a.args]
        kinds: Dict[str, str] = {}
        for name, k in zip(pos, argk):
            kinds[name] = k
        for k_, v in kwk.items():
            if k_ is not None:
                kinds[k_] = v
        kinds = {k: v for k, v in kinds.items() if v != SAFE}
        origins: Dict[str, str] = {}
        for name, a_ in list(zip(pos, e.args)) + [(k.arg, k.value) for k in e.keywords if k.arg]:
            if name in kinds:
                origins[name] = ("event" if kinds[name] == EVENT else None) or self.origin_of(a_) or "<value>"
        self.an.callers.setdefault((rel, fn.name), set()).add((self.rel, self.func.name))
        fbind = {}
        for name, a_ in list(zip(pos, e.args)) + [(k.arg, k.value) for k in e.keywords if k.arg]:
            if isinstance(a_, ast.Name) and self.env.get(a_.id, SAFE) == SAFE:
                tgt = self.fbind.get(a_.id) or self.an.resolve(a_.id, self.func, self.rel)
                if tgt is not None:
                    fbind[name] = tgt
        lvl = self.level(e)
        return self.an.analyse(rel, fn, kinds, lvl, origins, fbind)


def _always_exits(block) -> bool:
    """The statement list always leaves (return / raise / continue / break as its last statement, or an if/else whose arms both do)."""
    if not block:
        return False
    last = block[-1]
    if isinstance(last, (ast.Return, ast.Raise, ast.Continue, ast.Break)):
        return True
    if isinstance(last, ast.If):
        return _always_exits(last.body) and _always_exits(last.orelse)
    return False


def _narrow_kind(test, name) -> str:
    """TEXT when the established type is exactly str, else TYPED."""
    for c in ast.walk(test):
        if isinstance(c, ast.Call) and isinstance(c.func, ast.Name) and c.func.id == "isinstance" and len(c.args) == 2 \
                and isinstance(c.args[0], ast.Name) and c.args[0].id == name:
            return TEXT if isinstance(c.args[1], ast.Name) and c.args[1].id == "str" else TYPED
    return TYPED


def _isinstance_names(test) -> List[str]:
    """Names established by `isinstance(name, T)` when ``test`` is true (conjunctions are looked through)."""
    if isinstance(test, ast.BoolOp) and isinstance(test.op, ast.And):
        return [n for v in test.values for n in _isinstance_names(v)]
    if isinstance(test, ast.Call) and isinstance(test.func, ast.Name) and test.func.id == "isinstance" and len(test.args) == 2 and isinstance(test.args[0], ast.Name):
        return [test.args[0].id]
    return []


def _load(t):
    import copy
    t2 = copy.copy(t)
    if hasattr(t2, "ctx"):
        t2.ctx = ast.Load()
    return t2


def _is_const(n):
    return isinstance(n, ast.Constant)


def _merge(a: Dict[str, str], b: Dict[str, str]) -> Dict[str, str]:
    out = dict(a)
    for k, v in b.items():
        out[k] = worst(out.get(k), v) if k in out else v
    return out


def _enclosing_handler(node, stop) -> Optional[ast.ExceptHandler]:
    n = getattr(node, "_parent", None)
    while n is not None and n is not stop:
        if isinstance(n, ast.ExceptHandler):
            return n
        n = getattr(n, "_parent", None)
    return None


# ---- finite evaluation along a statement list (C56) -------------------------------------------
def contains_node(root: ast.AST, node: ast.AST) -> bool:
    return any(n is node for n in ast.walk(root))


def eval_to(stmts, stop: ast.AST, env: Dict[str, object], tracked: set, qual: str = "") -> Optional[Dict[str, object]]:
    """Concretely interpret ``stmts`` (assignments to / branches on the ``tracked`` names only) up to the statement
    that contains ``stop``; returns the environment there, or None when ``stop`` is not reached on this valuation.
    A branch whose test is not evaluable is descended when it contains ``stop`` and must not assign a tracked name."""
    st, e = _exec(list(stmts), stop, env, tracked, qual)
    return e if st == "reached" else None


def _assigns_tracked(nodes, tracked) -> bool:
    from sa.astx import assigned_targets
    for b in nodes:
        for s2 in ast.walk(b):
            if isinstance(s2, ast.stmt) and any(isinstance(t, ast.Name) and t.id in tracked for t in assigned_targets(s2)):
                return True
    return False


def _exec(stmts, stop, env, tracked, qual):
    from sa.astx import NotConst, const_eval
    for st in stmts:
        if isinstance(st, ast.If):
            try:
                v = bool(const_eval(st.test, env))
            except NotConst:
                for branch in (st.body, st.orelse):
                    if any(contains_node(b, stop) for b in branch):
                        return _exec(branch, stop, env, tracked, qual)
                if _assigns_tracked(st.body + st.orelse, tracked):
                    raise AnalysisError(f"{qual}: `{src(st.test)}` guards an assignment to {sorted(tracked)} and is not evaluable")
                continue
            if contains_node(st.test, stop):
                return "reached", env
            status, env2 = _exec(st.body if v else st.orelse, stop, env, tracked, qual)
            if status != "fall":
                return status, env2
            if any(contains_node(b, stop) for b in (st.orelse if v else st.body)):
                return "exit", None  # stop lies on the branch not taken
            env = env2
            continue
        if contains_node(st, stop) and not isinstance(st, (ast.For, ast.While, ast.With, ast.Try)):
            return "reached", env
        if isinstance(st, (ast.Continue, ast.Return, ast.Break, ast.Raise)):
            return "exit", None
        if isinstance(st, (ast.Assign, ast.AnnAssign)):
            tg = st.targets if isinstance(st, ast.Assign) else [st.target]
            for t in tg:
                if isinstance(t, ast.Name) and t.id in tracked and st.value is not None:
                    try:
                        env = dict(env)
                        env[t.id] = const_eval(st.value, env)
                    except NotConst as e:
                        raise AnalysisError(f"{qual}: value assigned to {t.id} is not evaluable: {src(st.value)} ({e})")
                elif isinstance(t, (ast.Tuple, ast.List)) and any(isinstance(x, ast.Name) and x.id in tracked for x in t.elts):
                    raise AnalysisError(f"{qual}: tuple assignment to a tracked name: {src(st)}")
        elif isinstance(st, (ast.For, ast.While, ast.With, ast.Try)):
            for fld in ("body", "orelse", "finalbody"):
                sub = getattr(st, fld, None) or []
                if any(contains_node(b, stop) for b in sub):
                    return _exec(sub, stop, env, tracked, qual)
            if _assigns_tracked([st], tracked) and not isinstance(st, (ast.For,)):
                raise AnalysisError(f"{qual}: compound statement assigns {sorted(tracked)}: {src(st)[:60]}")
    return "fall", env


# ---- tiny concrete interpreter for pure lookup functions (C57 prefix search) --------------------
class _Return(Exception):
    def __init__(self, value):
        self.value = value


class _Break(Exception):
    pass


class _Continue(Exception):
    pass


class Nonterminating(Exception):
    pass


class Tok:
    """Opaque object for the mini-interpreter (method calls on it are logged)."""

    def __init__(self, name):
        self.name = name

    def __repr__(self):
        return self.name

    def __eq__(self, other):
        return isinstance(other, Tok) and other.name == self.name or other == self.name

    def __hash__(self):
        return hash(self.name)


class MiniInterp:
    """Runs the body of a side-effect-free function over concrete str/int/list values.  ``table_src`` is the
    source text of a mapping expression (e.g. "self._logLevelsByNamespace"): `k in table` consults ``configured``,
    `table[k]` yields ("level", k) (KeyError -> ("KeyError", k)).  Anything outside the modelled statement set is
    an AnalysisError, never a verdict."""

    def __init__(self, func, table_src: str, configured, budget: int = 400):
        self.func = func
        self.table = table_src
        self.configured = set(configured)
        self.budget = budget
        self.probes: List[object] = []
        self.events: List[tuple] = []

    def run(self, env: Dict[str, object]):
        self.env = dict(env)
        try:
            self.block(self.func.body)
        except _Return as r:
            return r.value
        return None

    def tick(self):
        self.budget -= 1
        if self.budget < 0:
            raise Nonterminating()

    def ev(self, e):
        from sa.astx import NotConst, const_eval
        if isinstance(e, ast.Compare) and len(e.ops) == 1 and isinstance(e.ops[0], (ast.In, ast.NotIn)) and src(e.comparators[0]) == self.table:
            k = self.ev(e.left)
            self.probes.append(k)
            r = k in self.configured
            return r if isinstance(e.ops[0], ast.In) else not r
        if isinstance(e, ast.Subscript) and src(e.value) == self.table:
            k = self.ev(e.slice)
            return ("level", k) if k in self.configured else ("KeyError", k)
        if isinstance(e, ast.Call) and isinstance(e.func, ast.Attribute) and e.func.attr == "get" and src(e.func.value) == self.table and e.args:
            k = self.ev(e.args[0])
            self.probes.append(k)
            return ("level", k) if k in self.configured else (self.ev(e.args[1]) if len(e.args) > 1 else None)
        if isinstance(e, ast.UnaryOp) and isinstance(e.op, ast.Not):
            return not self.ev(e.operand)
        if isinstance(e, ast.Attribute) and src(e) in self.env:
            return self.env[src(e)]
        if isinstance(e, (ast.Tuple, ast.List)):
            vs = [self.ev(x) for x in e.elts]
            return tuple(vs) if isinstance(e, ast.Tuple) else vs
        if isinstance(e, ast.Call) and isinstance(e.func, ast.Attribute) and (src(e.func.value) in self.env) \
                and not isinstance(self.env[src(e.func.value)], (str, bytes)):
            recv = self.env[src(e.func.value)]
            args = [self.ev(a) for a in e.args]
            if e.func.attr == "append" and isinstance(recv, list):
                recv.append(args[0])
                return None
            self.events.append(("call", recv, e.func.attr, tuple(args)))
            return None
        if isinstance(e, ast.Compare) and len(e.ops) == 1 and not isinstance(e.ops[0], (ast.Is, ast.IsNot, ast.In, ast.NotIn)):
            a, b = self.ev(e.left), self.ev(e.comparators[0])
            return const_eval(ast.Compare(left=ast.Constant(a), ops=e.ops, comparators=[ast.Constant(b)]), {})
        if isinstance(e, ast.BinOp) and not isinstance(e.left, ast.Constant):
            a, b = self.ev(e.left), self.ev(e.right)
            return const_eval(ast.BinOp(left=ast.Constant(a), op=e.op, right=ast.Constant(b)), {})
        if isinstance(e, ast.BoolOp):
            v = None
            for x in e.values:
                v = self.ev(x)
                if (isinstance(e.op, ast.And) and not v) or (isinstance(e.op, ast.Or) and v):
                    return v
            return v
        if isinstance(e, ast.IfExp):
            return self.ev(e.body) if self.ev(e.test) else self.ev(e.orelse)
        if isinstance(e, ast.Compare) and len(e.ops) == 1 and isinstance(e.ops[0], (ast.Is, ast.IsNot)):
            a, b = self.ev(e.left), self.ev(e.comparators[0])
            return (a is b) if isinstance(e.ops[0], ast.Is) else (a is not b)
        try:
            return const_eval(e, self.env)
        except NotConst as ex:
            raise AnalysisError(f"mini-interpreter: expression not evaluable: {src(e)} ({ex})")

    def block(self, stmts):
        for st in stmts:
            self.stmt(st)

    def stmt(self, st):
        self.tick()
        if isinstance(st, ast.Expr):
            if isinstance(st.value, ast.Constant):
                return
            self.ev(st.value)
        elif isinstance(st, ast.Return):
            raise _Return(self.ev(st.value) if st.value is not None else None)
        elif isinstance(st, (ast.Assign, ast.AnnAssign)):
            if st.value is None:
                return
            v = self.ev(st.value)
            for t in (st.targets if isinstance(st, ast.Assign) else [st.target]):
                self.assign(t, v)
        elif isinstance(st, ast.AugAssign) and isinstance(st.target, ast.Name):
            v = self.ev(ast.BinOp(left=ast.Name(id=st.target.id, ctx=ast.Load()), op=st.op, right=st.value))
            self.env[st.target.id] = v
        elif isinstance(st, ast.If):
            self.block(st.body if self.ev(st.test) else st.orelse)
        elif isinstance(st, ast.While):
            broke = False
            while self.ev(st.test):
                self.tick()
                try:
                    self.block(st.body)
                except _Break:
                    broke = True
                    break
                except _Continue:
                    continue
            if not broke:
                self.block(st.orelse)
        elif isinstance(st, ast.For):
            it = self.ev(st.iter)
            broke = False
            for v in list(it):
                self.tick()
                self.assign(st.target, v)
                try:
                    self.block(st.body)
                except _Break:
                    broke = True
                    break
                except _Continue:
                    continue
            if not broke:
                self.block(st.orelse)
        elif isinstance(st, ast.Break):
            raise _Break()
        elif isinstance(st, ast.Continue):
            raise _Continue()
        elif isinstance(st, ast.Pass):
            return
        else:
            raise AnalysisError(f"mini-interpreter: statement not modelled: {src(st)[:60]}")

    def assign(self, t, v):
        if isinstance(t, ast.Name):
            self.env[t.id] = v
        elif isinstance(t, ast.Attribute):
            self.env[src(t)] = v
            self.events.append(("assign", src(t), v))
        elif isinstance(t, (ast.Tuple, ast.List)):
            vs = list(v)
            if len(vs) != len(t.elts):
                raise AnalysisError("mini-interpreter: unpack arity")
            for x, y in zip(t.elts, vs):
                self.assign(x, y)
        else:
            raise AnalysisError(f"mini-interpreter: assignment target not modelled: {src(t)}")


# ==== a small concrete interpreter for Python function bodies (finite-domain evaluation) ===========================
# It never imports or runs repository code: repository functions / classes are *interpreted* from their AST over
# model values supplied by the rule (plain data, stdlib objects such as string.Formatter, and Tok / model objects).
import builtins as _bi
import operator as _op


class _Signal(BaseException):
    pass


class _Ret(_Signal):
    def __init__(self, value):
        self.value = value


class _Brk(_Signal):
    pass


class _Cnt(_Signal):
    pass


class Obj:
    """Instance of an interpreted repository class.  The Python protocol methods are forwarded to the interpreted
    class so that stdlib code (string.Formatter, json) can operate on such instances."""

    def __init__(self, cls):
        object.__setattr__(self, "cls", cls)
        object.__setattr__(self, "attrs", {})

    def _dunder(self, name):
        f = self.cls.find(name)
        return BoundMethod(self, f) if f is not None else None

    def __getattr__(self, name):
        if name.startswith("_interp") or name in ("cls", "attrs"):
            raise AttributeError(name)
        d = object.__getattribute__(self, "__dict__")
        attrs = d.get("attrs", {})
        if name in attrs:
            return attrs[name]
        cls = d.get("cls")
        if cls is None:
            raise AttributeError(name)
        f = cls.find(name)
        if f is not None:
            return BoundMethod(self, f)
        if name.startswith("__") and name.endswith("__"):
            raise AttributeError(name)
        g = cls.find("__getattr__")
        if g is not None:
            return BoundMethod(self, g)(name)
        raise AttributeError(f"{cls.node.name} object has no attribute {name}")

    def __getitem__(self, key):
        m = self._dunder("__getitem__")
        if m is None:
            raise TypeError(f"{self.cls.node.name} object is not subscriptable")
        return m(key)

    def __format__(self, spec):
        m = self._dunder("__format__")
        return m(spec) if m is not None else format(str(self), spec)

    def __str__(self):
        m = self._dunder("__str__")
        return m() if m is not None else self.__repr__()

    def __repr__(self):
        m = self._dunder("__repr__")
        return m() if m is not None else f"<{self.cls.node.name} {self.attrs!r}>"

    def __iter__(self):
        m = self._dunder("__iter__")
        if m is None:
            raise TypeError(f"{self.cls.node.name} object is not iterable")
        return iter(m())

    def __len__(self):
        m = self._dunder("__len__")
        if m is None:
            raise TypeError(f"{self.cls.node.name} object has no len()")
        return m()

    def __call__(self, *args, **kwargs):
        m = self._dunder("__call__")
        if m is None:
            raise TypeError(f"{self.cls.node.name} object is not callable")
        return m(*args, **kwargs)


class Func:
    def __init__(self, interp, node, scopes, name=None):
        self.interp, self.node, self.scopes = interp, node, scopes
        self.name = name or getattr(node, "name", "<lambda>")

    def __call__(self, *args, **kwargs):
        return self.interp.call_func(self, list(args), dict(kwargs))

    def __repr__(self):
        return f"<func {self.name}>"


class BoundMethod:
    def __init__(self, obj, func):
        self.obj, self.func = obj, func

    def __call__(self, *args, **kwargs):
        return self.func.interp.call_func(self.func, [self.obj] + list(args), dict(kwargs))

    def __eq__(self, other):
        return isinstance(other, BoundMethod) and other.obj is self.obj and other.func.node is self.func.node

    def __hash__(self):
        return hash((id(self.obj), id(self.func.node)))


class ClassVal:
    def __init__(self, interp, node, scopes):
        self.interp, self.node, self.scopes = interp, node, scopes
        self.methods = {n.name: n for n in node.body if isinstance(n, (ast.FunctionDef, ast.AsyncFunctionDef))}
        self.consts = {}
        for n in node.body:
            if isinstance(n, ast.Assign) and len(n.targets) == 1 and isinstance(n.targets[0], ast.Name) and isinstance(n.value, ast.Constant):
                self.consts[n.targets[0].id] = n.value.value
        self.is_dataclass = any((dotted(d) or dotted(getattr(d, "func", d)) or "").split(".")[-1] == "dataclass" for d in node.decorator_list)

    def bases(self):
        out = []
        for b in self.node.bases:
            try:
                v = self.interp.lookup(b.id, self.scopes) if isinstance(b, ast.Name) else None
            except AnalysisError:
                v = None
            if isinstance(v, ClassVal):
                out.append(v)
        return out

    def find(self, name):
        if name in self.methods:
            return Func(self.interp, self.methods[name], self.scopes, f"{self.node.name}.{name}")
        for b in self.bases():
            r = b.find(name)
            if r is not None:
                return r
        return None

    def __call__(self, *args, **kwargs):
        obj = Obj(self)
        if self.is_dataclass and "__init__" not in self.methods:
            fields = [n for n in self.node.body if isinstance(n, ast.AnnAssign) and isinstance(n.target, ast.Name)]
            args = list(args)
            for fdef in fields:
                nm = fdef.target.id
                if args:
                    obj.attrs[nm] = args.pop(0)
                elif nm in kwargs:
                    obj.attrs[nm] = kwargs.pop(nm)
                elif fdef.value is None:
                    raise AnalysisError(f"interp: dataclass field {nm} not supplied")
                elif isinstance(fdef.value, ast.Call) and (dotted(fdef.value.func) or "").split(".")[-1] == "field":
                    kw = {k.arg: k.value for k in fdef.value.keywords}
                    if "default_factory" in kw:
                        obj.attrs[nm] = self.interp.ev(kw["default_factory"], self.scopes)()
                    elif "default" in kw:
                        obj.attrs[nm] = self.interp.ev(kw["default"], self.scopes)
                else:
                    obj.attrs[nm] = self.interp.ev(fdef.value, self.scopes)
            return obj
        init = self.find("__init__")
        if init is not None:
            self.interp.call_func(init, [obj] + list(args), dict(kwargs))
        return obj


_BINOPS = {ast.Add: _op.add, ast.Sub: _op.sub, ast.Mult: _op.mul, ast.Div: _op.truediv, ast.FloorDiv: _op.floordiv, ast.Mod: _op.mod,
           ast.Pow: _op.pow, ast.BitOr: _op.or_, ast.BitAnd: _op.and_, ast.BitXor: _op.xor, ast.LShift: _op.lshift, ast.RShift: _op.rshift}
_IBINOPS = {ast.Add: _op.iadd, ast.Sub: _op.isub, ast.Mult: _op.imul, ast.Div: _op.itruediv, ast.FloorDiv: _op.ifloordiv, ast.Mod: _op.imod,
            ast.Pow: _op.ipow, ast.BitOr: _op.ior, ast.BitAnd: _op.iand, ast.BitXor: _op.ixor, ast.LShift: _op.ilshift, ast.RShift: _op.irshift}
_CMPOPS = {ast.Eq: _op.eq, ast.NotEq: _op.ne, ast.Lt: _op.lt, ast.LtE: _op.le, ast.Gt: _op.gt, ast.GtE: _op.ge,
           ast.Is: _op.is_, ast.IsNot: _op.is_not, ast.In: lambda a, b: a in b, ast.NotIn: lambda a, b: a not in b}
_SAFE_BUILTIN_NAMES = ("len str repr ascii format int float bool list dict tuple set frozenset range enumerate zip min max sum sorted "
                       "reversed abs callable getattr hasattr iter next any all map filter id bytes bytearray ord chr divmod round "
                       "BaseException Exception TypeError ValueError KeyError IndexError AttributeError RuntimeError LookupError "
                       "StopIteration UnicodeDecodeError UnicodeError OverflowError ZeroDivisionError KeyboardInterrupt "
                       "NotImplementedError AssertionError ArithmeticError OSError").split()


def _is_generator(node) -> bool:
    stack = list(getattr(node, "body", []))
    while stack:
        n = stack.pop()
        if isinstance(n, (ast.Yield, ast.YieldFrom)):
            return True
        if isinstance(n, FUNC_TYPES + (ast.ClassDef,)):
            continue
        stack.extend(ast.iter_child_nodes(n))
    return False


class Interp:
    def __init__(self, globals_: Optional[Dict[str, object]] = None, budget: int = 200000):
        self.globals: Dict[str, object] = {n: getattr(_bi, n) for n in _SAFE_BUILTIN_NAMES}
        self.globals.update({"cast": lambda t, v: v, "isinstance": self._isinstance, "type": self._type, "object": object, "super": None})
        self.globals.update(globals_ or {})
        self.budget = budget
        self.log: List[tuple] = []
        self._yields: List[list] = []
        self._lazy_active: set = set()
        self._pending_native: List[ast.ClassDef] = []

    # ---- setup ------------------------------------------------------------------------------------------------
    STDLIB_OK = ("functools", "itertools", "contextlib", "collections", "collections.abc", "string", "json", "uuid", "typing", "operator", "math", "abc", "enum",
                 "dataclasses", "io", "re", "types", "copy", "heapq", "bisect")

    def _lazy_global(self, name):
        """A module-level name of a loaded module that was not bound eagerly: a table / constant (evaluated now, in module
        scope) or an import from a whitelisted stdlib module (the real object)."""
        import importlib
        for mod in getattr(self, "_modules", []):
            for n in mod.tree.body:
                if isinstance(n, ast.ImportFrom) and n.module in self.STDLIB_OK and n.level == 0:
                    for a in n.names:
                        if (a.asname or a.name) == name:
                            return True, getattr(importlib.import_module(n.module), a.name)
                elif isinstance(n, ast.Import):
                    for a in n.names:
                        if (a.asname or a.name.split(".")[0]) == name and a.name.split(".")[0] in self.STDLIB_OK:
                            return True, importlib.import_module(a.name if a.asname else a.name.split(".")[0])
        for mod in getattr(self, "_modules", []):
            for n in mod.tree.body:
                tg = None
                if isinstance(n, ast.Assign) and len(n.targets) == 1 and isinstance(n.targets[0], ast.Name):
                    tg, val = n.targets[0].id, n.value
                elif isinstance(n, ast.AnnAssign) and isinstance(n.target, ast.Name) and n.value is not None:
                    tg, val = n.target.id, n.value
                if tg == name:
                    key = ("lazy", name)
                    if key in self._lazy_active:
                        raise AnalysisError(f"interp: recursive module-level definition of {name}")
                    self._lazy_active.add(key)
                    try:
                        return True, self.ev(val, [])
                    finally:
                        self._lazy_active.discard(key)
        return False, None

    def load(self, mod, only=None):
        """Register the top-level functions / classes of a parsed module as interpreted values."""
        if not hasattr(self, "_modules"):
            self._modules = []
        if mod not in self._modules:
            self._modules.append(mod)
        for n in mod.tree.body:
            if isinstance(n, (ast.FunctionDef, ast.AsyncFunctionDef)) and (only is None or n.name in only):
                self.globals[n.name] = Func(self, n, [], n.name)
            elif isinstance(n, ast.ClassDef) and (only is None or n.name in only):
                self.globals[n.name] = ClassVal(self, n, [])
                self._pending_native.append(n)
            elif isinstance(n, (ast.Assign, ast.AnnAssign)) and only is None:
                # module-level constants (pure literals / arithmetic on literals only)
                from sa.astx import NotConst, const_eval
                tg = n.targets[0] if isinstance(n, ast.Assign) and len(n.targets) == 1 else getattr(n, "target", None)
                if isinstance(tg, ast.Name) and n.value is not None:
                    try:
                        self.globals[tg.id] = const_eval(n.value, {})
                    except NotConst:
                        pass

    def func(self, node, scopes=None):
        return Func(self, node, scopes or [])

    def _isinstance(self, v, t):
        ts = t if isinstance(t, tuple) else (t,)
        for x in ts:
            if isinstance(x, ClassVal):
                if isinstance(v, Obj):
                    stack = [v.cls]
                    while stack:
                        c = stack.pop()
                        if c.node is x.node:
                            return True
                        stack.extend(c.bases())
            elif isinstance(x, type) and isinstance(v, x):
                return True
        return False

    def _type(self, v):
        return v.cls if isinstance(v, Obj) else type(v)

    def tick(self):
        self.budget -= 1
        if self.budget < 0:
            raise Nonterminating()

    def _materialise(self, node):
        """An interpreted class whose base is a native type (json.JSONEncoder, typing.NamedTuple, Exception, ...) becomes a real Python
        class whose methods run in the interpreter, so that stdlib code can instantiate and drive it."""
        import collections
        import typing
        bases = []
        for b in node.bases:
            try:
                v = self.ev(b, []) if not isinstance(b, ast.Subscript) else None
            except AnalysisError:
                v = None
            bases.append(v)
        if any(v is typing.NamedTuple for v in bases):
            fields, defaults = [], []
            for st in node.body:
                if isinstance(st, ast.AnnAssign) and isinstance(st.target, ast.Name):
                    fields.append(st.target.id)
                    if st.value is not None:
                        defaults.append(self.ev(st.value, []))
            base = collections.namedtuple(node.name, fields, defaults=defaults or None)
            natives = (base,)
        else:
            import abc
            natives = tuple(v for v in bases if isinstance(v, type))
            if all(v in (object, typing.Protocol, typing.Generic, abc.ABC) for v in natives):
                return None   # structural typing / abstract markers: the interpreted ClassVal is enough
            if not natives or len(natives) != len([v for v in bases if v is not None]) or any(isinstance(v, ClassVal) for v in bases):
                return None
        ns = {"_interp_mutable": True, "__module__": "interpreted"}
        for st in node.body:
            if isinstance(st, (ast.FunctionDef, ast.AsyncFunctionDef)):
                fn = Func(self, st, [], f"{node.name}.{st.name}")
                ns[st.name] = (lambda fn: (lambda self_, *a, **k: fn.interp.call_func(fn, [self_] + list(a), dict(k))))(fn)
            elif isinstance(st, ast.Assign) and len(st.targets) == 1 and isinstance(st.targets[0], ast.Name) and isinstance(st.value, ast.Constant):
                ns[st.targets[0].id] = st.value.value
        return type(node.name, natives, ns)

    def lookup(self, name, scopes):
        for s in reversed(scopes):
            if name in s:
                return s[name]
        if name in self.globals:
            v = self.globals[name]
            if isinstance(v, ClassVal) and v.node in self._pending_native and v.node.bases:
                self._pending_native.remove(v.node)
                real = self._materialise(v.node)
                if real is not None:
                    self.globals[name] = real
                    return real
            return v
        found, v = self._lazy_global(name)
        if found:
            self.globals[name] = v
            return v
        raise AnalysisError(f"interp: name {name} is not modelled")

    # ---- calls ------------------------------------------------------------------------------------------------------
    def call_func(self, f: Func, args, kwargs):
        self.tick()
        node = f.node
        a = node.args
        local: Dict[str, object] = {}
        pos = [p.arg for p in a.posonlyargs + a.args]
        args = list(args)
        for nm in pos:
            if args:
                local[nm] = args.pop(0)
        if args:
            if a.vararg is None:
                raise TypeError(f"{f.name}() takes {len(pos)} positional arguments")
            local[a.vararg.arg] = tuple(args)
        elif a.vararg is not None:
            local[a.vararg.arg] = ()
        kwonly = [p.arg for p in a.kwonlyargs]
        extra = {}
        for k, v in kwargs.items():
            if k in pos[len(a.posonlyargs):] or k in kwonly:
                if k in local:
                    raise TypeError(f"{f.name}() got multiple values for {k}")
                local[k] = v
            else:
                extra[k] = v
        if extra:
            if a.kwarg is None:
                raise TypeError(f"{f.name}() got unexpected keyword {sorted(extra)}")
            local[a.kwarg.arg] = extra
        elif a.kwarg is not None:
            local[a.kwarg.arg] = {}
        defaults = dict(zip(pos[len(pos) - len(a.defaults):], a.defaults))
        defaults.update({p: d for p, d in zip(kwonly, a.kw_defaults) if d is not None})
        for nm in pos + kwonly:
            if nm not in local:
                if nm not in defaults:
                    raise TypeError(f"{f.name}() missing argument {nm}")
                local[nm] = self.ev(defaults[nm], f.scopes)
        scopes = f.scopes + [local]
        if isinstance(node, ast.Lambda):
            return self.ev(node.body, scopes)
        if _is_generator(node):
            # generators are run eagerly (adequate for the pure generators the rules interpret)
            self._yields.append([])
            try:
                try:
                    self.block(node.body, scopes)
                except _Ret:
                    pass
            finally:
                produced = self._yields.pop()
            return iter(produced)
        try:
            self.block(node.body, scopes)
        except _Ret as r:
            return r.value
        return None

    # ---- statements -----------------------------------------------------------------------------------------------------
    def block(self, stmts, scopes):
        for st in stmts:
            self.stmt(st, scopes)

    def stmt(self, st, scopes):
        self.tick()
        if isinstance(st, ast.Expr):
            if not isinstance(st.value, ast.Constant):
                self.ev(st.value, scopes)
        elif isinstance(st, ast.Return):
            raise _Ret(self.ev(st.value, scopes) if st.value is not None else None)
        elif isinstance(st, ast.Assign):
            v = self.ev(st.value, scopes)
            for t in st.targets:
                self.assign(t, v, scopes)
        elif isinstance(st, ast.AnnAssign):
            if st.value is not None:
                self.assign(st.target, self.ev(st.value, scopes), scopes)
        elif isinstance(st, ast.AugAssign):
            cur = self.ev(_load(st.target), scopes)
            self.assign(st.target, _IBINOPS[type(st.op)](cur, self.ev(st.value, scopes)), scopes)   # in-place semantics (list += tuple extends)
        elif isinstance(st, ast.If):
            self.block(st.body if self.ev(st.test, scopes) else st.orelse, scopes)
        elif isinstance(st, ast.While):
            broke = False
            while self.ev(st.test, scopes):
                self.tick()
                try:
                    self.block(st.body, scopes)
                except _Brk:
                    broke = True
                    break
                except _Cnt:
                    continue
            if not broke:
                self.block(st.orelse, scopes)
        elif isinstance(st, ast.For):
            broke = False
            for v in self.ev(st.iter, scopes):
                self.tick()
                self.assign(st.target, v, scopes)
                try:
                    self.block(st.body, scopes)
                except _Brk:
                    broke = True
                    break
                except _Cnt:
                    continue
            if not broke:
                self.block(st.orelse, scopes)
        elif isinstance(st, ast.Break):
            raise _Brk()
        elif isinstance(st, ast.Continue):
            raise _Cnt()
        elif isinstance(st, ast.Pass):
            pass
        elif isinstance(st, (ast.FunctionDef, ast.AsyncFunctionDef)):
            f = Func(self, st, scopes, st.name)
            for d in reversed(st.decorator_list):
                f = self.ev(d, scopes)(f)
            scopes[-1][st.name] = f
        elif isinstance(st, ast.Raise):
            if st.exc is None:
                raise AnalysisError("interp: bare raise")
            e = self.ev(st.exc, scopes)
            if isinstance(e, type) and issubclass(e, BaseException):
                e = e()
            if not isinstance(e, BaseException):
                raise AnalysisError(f"interp: raising a non-exception {src(st.exc)}")
            raise e
        elif isinstance(st, ast.Try):
            try:
                try:
                    self.block(st.body, scopes)
                except (_Signal, AnalysisError, Nonterminating):
                    raise
                except BaseException as e:  # noqa: B902 - interpreted handlers decide
                    for h in st.handlers:
                        if h.type is None or self._matches(e, self.ev(h.type, scopes)):
                            if h.name:
                                scopes[-1][h.name] = e
                            self.block(h.body, scopes)
                            break
                    else:
                        raise
                else:
                    self.block(st.orelse, scopes)
            finally:
                if st.finalbody:
                    self.block(st.finalbody, scopes)
        elif isinstance(st, ast.With):
            self._with(st, 0, scopes)
        elif isinstance(st, ast.Assert):
            if not self.ev(st.test, scopes):
                raise AssertionError(src(st.test))
        elif isinstance(st, ast.Delete):
            for t in st.targets:
                if isinstance(t, ast.Subscript):
                    del self.ev(t.value, scopes)[self.ev(t.slice, scopes)]
                elif isinstance(t, ast.Name):
                    scopes[-1].pop(t.id, None)
                else:
                    raise AnalysisError(f"interp: del {src(t)}")
        elif isinstance(st, (ast.Import, ast.ImportFrom, ast.Global, ast.Nonlocal)):
            pass
        else:
            raise AnalysisError(f"interp: statement not modelled: {src(st)[:60]}")

    def _with(self, st, i, scopes):
        if i == len(st.items):
            self.block(st.body, scopes)
            return
        it = st.items[i]
        mgr = self.ev(it.context_expr, scopes)
        if isinstance(mgr, Obj):
            enter, leave = self.getattr_(mgr, "__enter__"), self.getattr_(mgr, "__exit__")
        else:
            enter, leave = mgr.__enter__, mgr.__exit__
        v = enter()
        if it.optional_vars is not None:
            self.assign(it.optional_vars, v, scopes)
        try:
            self._with(st, i + 1, scopes)
        except (_Signal, AnalysisError, Nonterminating):
            leave(None, None, None)
            raise
        except BaseException as e:  # noqa: B902
            if not leave(type(e), e, e.__traceback__):
                raise
        else:
            leave(None, None, None)

    @staticmethod
    def _matches(e, t):
        ts = t if isinstance(t, tuple) else (t,)
        return any(isinstance(x, type) and isinstance(e, x) for x in ts)

    def assign(self, t, v, scopes):
        if isinstance(t, ast.Name):
            scopes[-1][t.id] = v
        elif isinstance(t, ast.Attribute):
            o = self.ev(t.value, scopes)
            if isinstance(o, Obj):
                o.attrs[t.attr] = v
                self.log.append(("setattr", o, t.attr, v))
            elif isinstance(o, Tok) or getattr(o, "_interp_mutable", False):
                setattr(o, t.attr, v)
            else:
                raise AnalysisError(f"interp: attribute assignment on {type(o).__name__}: {src(t)}")
        elif isinstance(t, ast.Subscript):
            self.ev(t.value, scopes)[self.ev(t.slice, scopes)] = v
        elif isinstance(t, (ast.Tuple, ast.List)):
            vs = list(v)
            if any(isinstance(x, ast.Starred) for x in t.elts):
                raise AnalysisError("interp: starred unpacking")
            if len(vs) != len(t.elts):
                raise ValueError("unpack arity")
            for x, y in zip(t.elts, vs):
                self.assign(x, y, scopes)
        else:
            raise AnalysisError(f"interp: assignment target {src(t)}")

    # ---- expressions -----------------------------------------------------------------------------------------------------
    def getattr_(self, o, name, node=None):
        if isinstance(o, Obj):
            if name in o.attrs:
                return o.attrs[name]
            f = o.cls.find(name)
            if f is not None:
                return BoundMethod(o, f)
            stack = [o.cls]
            while stack:
                c = stack.pop(0)
                if name in c.consts:
                    return c.consts[name]
                stack.extend(c.bases())
            if name == "__class__":
                return o.cls
            g = o.cls.find("__getattr__")
            if g is not None and not (name.startswith("__") and name.endswith("__")):
                return BoundMethod(o, g)(name)
            raise AttributeError(f"{o.cls.node.name} object has no attribute {name}")
        if isinstance(o, ClassVal):
            f = o.find(name)
            if f is not None:
                return f
            if name in o.consts:
                return o.consts[name]
            if name == "__name__":
                return o.node.name
            raise AttributeError(name)
        if isinstance(o, (Func, BoundMethod)):
            if name in ("__name__", "__qualname__"):
                return (o.name if isinstance(o, Func) else o.func.name)
            raise AnalysisError(f"interp: attribute {name} of a function")
        if name.startswith("__") and name not in ("__name__", "__class__", "__getitem__", "__contains__", "__len__", "__iter__", "__dict__", "__module__",
                                                   "__enter__", "__exit__", "__getstate__", "__setstate__", "__new__", "__qualname__"):
            raise AnalysisError(f"interp: dunder attribute {name} on a native value")
        return getattr(o, name)

    def ev(self, e, scopes):
        if isinstance(e, ast.Constant):
            return e.value
        if isinstance(e, ast.Name):
            return self.lookup(e.id, scopes)
        if isinstance(e, ast.Attribute):
            return self.getattr_(self.ev(e.value, scopes), e.attr, e)
        if isinstance(e, ast.Subscript):
            v = self.ev(e.value, scopes)
            return v[self.ev(e.slice, scopes)]
        if isinstance(e, ast.Slice):
            return slice(self.ev(e.lower, scopes) if e.lower else None, self.ev(e.upper, scopes) if e.upper else None, self.ev(e.step, scopes) if e.step else None)
        if isinstance(e, ast.Call):
            f = self.ev(e.func, scopes)
            args = []
            for a in e.args:
                if isinstance(a, ast.Starred):
                    args.extend(self.ev(a.value, scopes))
                else:
                    args.append(self.ev(a, scopes))
            kwargs = {}
            for k in e.keywords:
                if k.arg is None:
                    kwargs.update(self.ev(k.value, scopes))
                else:
                    kwargs[k.arg] = self.ev(k.value, scopes)
            if f is None:
                raise AnalysisError(f"interp: call of an unmodelled callee {src(e.func)}")
            self.tick()
            return f(*args, **kwargs)
        if isinstance(e, ast.Compare):
            left = self.ev(e.left, scopes)
            for op, c in zip(e.ops, e.comparators):
                right = self.ev(c, scopes)
                if not _CMPOPS[type(op)](left, right):
                    return False
                left = right
            return True
        if isinstance(e, ast.BoolOp):
            v = None
            for x in e.values:
                v = self.ev(x, scopes)
                if (isinstance(e.op, ast.And) and not v) or (isinstance(e.op, ast.Or) and v):
                    return v
            return v
        if isinstance(e, ast.UnaryOp):
            v = self.ev(e.operand, scopes)
            return {ast.Not: _op.not_, ast.USub: _op.neg, ast.UAdd: _op.pos, ast.Invert: _op.invert}[type(e.op)](v)
        if isinstance(e, ast.BinOp):
            return _BINOPS[type(e.op)](self.ev(e.left, scopes), self.ev(e.right, scopes))
        if isinstance(e, ast.IfExp):
            return self.ev(e.body, scopes) if self.ev(e.test, scopes) else self.ev(e.orelse, scopes)
        if isinstance(e, ast.Tuple):
            return tuple(self._elts(e.elts, scopes))
        if isinstance(e, ast.List):
            return list(self._elts(e.elts, scopes))
        if isinstance(e, ast.Set):
            return set(self._elts(e.elts, scopes))
        if isinstance(e, ast.Dict):
            out = {}
            for k, v in zip(e.keys, e.values):
                if k is None:
                    out.update(self.ev(v, scopes))
                else:
                    out[self.ev(k, scopes)] = self.ev(v, scopes)
            return out
        if isinstance(e, ast.Lambda):
            return Func(self, e, scopes)
        if isinstance(e, ast.JoinedStr):
            parts = []
            for v in e.values:
                if isinstance(v, ast.Constant):
                    parts.append(str(v.value))
                else:
                    x = self.ev(v.value, scopes)
                    x = {-1: lambda y: y, 115: str, 114: repr, 97: ascii}[v.conversion](x)
                    parts.append(format(x, self.ev(v.format_spec, scopes) if v.format_spec is not None else ""))
            return "".join(parts)
        if isinstance(e, (ast.ListComp, ast.SetComp, ast.GeneratorExp, ast.DictComp)):
            out = []
            local: Dict[str, object] = {}
            sc = scopes + [local]

            def rec(i):
                if i == len(e.generators):
                    out.append((self.ev(e.key, sc), self.ev(e.value, sc)) if isinstance(e, ast.DictComp) else self.ev(e.elt, sc))
                    return
                g = e.generators[i]
                for v in self.ev(g.iter, sc):
                    self.tick()
                    self.assign(g.target, v, sc)
                    if all(self.ev(c, sc) for c in g.ifs):
                        rec(i + 1)
            rec(0)
            if isinstance(e, ast.DictComp):
                return dict(out)
            if isinstance(e, ast.GeneratorExp):
                return iter(out)   # evaluated eagerly, consumed as an iterator (next(gen, default), for, join ...)
            return set(out) if isinstance(e, ast.SetComp) else out
        if isinstance(e, ast.NamedExpr):
            v = self.ev(e.value, scopes)
            self.assign(e.target, v, scopes)
            return v
        if isinstance(e, ast.Yield):
            if not self._yields:
                raise AnalysisError("interp: yield outside a generator call")
            self._yields[-1].append(self.ev(e.value, scopes) if e.value is not None else None)
            return None
        if isinstance(e, ast.YieldFrom):
            if not self._yields:
                raise AnalysisError("interp: yield outside a generator call")
            self._yields[-1].extend(self.ev(e.value, scopes))
            return None
        if isinstance(e, ast.Starred):
            raise AnalysisError("interp: starred expression")
        raise AnalysisError(f"interp: expression not modelled: {type(e).__name__} {src(e)[:50]}")

    def _elts(self, elts, scopes):
        out = []
        for x in elts:
            if isinstance(x, ast.Starred):
                out.extend(self.ev(x.value, scopes))
            else:
                out.append(self.ev(x, scopes))
        return out


class Mock:
    """Opaque collaborator for the interpreter: attribute access yields child mocks, calls are logged
    (shared ``log``) and answered by ``returns[name]`` (value or callable) or a fresh child mock."""
    _interp_mutable = True

    def __init__(self, name, log=None, returns=None):
        object.__setattr__(self, "_name", name)
        object.__setattr__(self, "_log", log if log is not None else [])
        object.__setattr__(self, "_returns", returns or {})

    def __getattr__(self, attr):
        if attr.startswith("__"):
            raise AttributeError(attr)
        child = Mock(f"{self._name}.{attr}", self._log, self._returns)
        object.__setattr__(self, attr, child)
        return child

    def __call__(self, *args, **kwargs):
        self._log.append((self._name, args, kwargs))
        if self._name in self._returns:
            r = self._returns[self._name]
            return r(*args, **kwargs) if callable(r) else r
        return Mock(self._name + "()", self._log, self._returns)

    def __repr__(self):
        return f"<{self._name}>"


def freeze(v):
    if isinstance(v, dict):
        return tuple(sorted(((freeze(k), freeze(x)) for k, x in v.items()), key=repr))
    if isinstance(v, (list, tuple)):
        return tuple(freeze(x) for x in v)
    if isinstance(v, set):
        return tuple(sorted((freeze(x) for x in v), key=repr))
    if isinstance(v, Obj):
        return ("obj", v.cls.node.name, freeze(v.attrs))
    if isinstance(v, (str, int, float, bool, type(None), bytes)):
        return v
    return repr(v)


def no_crash(what, fn, *args):
    """Run one rule group; an unexpected exception of the checker itself (an unforeseen shape of the code under analysis) becomes a
    section-confined AnalysisError - never a crash of the run, never a verdict."""
    try:
        return fn(*args)
    except (AnalysisError, Nonterminating):
        raise
    except RecursionError:
        raise AnalysisError(f"{what}: recursion limit reached while analysing")
    except Exception as e:   # noqa: B902
        import traceback
        where = traceback.extract_tb(e.__traceback__)[-1]
        raise AnalysisError(f"{what}: shape not handled by the analyser ({type(e).__name__}: {e} at {where.name}:{where.lineno})")
