"""Helpers shared by C06-C09 (batch B).  Stdlib only; never imports or runs twisted.

Part 1  class-invariant abstract interpreter (K15): a small path-sensitive abstract executor for
        methods of tiny state-holding classes.  Abstract integers are exact for |k| < BIG and
        "at least BIG" beyond, containers are abstract lengths, Deferreds are tracked records
        (fresh / popped / peeked / member, fired?, queued where?), ghost quantities are kept by a
        per-class ``Spec``.  The invariant is checked at opaque call-outs (firing a Deferred user
        code may have callbacks on) - after which the state is havocked to *any* invariant state,
        because user code may re-enter - and at exits by the property module.
Part 2  float-aware linear forms and a symbolic straight-line path evaluator (C08/C09).
Part 3  MiniEval: concrete evaluator of a pure Python subset over model objects (finite-domain
        evaluation of small pure helpers such as a heap sift-up or a filter comprehension).
"""
from __future__ import annotations

import ast
from typing import Dict, List, Optional, Tuple

from sa.astx import dotted, lincmp, src, walk_local
from sa.effects import class_accesses
from sa.source import AnalysisError, methods, mro_lookup

BIG = 3
INF = float("inf")


class Unsupported(AnalysisError):
    """The construct is outside the subset the interpreter models (exit 2, never a verdict)."""


# --------------------------------------------------------------------------- abstract integers
def iv(k: int) -> Tuple[float, float]:
    if k >= BIG:
        return (BIG, INF)
    if k <= -BIG:
        return (-INF, -BIG)
    return (k, k)


def atoms_of(lo: float, hi: float) -> List[int]:
    out = []
    for k in range(-BIG, BIG + 1):
        a, b = iv(k)
        if a <= hi and lo <= b:
            out.append(k)
    return out


def a_add(a: int, b: int) -> List[int]:
    (al, ah), (bl, bh) = iv(a), iv(b)
    return atoms_of(al + bl, ah + bh)


def a_neg(a: int) -> int:
    return -a


def a_cmp(op, a: int, b: int) -> Optional[bool]:
    (al, ah), (bl, bh) = iv(a), iv(b)
    if isinstance(op, ast.Lt):
        return True if ah < bl else (False if al >= bh else None)
    if isinstance(op, ast.LtE):
        return True if ah <= bl else (False if al > bh else None)
    if isinstance(op, ast.Gt):
        return a_cmp(ast.Lt(), b, a)
    if isinstance(op, ast.GtE):
        return a_cmp(ast.LtE(), b, a)
    if isinstance(op, ast.Eq):
        if al == ah == bl == bh:
            return True
        return False if (ah < bl or bh < al) else None
    if isinstance(op, ast.NotEq):
        r = a_cmp(ast.Eq(), a, b)
        return None if r is None else not r
    return None


def fmt_int(k: int) -> str:
    return f">={BIG}" if k >= BIG else (f"<=-{BIG}" if k <= -BIG else str(k))


# --------------------------------------------------------------------------- state
class St:
    __slots__ = ("fields", "locs", "dfrs", "ghost", "active", "alias", "log", "exit", "pre", "frames", "nid", "lendelta", "epoch", "tainted")

    def __init__(self):
        self.fields: Dict[str, tuple] = {}
        self.locs: Dict[str, tuple] = {}
        self.dfrs: Dict[int, dict] = {}
        self.ghost: Dict[str, object] = {}
        self.active: Dict[object, bool] = {}
        self.alias: Dict[str, ast.AST] = {}
        self.log: tuple = ()
        self.exit = None
        self.pre: str = ""
        self.frames: tuple = ()
        self.nid = 0
        self.lendelta: Dict[str, Optional[int]] = {}
        self.epoch = 0
        self.tainted = False   # descends from the havoc assumed at an unmodelled call: findings are not positive

    def copy(self) -> "St":
        s = St()
        s.fields = dict(self.fields)
        s.locs = dict(self.locs)
        s.dfrs = {k: dict(v) for k, v in self.dfrs.items()}
        s.ghost = dict(self.ghost)
        s.active = dict(self.active)
        s.alias = dict(self.alias)
        s.log = self.log
        s.exit = self.exit
        s.pre = self.pre
        s.frames = self.frames
        s.nid = self.nid
        s.lendelta = dict(self.lendelta)
        s.epoch = self.epoch
        s.tainted = self.tainted
        return s

    def key(self):
        """Identity of the abstract state at a loop head (history and record numbers ignored)."""
        def val(v):
            if v[0] == "dfr":
                r = self.dfrs[v[1]]
                return ("dfr", r["origin"], r["fired"] is not None, r["where"], r["stale"], r["pristine"])
            if v[0] == "func":
                return ("func", id(v[1]))
            return v
        return (tuple(sorted((k, val(v)) for k, v in self.fields.items())), tuple(sorted((k, repr(v)) for k, v in self.ghost.items())),
                tuple(sorted((k, val(v)) for k, v in self.locs.items())), tuple(sorted(repr(k) + str(b) for k, b in self.active.items())),
                tuple(sorted((k, repr(v)) for k, v in self.lendelta.items())), self.epoch, self.exit is not None)

    def add(self, *entry):
        self.log = self.log + (entry,)

    def new_dfr(self, **kw) -> tuple:
        self.nid += 1
        rec = dict(origin=("fresh",), fired=None, where=None, canceller=None, pristine=True, stale=False)
        rec.update(kw)
        self.dfrs[self.nid] = rec
        return ("dfr", self.nid)

    def events(self, kind):
        return [e for e in self.log if e[0] == kind]

    def basis(self, fields: dict) -> dict:
        """The abstract field values the method's own logic started from: the entry state, or - when an opaque
        call-out (say a logging call) preceded every decision / container operation / firing - the state it left."""
        cur = fields
        for e in self.log:
            if e[0] == "basis":
                cur = e[2]
            elif e[0] in ("decide", "listop", "fire", "write"):
                break
        return cur


def describe_state(fields, ghost) -> str:
    parts = []
    for k, v in sorted(fields.items()):
        if v[0] == "list":
            parts.append(f"len({k})={fmt_int(v[1])}")
        elif v[0] == "int":
            parts.append(f"{k}={fmt_int(v[1])}")
        elif v[0] == "bool":
            parts.append(f"{k}={v[1]}")
        elif v[0] == "none":
            parts.append(f"{k}=None")
        elif v[0] == "sym":
            parts.append(f"{k}=<int>")
    for k, v in sorted(ghost.items()):
        parts.append(f"[{k}={fmt_int(v) if isinstance(v, int) and k != 'delta' else v}]")
    return " ".join(parts)


class Problem:
    def __init__(self, rule, qual, node, msg, pre):
        self.rule, self.qual, self.node, self.msg, self.pre = rule, qual, node, msg, pre


class Spec:
    """Per-class model: abstract invariant states, ghost updates, special comparisons."""
    list_elems: Dict[str, str] = {}

    def states(self) -> List[Tuple[dict, dict]]:
        raise NotImplementedError

    def invariant(self, st: St) -> Optional[str]:
        raise NotImplementedError

    def on_fire(self, st: St, rec: dict, how: str, arg, node) -> None:
        pass

    def on_write(self, st: St, attr: str, old, new, delta) -> None:
        pass

    def compare(self, st: St, test: ast.AST) -> Optional[bool]:
        return None


_EXC_BUILTINS = {"ValueError", "TypeError", "RuntimeError", "AssertionError", "IndexError", "KeyError", "Exception",
                 "NotImplementedError", "LookupError"}
_LIST_OPS = {"append", "appendleft", "pop", "popleft", "remove", "clear", "insert", "sort", "reverse", "extend", "index"}


def clone(n):
    """Copy of an AST subtree without the ``_parent`` back-links (deepcopy would drag the module along)."""
    if isinstance(n, ast.AST):
        new = n.__class__()
        for f in n._fields:
            if hasattr(n, f):
                setattr(new, f, clone(getattr(n, f)))
        for a in ("lineno", "col_offset", "end_lineno", "end_col_offset", "_entry"):
            if hasattr(n, a):
                setattr(new, a, getattr(n, a))
        return new
    if isinstance(n, list):
        return [clone(x) for x in n]
    return n


class _Subst(ast.NodeTransformer):
    def __init__(self, alias):
        self.alias = alias

    def visit_Name(self, node):
        if isinstance(node.ctx, ast.Load) and node.id in self.alias:
            return clone(self.alias[node.id])
        return node


def _pure(e: ast.AST) -> bool:
    for n in ast.walk(e):
        if isinstance(n, ast.Call) and not (isinstance(n.func, ast.Name) and n.func.id == "len"):
            return False
        if isinstance(n, (ast.Lambda, ast.Await, ast.Yield, ast.YieldFrom, ast.NamedExpr)):
            return False
    return True


class _Bind(ast.stmt):
    """Pseudo-statement used by for-loops: binds the loop variable through a Python callback."""
    _fields = ()

    def __init__(self, fn):
        super().__init__()
        self.fn = fn


class _LenShift(ast.NodeTransformer):
    """Rewrite ``len(self.X)`` into the length *at entry* (``len(self.X) + k``): symbolic decisions then talk about the
    pre-state even when they are evaluated after the list was appended to / popped from."""

    def __init__(self, st: "St"):
        self.st = st

    def visit_Call(self, node):
        if getattr(node, "_entry", False):
            return node        # already denotes the length at entry
        self.generic_visit(node)
        if isinstance(node.func, ast.Name) and node.func.id == "len" and len(node.args) == 1:
            a = node.args[0]
            if isinstance(a, ast.Attribute) and isinstance(a.value, ast.Name) and a.value.id == "self" and a.attr in self.st.lendelta:
                d = self.st.lendelta[a.attr]
                ep = self.st.epoch
                if d is None:
                    return ast.Name(id=f"len_{a.attr}_unknown", ctx=ast.Load())
                base = node if ep == 0 else ast.Name(id=f"len_{a.attr}_after_callout{ep}", ctx=ast.Load())
                base._entry = True
                if d == 0:
                    return base
                return ast.BinOp(left=base, op=ast.Add() if d > 0 else ast.Sub(), right=ast.Constant(value=abs(d)))
        return node


_PURE_ROOTS = {"log", "_log", "logger", "_logger", "logging", "warnings", "self._log", "self.log", "self._logger"}
_PURE_FUNCS = {"isinstance", "bool", "int", "str", "repr", "id", "hasattr", "type", "abs", "min", "max", "float", "callable", "getattr"}
_CATCH_ALL = {"Exception", "BaseException", None}
_EXC_PARENTS = {"IndexError": {"LookupError"}, "KeyError": {"LookupError"}, "AlreadyCalledError": set(), "ValueError": set(),
                "TypeError": set()}


class Interp:
    MAX_DEPTH = 4
    MAX_LOOP_STATES = 600

    def __init__(self, mod, cls: ast.ClassDef, spec: Spec, modname: str):
        self.mod = mod
        self.cls = cls
        self.spec = spec
        self.modname = modname
        self.problems: List[Problem] = []
        self.checked: Dict[Tuple[str, str, object], ast.AST] = {}
        self.notes: List[str] = []
        self.uncertain: List[str] = []
        self._qual: List[str] = []
        self._stmt: List[ast.AST] = []
        self._depth = 0
        self._catch: List[set] = []       # exception names caught by the enclosing try statements
        self._depth_const = 0

    # ---- bookkeeping ---------------------------------------------------------------------------
    @property
    def qual(self) -> str:
        return self._qual[-1]

    def site(self, node=None):
        return node if node is not None else (self._stmt[-1] if self._stmt else None)

    def problem(self, rule, st: St, msg, node=None):
        n = self.site(node)
        if st.tainted:
            # only reachable under the havoc assumed at an unmodelled call: not a positive finding
            self.uncertain.append(f"{self.qual}: after an unmodelled call, {rule} cannot be decided at `{src(n)[:60]}`")
            return
        self.problems.append(Problem(rule, self.qual, n, msg, st.pre))

    def mark(self, rule, node=None):
        n = self.site(node)
        self.checked[(rule, self.qual, src(n) if n is not None else "")] = n

    def qualname(self, cls, func) -> str:
        return f"{self.modname}.{cls.name}.{func.name}"

    def caught(self, name: str) -> bool:
        fam = {name} | _EXC_PARENTS.get(name, set())
        return any((fr & _CATCH_ALL) or (fr & fam) for fr in self._catch)

    def throw(self, st: St, name: str, rule: str, msg: str, node=None) -> List[St]:
        """An operation fails with exception ``name``: a path into the enclosing handler when one catches it,
        otherwise a reported problem (the path ends)."""
        if self.caught(name):
            st.exit = ("raise", name, self.site(node))
            return [st]
        self.problem(rule, st, msg, node)
        return []

    # ---- entry ---------------------------------------------------------------------------------
    def run(self, func: ast.FunctionDef, pre: St, args: Dict[str, tuple], owner: Optional[ast.ClassDef] = None) -> List[St]:
        owner = owner or self.cls
        st = pre.copy()
        st.locs = dict(args)
        st.lendelta = {k: 0 for k, v in st.fields.items() if v[0] == "list"}
        self._qual.append(self.qualname(owner, func))
        try:
            outs = self.block(func.body, [st])
        finally:
            self._qual.pop()
        for s in outs:
            if s.exit is None:
                s.exit = ("return", ("none",), None)
            elif s.exit[0] in ("break", "continue"):
                raise Unsupported(f"{self.qualname(owner, func)}: {s.exit[0]} outside a loop")
        return outs

    # ---- statements -----------------------------------------------------------------------------
    def block(self, stmts, states: List[St]) -> List[St]:
        live, done = list(states), []
        for s in stmts:
            nxt = []
            for st in live:
                for r in self.stmt(s, st):
                    (done if r.exit else nxt).append(r)
            live = nxt
            if not live:
                break
        return live + done

    def stmt(self, s: ast.stmt, st: St) -> List[St]:
        self._stmt.append(s)
        try:
            return self._stmt_inner(s, st)
        finally:
            self._stmt.pop()

    def _stmt_inner(self, s, st: St) -> List[St]:
        if isinstance(s, _Bind):
            s.fn(st)
            return [st]
        if isinstance(s, (ast.Pass, ast.Import, ast.ImportFrom, ast.Global, ast.Nonlocal)):
            return [st]
        if isinstance(s, ast.Expr):
            if isinstance(s.value, ast.Constant):
                return [st]
            return [r for _, r in self.eval(s.value, st)]
        if isinstance(s, (ast.FunctionDef, ast.AsyncFunctionDef)):
            st.locs[s.name] = ("func", s)
            return [st]
        if isinstance(s, ast.AnnAssign):
            if s.value is None:
                return [st]
            return self.assign([s.target], s.value, st)
        if isinstance(s, ast.Assign):
            return self.assign(s.targets, s.value, st)
        if isinstance(s, ast.AugAssign):
            if not isinstance(s.op, (ast.Add, ast.Sub)):
                return self.assign_value([s.target], ("top",), s.value, st)
            load = clone(s.target)
            for n in ast.walk(load):
                if hasattr(n, "ctx"):
                    n.ctx = ast.Load()
            rhs = ast.BinOp(left=load, op=s.op, right=s.value)
            ast.copy_location(rhs, s)
            ast.fix_missing_locations(rhs)
            return self.assign([s.target], rhs, st)
        if isinstance(s, ast.If):
            t, f, ex = self.branch(s.test, st)
            out = list(ex)
            out += self.block(s.body, t) if t else []
            out += (self.block(s.orelse, f) if s.orelse else f) if f else []
            return out
        if isinstance(s, ast.While):
            return self.loop(s.test, s.body, s.orelse, st)
        if isinstance(s, (ast.For, ast.AsyncFor)):
            return self.for_loop(s, st)
        if isinstance(s, ast.Break):
            st.exit = ("break", None, s)
            return [st]
        if isinstance(s, ast.Continue):
            st.exit = ("continue", None, s)
            return [st]
        if isinstance(s, ast.Try):
            return self.try_stmt(s, st)
        if isinstance(s, (ast.With, ast.AsyncWith)):
            states = [st]
            for it in s.items:
                nxt = []
                for cur in states:
                    for v, r in self.eval(it.context_expr, cur):
                        if r.exit:
                            nxt.append(r)
                            continue
                        if it.optional_vars is not None:
                            self.store(it.optional_vars, ("top",), r, it.context_expr)
                        nxt.append(r)
                states = nxt
            live = [x for x in states if not x.exit]
            return [x for x in states if x.exit] + self.block(s.body, live)
        if isinstance(s, ast.Assert):
            t, f, ex = self.branch(s.test, st)
            self.mark("invariant/assert", s)
            if f and not t:
                self.problem("invariant/assert", st, f"`{src(s.test)}` is false although the caller respected the protocol "
                             "(AssertionError raised for a legitimate call)", s)
            return ex + t
        if isinstance(s, ast.Return):
            out = []
            if s.value is None:
                st.exit = ("return", ("none",), s)
                return [st]
            for v, r in self.eval(s.value, st):
                if not r.exit:
                    r.exit = ("return", v, s)
                out.append(r)
            return out
        if isinstance(s, ast.Raise):
            if s.exc is None:
                st.exit = ("raise", "?", s)
                return [st]
            out = []
            for v, r in self.eval(s.exc, st):
                if not r.exit:
                    r.exit = ("raise", v[1] if v[0] == "exc" else "?", s)
                out.append(r)
            return out
        if isinstance(s, ast.Delete):
            out = [st]
            for t in s.targets:
                nxt = []
                for cur in out:
                    nxt += self.delete(t, cur)
                out = nxt
            return out
        raise Unsupported(f"{self.qual}: statement not modelled: {src(s)[:80]}")

    # ---- loops (fixpoint over the finite abstract state space) --------------------------------------
    def loop(self, test, body, orelse, st: St, nondet_first: Optional[bool] = None) -> List[St]:
        """``while test: body`` - abstract states reaching the loop head are explored until no new one appears
        (lengths are widened to 'at least 3', so the space is finite).  test=None: non-deterministic exit."""
        seen, work, exits, brk, done = set(), [st], [], [], []
        first = True
        while work:
            cur = work.pop()
            k = cur.key()
            if k in seen:
                continue
            seen.add(k)
            if len(seen) > self.MAX_LOOP_STATES:
                raise Unsupported(f"{self.qual}: loop does not reach a fixpoint in the abstract domain")
            if test is not None:
                t, f, ex = self.branch(test, cur)
                done += ex
            else:
                if first and nondet_first is True:
                    t, f = [cur], []
                else:
                    t, f = [cur.copy()], [cur]
            first = False
            exits += f
            for r in self.block(body, t):
                if r.exit is None or r.exit[0] == "continue":
                    r.exit = None
                    work.append(r)
                elif r.exit[0] == "break":
                    r.exit = None
                    brk.append(r)
                else:
                    done.append(r)
        after = self.block(orelse, exits) if orelse else exits
        return after + brk + done

    def for_loop(self, s, st: St) -> List[St]:
        out = []
        for itv, r in self.eval(s.iter, st):
            if r.exit:
                out.append(r)
                continue
            if itv[0] == "listref":
                attr = itv[1]
                n = r.fields[attr][1]
                if n == 0:
                    out += self.block(s.orelse, [r]) if s.orelse else [r]
                    continue

                def bind(state, attr=attr):
                    if self.spec.list_elems.get(attr) == "dfr":
                        v = state.new_dfr(origin=("member", attr), where=attr, pristine=False)
                    else:
                        v = ("obj", ("member", attr))
                    self.store(s.target, v, state, s.iter)
                body = [_Bind(bind)] + list(s.body)
                before = r.fields[attr]
                res = self.loop(None, body, s.orelse, r, nondet_first=True)
                for x in res:
                    if x.fields.get(attr) != before and x.epoch == r.epoch:
                        raise Unsupported(f"{self.qual}: self.{attr} is modified while it is iterated")
                out += res
            else:
                def bind2(state):
                    self.store(s.target, ("top",), state, s.iter)
                out += self.loop(None, [_Bind(bind2)] + list(s.body), s.orelse, r)
        return out

    def try_stmt(self, s: ast.Try, st: St) -> List[St]:
        names = set()
        for h in s.handlers:
            if h.type is None:
                names.add(None)
            else:
                for x in (h.type.elts if isinstance(h.type, ast.Tuple) else [h.type]):
                    names.add((dotted(x) or "?").split(".")[-1])
        self._catch.append(names)
        try:
            outs = self.block(s.body, [st])
        finally:
            self._catch.pop()
        result = []
        normal = []
        for o in outs:
            if o.exit is None:
                normal.append(o)
            elif o.exit[0] == "raise":
                name = o.exit[1]
                fam = {name} | _EXC_PARENTS.get(name, set())
                hit = None
                for h in s.handlers:
                    hn = {None} if h.type is None else {(dotted(x) or "?").split(".")[-1] for x in (h.type.elts if isinstance(h.type, ast.Tuple) else [h.type])}
                    if (hn & _CATCH_ALL) or (hn & fam) or name == "?":
                        hit = h
                        break
                if hit is None:
                    result.append(o)
                else:
                    o.exit = None
                    if hit.name:
                        o.locs[hit.name] = ("exc", name)
                    result += self.block(hit.body, [o])
            else:
                result.append(o)
        if normal:
            result += self.block(s.orelse, normal) if s.orelse else normal
        if s.finalbody:
            fin = []
            for o in result:
                saved, o.exit = o.exit, None
                for r in self.block(s.finalbody, [o]):
                    if r.exit is None:
                        r.exit = saved
                    fin.append(r)
            result = fin
        return result

    def delete(self, t, st: St) -> List[St]:
        if isinstance(t, ast.Subscript):
            idx = self.const_index(t.slice)
            outs = []
            for v, r in self.eval(t.value, st):
                if r.exit:
                    outs.append(r)
                    continue
                if v[0] == "listref" and idx in (0, -1):
                    outs += [x for _, x in self.list_pop(r, v[1], "first" if idx == 0 else "last", discard=True)]
                elif v[0] == "listref":
                    outs += self.havoc_list(r, v[1], f"del {src(t)}")
                else:
                    outs.append(r)
            return outs
        if isinstance(t, ast.Name):
            st.locs.pop(t.id, None)
            return [st]
        if isinstance(t, ast.Attribute) and isinstance(t.value, ast.Name) and t.value.id == "self":
            if t.attr in st.fields and st.fields[t.attr][0] == "list":
                raise Unsupported(f"{self.qual}: del {src(t)}")
            st.fields[t.attr] = ("top",)
            return [st]
        raise Unsupported(f"{self.qual}: del {src(t)}")

    def havoc_list(self, st: St, attr: str, what: str) -> List[St]:
        """An operation on a tracked container that is not modelled precisely: any length afterwards, and the
        discipline rules see an operation of unknown kind."""
        outs = []
        for rec in st.dfrs.values():
            if rec["where"] == attr:
                rec["stale"] = True
        for k in range(0, BIG + 1):
            s = st.copy()
            s.fields[attr] = ("list", k)
            s.lendelta[attr] = None
            s.add("listop", self.site(), attr, "unknown:" + what, None)
            outs.append(s)
        return outs

    def assign(self, targets, value, st: St) -> List[St]:
        if isinstance(value, ast.IfExp):
            t, f, ex = self.branch(value.test, st)
            out = list(ex)
            for x in t:
                out += self.assign(targets, value.body, x)
            for x in f:
                out += self.assign(targets, value.orelse, x)
            return out
        if len(targets) == 1 and isinstance(targets[0], (ast.Tuple, ast.List)) and isinstance(value, (ast.Tuple, ast.List)) \
                and len(targets[0].elts) == len(value.elts):
            # evaluate every right-hand side first, then store
            states = [([], st)]
            for e in value.elts:
                nxt = []
                for vals, cur in states:
                    if vals is None:
                        nxt.append((None, cur))
                        continue
                    for v, r in self.eval(e, cur):
                        if r.exit:
                            nxt.append((None, r))
                        else:
                            nxt.append((vals + [v], r))
                states = nxt
            out = []
            for vals, cur in states:
                if vals is None:
                    out.append(cur)
                    continue
                for t, v, e in zip(targets[0].elts, vals, value.elts):
                    self.store(t, v, cur, e)
                out.append(cur)
            return out
        out = []
        for v, r in self.eval(value, st):
            if r.exit:
                out.append(r)
                continue
            for t in targets:
                self.store(t, v, r, value)
            out.append(r)
        return out

    def assign_value(self, targets, v, rhs, st: St) -> List[St]:
        for t in targets:
            self.store(t, v, st, rhs)
        return [st]

    def drop_decisions_on(self, st: St, word: str):
        import re
        pat = re.compile(r"(?<![\w.])" + re.escape(word) + r"(?![\w])")
        for k in list(st.active):
            if pat.search(repr(k)):
                del st.active[k]

    def store(self, t, v, st: St, rhs: ast.AST):
        if isinstance(t, (ast.Tuple, ast.List)):
            for tt in t.elts:
                self.store(tt, ("top",), st, rhs)
            return
        if isinstance(t, ast.Starred):
            return self.store(t.value, ("top",), st, rhs)
        if isinstance(t, ast.Name):
            st.locs[t.id] = v
            st.alias.pop(t.id, None)
            for k in [k for k, e in st.alias.items() if t.id in {n.id for n in ast.walk(e) if isinstance(n, ast.Name)}]:
                st.alias.pop(k)
            self.drop_decisions_on(st, t.id)
            if _pure(rhs) and not isinstance(rhs, ast.Constant):
                e = _LenShift(st).visit(_Subst(st.alias).visit(clone(rhs)))
                if "self." in src(e) or isinstance(e, ast.Name):
                    st.alias[t.id] = e
            return
        if isinstance(t, ast.Attribute) and isinstance(t.value, ast.Name) and t.value.id == "self":
            attr = t.attr
            old = st.fields.get(attr)
            if old is not None and old[0] == "list":
                # rebinding a tracked container
                for rec in st.dfrs.values():
                    if rec["where"] == attr:
                        rec["where"] = None
                        rec["origin"] = ("dropped", attr)
                if v[0] == "newlist":
                    st.add("listop", self.site(), attr, "rebind-empty", None)
                    st.fields[attr] = ("list", 0)
                    st.lendelta[attr] = None
                    return
                if v == ("listref", attr):
                    return
                raise Unsupported(f"{self.qual}: tracked container self.{attr} rebound to {src(rhs)}")
            if v[0] == "newlist":
                v = ("list", 0)
                st.lendelta[attr] = 0
            delta = None
            if old is not None and old[0] == "int":
                lf = linform(_Subst(st.alias).visit(clone(rhs)))
                if lf is not None and lf[0] == {f"self.{attr}": 1} and float(lf[1]).is_integer():
                    delta = int(lf[1])
                elif lf is not None and not lf[0] and v[0] == "int" and abs(old[1]) < BIG and abs(v[1]) < BIG:
                    delta = v[1] - old[1]
            st.fields[attr] = v
            st.add("write", self.site(), attr, v)
            self.invalidate(st, attr)
            self.spec.on_write(st, attr, old, v, delta)
            return
        if isinstance(t, ast.Subscript):
            # store into a container: tracked lists lose their precise shape, anything else is outside the model
            base = t.value
            if isinstance(base, ast.Attribute) and isinstance(base.value, ast.Name) and base.value.id == "self" \
                    and st.fields.get(base.attr, ("x",))[0] == "list":
                raise Unsupported(f"{self.qual}: element store {src(t)}")
            return
        if isinstance(t, ast.Attribute):
            return  # attribute of some other object: outside the model
        raise Unsupported(f"{self.qual}: assignment target {src(t)}")

    def invalidate(self, st: St, attr: str):
        key = f"self.{attr}"
        for k in list(st.active):
            if key in repr(k):
                del st.active[k]
        for k in [k for k, e in st.alias.items() if key in src(e)]:
            st.alias.pop(k)

    # ---- tests -----------------------------------------------------------------------------------
    def branch(self, e: ast.AST, st: St) -> Tuple[List[St], List[St], List[St]]:
        """-> (states where e is true, states where e is false, finished states)."""
        if isinstance(e, ast.BoolOp):
            if isinstance(e.op, ast.And):
                cur, falses, ex = [st], [], []
                for v in e.values:
                    nxt = []
                    for c in cur:
                        t, f, x = self.branch(v, c)
                        nxt += t
                        falses += f
                        ex += x
                    cur = nxt
                return cur, falses, ex
            cur, trues, ex = [st], [], []
            for v in e.values:
                nxt = []
                for c in cur:
                    t, f, x = self.branch(v, c)
                    trues += t
                    nxt += f
                    ex += x
                cur = nxt
            return trues, cur, ex
        if isinstance(e, ast.UnaryOp) and isinstance(e.op, ast.Not):
            t, f, x = self.branch(e.operand, st)
            return f, t, x
        if isinstance(e, ast.Compare):
            return self.compare(e, st)
        trues, falses, ex = [], [], []
        for v, r in self.eval(e, st):
            if r.exit:
                ex.append(r)
                continue
            tv = self.truth(v, r)
            if tv is None:
                t, f = self.decide(("truth", src(_LenShift(r).visit(_Subst(r.alias).visit(clone(e))))), None, r, e)
                trues += t
                falses += f
            else:
                (trues if tv else falses).append(r)
        return trues, falses, ex

    def truth(self, v, st: St) -> Optional[bool]:
        k = v[0]
        if k == "bool":
            return v[1]
        if k == "int":
            return v[1] != 0
        if k == "none":
            return False
        if k == "listref":
            return st.fields[v[1]][1] != 0
        if k == "newlist":
            return False
        if k in ("dfr", "obj", "self", "exc", "meth", "func"):
            return True
        if k == "const":
            return bool(v[1])
        return None

    def decide(self, key, negkey, st: St, node) -> Tuple[List[St], List[St]]:
        if key in st.active:
            return ([st], []) if st.active[key] else ([], [st])
        if negkey is not None and negkey in st.active:
            return ([], [st]) if st.active[negkey] else ([st], [])
        a, b = st, st.copy()
        a.active[key] = True
        b.active[key] = False
        a.add("decide", node, key, True)
        b.add("decide", node, key, False)
        return [a], [b]

    def compare(self, e: ast.Compare, st: St) -> Tuple[List[St], List[St], List[St]]:
        if len(e.ops) != 1:
            vals = [e.left] + list(e.comparators)
            parts = [ast.Compare(left=a, ops=[op], comparators=[b]) for a, op, b in zip(vals, e.ops, vals[1:])]
            return self.branch(ast.BoolOp(op=ast.And(), values=parts), st)
        op = e.ops[0]
        sub = _LenShift(st).visit(_Subst(st.alias).visit(clone(e)))
        r = self.spec.compare(st, sub)
        if r is not None:
            return ([st], [], []) if r else ([], [st], [])
        trues, falses, ex = [], [], []
        for lv, s1 in self.eval(e.left, st):
            if s1.exit:
                ex.append(s1)
                continue
            for rv, s2 in self.eval(e.comparators[0], s1):
                if s2.exit:
                    ex.append(s2)
                    continue
                res = self.cmp_values(op, lv, rv, s2, e)
                if isinstance(res, list):     # the comparison raised
                    ex += res
                    continue
                if res is None:
                    sub2 = _LenShift(s2).visit(_Subst(s2.alias).visit(clone(e)))
                    key = lincmp(sub2)
                    neg = lincmp(sub2, negate=True)
                    if key is None:
                        base = ("cmp", type(op).__name__, src(sub2.left), src(sub2.comparators[0]))
                        t, f = self.decide(base, None, s2, e)
                    else:
                        t, f = self.decide(key, neg, s2, e)
                    trues += t
                    falses += f
                else:
                    (trues if res else falses).append(s2)
        return trues, falses, ex

    def as_int(self, v, st: St) -> Optional[int]:
        if v[0] == "int":
            return v[1]
        if v[0] == "bool":
            return int(v[1])
        return None

    def cmp_values(self, op, lv, rv, st: St, node):
        """True / False / None (undecided -> symbolic decision) / list of finished states (it raised)."""
        if isinstance(op, (ast.Is, ast.IsNot, ast.Eq, ast.NotEq)):
            pos = isinstance(op, (ast.Is, ast.Eq))
            if lv[0] == "top" or rv[0] == "top":
                return None
            if lv[0] == "none" or rv[0] == "none":
                same = lv[0] == rv[0]
                return same if pos else not same
            if lv[0] == rv[0] and lv[0] in ("dfr", "self"):
                return (lv == rv) if pos else (lv != rv)
            for a, b in ((lv, rv), (rv, lv)):
                if a[0] == "listref" and b[0] == "newlist":
                    empty = st.fields[a[1]][1] == 0
                    return empty if pos else not empty
            if isinstance(op, (ast.Is, ast.IsNot)):
                return None
        if isinstance(op, (ast.In, ast.NotIn)):
            if lv[0] == "dfr" and rv[0] == "listref":
                inside = st.dfrs[lv[1]]["where"] == rv[1] and not st.dfrs[lv[1]]["stale"]
                if st.dfrs[lv[1]]["stale"]:
                    return None
                return inside if isinstance(op, ast.In) else not inside
            return None
        if isinstance(op, (ast.Lt, ast.LtE, ast.Gt, ast.GtE)) and (lv[0] == "none" or rv[0] == "none"):
            return self.throw(st, "TypeError", "type-error", f"`{src(node)}` orders an integer against None (TypeError) for this state", node)
        if (lv[0] == "inf") != (rv[0] == "inf") and (lv[0] in ("int", "sym", "bool", "inf")) and (rv[0] in ("int", "sym", "bool", "inf")):
            # finite integer against +/- infinity
            inf_left = lv[0] == "inf"
            sign = (lv if inf_left else rv)[1]
            less = (sign < 0) if inf_left else (sign > 0)       # is left < right ?
            if isinstance(op, (ast.Lt, ast.LtE)):
                return less
            if isinstance(op, (ast.Gt, ast.GtE)):
                return not less
            if isinstance(op, ast.Eq):
                return False
            if isinstance(op, ast.NotEq):
                return True
        a, b = self.as_int(lv, st), self.as_int(rv, st)
        if a is not None and b is not None:
            return a_cmp(op, a, b)
        return None

    # ---- expressions ------------------------------------------------------------------------------
    def const_index(self, sl) -> Optional[int]:
        if isinstance(sl, ast.Constant) and isinstance(sl.value, int):
            return sl.value
        if isinstance(sl, ast.UnaryOp) and isinstance(sl.op, ast.USub) and isinstance(sl.operand, ast.Constant):
            return -sl.operand.value
        return None

    def eval(self, e: ast.AST, st: St) -> List[Tuple[tuple, St]]:
        if isinstance(e, ast.Constant):
            v = e.value
            if v is None:
                return [(("none",), st)]
            if isinstance(v, bool):
                return [(("bool", v), st)]
            if isinstance(v, int):
                return [(("int", max(-BIG, min(BIG, v))), st)]
            return [(("const", v), st)]
        if isinstance(e, ast.Name):
            if e.id == "self":
                return [(("self",), st)]
            if e.id in st.locs:
                return [(st.locs[e.id], st)]
            if e.id in ("True", "False", "None"):
                return [({"True": ("bool", True), "False": ("bool", False), "None": ("none",)}[e.id], st)]
            mv = self.mod.module_assign(e.id)
            if mv is not None and self._depth_const < 3:
                self._depth_const += 1
                try:
                    if isinstance(mv, (ast.Constant, ast.UnaryOp, ast.BinOp)) or (isinstance(mv, ast.Call) and dotted(mv.func) == "float"):
                        return self.eval(mv, st)
                finally:
                    self._depth_const -= 1
            return [(("top",), st)]
        if isinstance(e, ast.Attribute) and isinstance(e.value, ast.Name) and e.value.id == "self":
            a = e.attr
            if a in st.fields:
                v = st.fields[a]
                return [((("listref", a) if v[0] == "list" else v), st)]
            r = mro_lookup(self.mod, self.cls, a)
            if r and isinstance(r[1], (ast.FunctionDef, ast.AsyncFunctionDef)):
                return [(("meth", a), st)]
            return [(("top",), st)]
        if isinstance(e, ast.Attribute) and dotted(e) in ("math.inf", "sys.maxsize"):
            return [(("inf", 1), st)]
        if isinstance(e, ast.Attribute):
            out = []
            for v, r in self.eval(e.value, st):
                if r.exit:
                    out.append((None, r))
                elif v[0] == "dfr" and e.attr == "called" and not r.dfrs[v[1]]["stale"]:
                    # members of the pending lists are unfired: guaranteed by the fire/detached and canceller rules
                    out.append((("bool", r.dfrs[v[1]]["fired"] is not None), r))
                elif v[0] == "listref":
                    out.append((("listmeth", v[1], e.attr), r))
                elif v[0] == "dfr" and e.attr in ("callback", "errback"):
                    out.append((("dfrmeth", v[1], e.attr), r))
                else:
                    out.append((("top",), r))
            return out
        if isinstance(e, (ast.List, ast.Tuple)) and not e.elts:
            return [(("newlist",), st)]
        if isinstance(e, (ast.BoolOp, ast.Compare)) or (isinstance(e, ast.UnaryOp) and isinstance(e.op, ast.Not)):
            t, f, x = self.branch(e, st)
            return [(("bool", True), s) for s in t] + [(("bool", False), s) for s in f] + [(None, s) for s in x]
        if isinstance(e, ast.IfExp):
            t, f, x = self.branch(e.test, st)
            out = [(None, s) for s in x]
            for s in t:
                out += self.eval(e.body, s)
            for s in f:
                out += self.eval(e.orelse, s)
            return out
        if isinstance(e, ast.UnaryOp) and isinstance(e.op, ast.USub):
            out = []
            for v, r in self.eval(e.operand, st):
                if r.exit:
                    out.append((None, r))
                elif v[0] == "int":
                    out.append((("int", -v[1]), r))
                else:
                    out.append((("top",), r))
            return out
        if isinstance(e, ast.BinOp):
            out = []
            for lv, s1 in self.eval(e.left, st):
                if s1.exit:
                    out.append((None, s1))
                    continue
                for rv, s2 in self.eval(e.right, s1):
                    if s2.exit:
                        out.append((None, s2))
                        continue
                    a, b = self.as_int(lv, s2), self.as_int(rv, s2)
                    if a is None or b is None or not isinstance(e.op, (ast.Add, ast.Sub)):
                        if lv[0] in ("sym", "int") and rv[0] in ("sym", "int"):
                            out.append((("sym", src(e)), s2))
                        else:
                            out.append((("top",), s2))
                        continue
                    if isinstance(e.op, ast.Sub):
                        b = -b
                    res = a_add(a, b)
                    for i, k in enumerate(res):
                        out.append((("int", k), s2 if i == len(res) - 1 else s2.copy()))
            return out
        if isinstance(e, ast.Subscript):
            idx = self.const_index(e.slice)
            out = []
            for v, r in self.eval(e.value, st):
                if r.exit:
                    out.append((None, r))
                    continue
                if v[0] != "listref":
                    out.append((("top",), r))
                    continue
                attr = v[1]
                if idx not in (0, -1):
                    if self.spec.list_elems.get(attr) == "dfr":
                        out.append((r.new_dfr(origin=("member", attr), where=attr, pristine=False), r))
                    else:
                        out.append((("obj", ("member", attr)), r))
                    continue
                if r.fields[attr][1] == 0:
                    out += [(None, x) for x in self.throw(r, "IndexError", "container/empty-access",
                                                          f"`{src(e)}` reads from an empty self.{attr} (IndexError)")]
                    continue
                if self.spec.list_elems.get(attr) == "dfr":
                    out.append((r.new_dfr(origin=("peek", attr, idx), where=attr, pristine=False), r))
                else:
                    out.append((("obj", ("peek", attr, idx)), r))
            return out
        if isinstance(e, ast.Call):
            return self.call(e, st)
        if isinstance(e, ast.Lambda):
            return [(("func", e), st)]
        if isinstance(e, ast.JoinedStr):
            return [(("const", ""), st)]
        if isinstance(e, (ast.List, ast.Tuple, ast.Set, ast.Dict, ast.ListComp, ast.GeneratorExp, ast.SetComp, ast.DictComp, ast.Starred)):
            return [(("top",), st)]
        raise Unsupported(f"{self.qual}: expression not modelled: {src(e)[:80]}")

    def eval_args(self, args, st: St) -> List[Tuple[list, St]]:
        states = [([], st)]
        for a in args:
            if isinstance(a, ast.Starred):
                a = a.value
            nxt = []
            for vals, cur in states:
                if vals is None:
                    nxt.append((None, cur))
                    continue
                for v, r in self.eval(a, cur):
                    nxt.append((None, r) if r.exit else (vals + [v], r))
            states = nxt
        return states

    def is_exception_class(self, name: str, seen=None) -> bool:
        if name in _EXC_BUILTINS:
            return True
        seen = seen or set()
        if name in seen:
            return False
        seen.add(name)
        c = self.mod.find(name)
        if isinstance(c, ast.ClassDef):
            for b in c.bases:
                d = dotted(b)
                if d and self.is_exception_class(d.split(".")[-1], seen):
                    return True
        return False

    def opaque_call(self, e: ast.Call, st: St, what: str) -> List[Tuple[tuple, St]]:
        """A call the model knows nothing about.  If the object is consistent here, treating it as a call-out that
        may re-enter (havoc to any invariant state) over-approximates whatever it does; otherwise the analysis
        cannot tell whether the inconsistency is observable and gives up on this method."""
        out = []
        for vals, r in self.eval_args(list(e.args) + [k.value for k in e.keywords], st):
            if vals is None:
                out.append((None, r))
                continue
            bad = self.spec.invariant(r)
            if bad:
                raise Unsupported(f"{self.qual}: unmodelled call `{src(e)[:60]}` ({what}) while the object is inconsistent ({bad})")
            self.notes.append(f"{self.qual}: `{src(e)[:60]}` treated as an opaque call-out")
            for s in self.callout(r, e, check=False):
                s.tainted = True
                out.append((("top",), s))
        return out

    def call(self, e: ast.Call, st: St) -> List[Tuple[tuple, St]]:
        fn = dotted(e.func)
        last = fn.split(".")[-1] if fn else None
        # ---- constructors / pure helpers
        if fn in ("Deferred", "defer.Deferred"):
            cexpr = None
            for kw in e.keywords:
                if kw.arg == "canceller":
                    cexpr = kw.value
            if cexpr is None and e.args:
                cexpr = e.args[0]
            if cexpr is None:
                return [(st.new_dfr(), st)]
            out = []
            for v, r in self.eval(cexpr, st):
                out.append((None, r) if r.exit else (r.new_dfr(canceller=v), r))
            return out
        if fn in ("succeed", "defer.succeed", "fail", "defer.fail") and len(e.args) <= 1 and not e.keywords:
            how = "callback" if last == "succeed" else "errback"
            if not e.args:
                return [(st.new_dfr(origin=(last,), fired=(how, ("none",))), st)]
            out = []
            for v, r in self.eval(e.args[0], st):
                out.append((None, r) if r.exit else (r.new_dfr(origin=(last,), fired=(how, v)), r))
            return out
        if fn == "len" and len(e.args) == 1:
            out = []
            for v, r in self.eval(e.args[0], st):
                if r.exit:
                    out.append((None, r))
                elif v[0] == "listref":
                    out.append((("int", r.fields[v[1]][1]), r))
                else:
                    out.append((("top",), r))
            return out
        if fn in ("list", "deque", "collections.deque") and not e.args:
            return [(("newlist",), st)]
        if fn == "float" and len(e.args) == 1 and isinstance(e.args[0], ast.Constant) and str(e.args[0].value).lower().lstrip("+-") in ("inf", "infinity"):
            return [(("inf", -1 if str(e.args[0].value).startswith("-") else 1), st)]
        if fn == "cast" and len(e.args) == 2:
            return self.eval(e.args[1], st)
        if fn == "bool" and len(e.args) == 1 and not e.keywords:
            t, f, x = self.branch(e.args[0], st)
            return [(("bool", True), s_) for s_ in t] + [(("bool", False), s_) for s_ in f] + [(None, s_) for s_ in x]
        if fn in _PURE_FUNCS or (fn and (fn.rsplit(".", 1)[0] in _PURE_ROOTS or fn.split(".")[0] in ("log", "_log", "logging", "warnings"))):
            return [((("top",) if vals is not None else None), r) for vals, r in self.eval_args(e.args, st)]
        if isinstance(e.func, ast.Name) and self.is_exception_class(e.func.id):
            return [(("exc", e.func.id), st)]
        if fn and len(fn.split(".")) == 2 and fn.split(".")[0] in ("error", "defer") and (last.endswith("Error") or last.startswith("Already")):
            return [(("exc", last), st)]
        if fn in ("Failure", "failure.Failure"):
            return [(("obj", "failure"), st)]
        # ---- base-class initialiser
        if isinstance(e.func, ast.Attribute) and e.func.attr == "__init__":
            base = e.func.value
            bname = None
            if isinstance(base, ast.Name):
                bname = base.id
            elif isinstance(base, ast.Call) and dotted(base.func) == "super":
                from sa.source import base_names
                bs = base_names(self.cls)
                bname = bs[0] if bs else None
            bc = self.mod.find(bname) if bname else None
            if isinstance(bc, ast.ClassDef) and "__init__" in methods(bc):
                args = e.args[1:] if isinstance(base, ast.Name) else e.args
                return self.inline(methods(bc)["__init__"], bc, args, e.keywords, st)
            return [(("none",), st)]
        # ---- method calls
        if isinstance(e.func, ast.Attribute):
            m = e.func.attr
            out = []
            for recv, r in self.eval(e.func.value, st):
                if r.exit:
                    out.append((None, r))
                    continue
                if recv[0] == "self":
                    res = mro_lookup(self.mod, self.cls, m)
                    if not res or not isinstance(res[1], (ast.FunctionDef, ast.AsyncFunctionDef)):
                        out += self.opaque_call(e, r, f"self.{m} is not defined in the analysed module")
                    elif e.keywords or any(isinstance(a, ast.Starred) for a in e.args) or self._depth >= self.MAX_DEPTH \
                            or self.qualname(res[0], res[1]) in self._qual:
                        out += self.opaque_call(e, r, "internal call that cannot be inlined")
                    else:
                        out += self.inline(res[1], res[0], e.args, e.keywords, r)
                elif recv[0] == "listref":
                    out += self.list_call(recv[1], m, e, r)
                elif recv[0] == "dfr" and m in ("callback", "errback"):
                    for vals, r2 in self.eval_args(e.args, r):
                        if vals is None:
                            out.append((None, r2))
                            continue
                        arg = vals[0] if vals else ("none",)
                        for r3 in self.fire(recv, m, arg, r2, e):
                            out.append(((("none",) if not r3.exit else None), r3))
                elif recv[0] == "dfr" and m in ("addCallback", "addErrback", "addBoth", "addCallbacks") and r.dfrs[recv[1]]["fired"] is None \
                        and not r.dfrs[recv[1]]["stale"]:
                    r.dfrs[recv[1]]["pristine"] = False   # it now has callbacks: firing it runs user-visible code
                    for vals, r2 in self.eval_args(list(e.args) + [k.value for k in e.keywords], r):
                        out.append((None, r2) if vals is None else (recv, r2))
                else:
                    out += self.opaque_call(e, r, f"method {m} of a {recv[0]} value")
            return out
        if isinstance(e.func, ast.Name) and st.locs.get(e.func.id, ("x",))[0] == "listmeth":
            _, attr, m = st.locs[e.func.id]
            return self.list_call(attr, m, e, st)
        if isinstance(e.func, ast.Name) and st.locs.get(e.func.id, ("x",))[0] == "dfrmeth":
            _, did, m = st.locs[e.func.id]
            out = []
            for vals, r2 in self.eval_args(e.args, st):
                if vals is None:
                    out.append((None, r2))
                    continue
                for r3 in self.fire(("dfr", did), m, vals[0] if vals else ("none",), r2, e):
                    out.append(((("none",) if not r3.exit else None), r3))
            return out
        return self.opaque_call(e, st, "unknown function")

    def inline(self, func, owner, args, keywords, st: St) -> List[Tuple[tuple, St]]:
        static = any((dotted(d) or "").split(".")[-1] == "staticmethod" for d in func.decorator_list)
        params = [a.arg for a in func.args.posonlyargs + func.args.args][0 if static else 1:]
        out = []
        for vals, r in self.eval_args(args, st):
            if vals is None:
                out.append((None, r))
                continue
            nd = len(func.args.defaults)
            if len(vals) > len(params) or len(vals) < len(params) - nd:
                raise Unsupported(f"{self.qual}: arity of internal call {func.name}")
            vals = vals + [("top",)] * (len(params) - len(vals))
            saved = (r.locs, r.alias)
            r.frames = r.frames + (saved,)
            new_alias = {}
            for p_, a_ in zip(params, args):
                if not isinstance(a_, ast.Starred) and _pure(a_) and not isinstance(a_, ast.Constant):
                    ae = _LenShift(r).visit(_Subst(r.alias).visit(clone(a_)))
                    if "self." in src(ae):
                        new_alias[p_] = ae
            r.locs = dict(zip(params, vals))
            r.alias = new_alias
            self._depth += 1
            self._qual.append(self.qualname(owner, func))
            saved_catch, self._catch = self._catch, list(self._catch)
            try:
                finals = self.block(func.body, [r])
            finally:
                self._qual.pop()
                self._depth -= 1
                self._catch = saved_catch
            for f in finals:
                locs, alias = f.frames[-1]
                f.frames = f.frames[:-1]
                f.locs, f.alias = dict(locs), dict(alias)
                if f.exit is None:
                    out.append((("none",), f))
                elif f.exit[0] == "return":
                    v = f.exit[1]
                    f.exit = None
                    out.append((v, f))
                elif f.exit[0] == "raise":
                    out.append((None, f))
                else:
                    raise Unsupported(f"{self.qual}: {f.exit[0]} outside a loop in {func.name}")
        return out

    # ---- containers ---------------------------------------------------------------------------------
    def set_len(self, st: St, attr: str, ks: List[int], delta: Optional[int] = 0) -> List[St]:
        outs = []
        for i, k in enumerate(ks):
            s = st if i == len(ks) - 1 else st.copy()
            s.fields[attr] = ("list", k)
            if delta is None or s.lendelta.get(attr) is None or abs(s.lendelta.get(attr, 0) + delta) > BIG + 1:
                s.lendelta[attr] = None   # widening: the offset from the entry length is no longer tracked
            else:
                s.lendelta[attr] = s.lendelta.get(attr, 0) + delta
            outs.append(s)
        return outs

    def list_pop(self, st: St, attr: str, end: str, discard=False) -> List[Tuple[tuple, St]]:
        n = st.fields[attr][1]
        if n == 0:
            return [(None, x) for x in self.throw(st, "IndexError", "container/empty-access", f"pop from an empty self.{attr} (IndexError)")]
        out = []
        for s in self.set_len(st, attr, [k for k in a_add(n, -1) if k >= 0], -1):
            s.add("listop", self.site(), attr, "pop_" + end, None)
            idx = 0 if end == "first" else -1
            for rec in s.dfrs.values():
                if rec["where"] == attr and rec["origin"][0] == "peek" and rec["origin"][2] == idx:
                    rec["where"] = None
                    rec["origin"] = ("popped", attr, end)
            for k, lv_ in list(s.locs.items()):
                if lv_ == ("obj", ("peek", attr, idx)):
                    s.locs[k] = ("obj", ("popped", attr, end))
            if self.spec.list_elems.get(attr) == "dfr":
                v = s.new_dfr(origin=("popped", attr, end), pristine=False)
            else:
                v = ("obj", ("popped", attr, end))
            out.append((v, s))
        return out

    def list_call(self, attr: str, m: str, e: ast.Call, st: St) -> List[Tuple[tuple, St]]:
        out = []
        for vals, r in self.eval_args(e.args, st):
            if vals is None:
                out.append((None, r))
                continue
            n = r.fields[attr][1]
            if e.keywords and m not in ("sort",):
                out += [(("top",), s) for s in self.havoc_list(r, attr, m)]
            elif m in ("append", "appendleft") or (m == "insert" and len(vals) == 2 and vals[0] == ("int", 0)):
                v = vals[-1]
                kind = "append" if m == "append" else "appendleft"
                if v[0] == "dfr":
                    rec = r.dfrs[v[1]]
                    if rec["where"] is not None:
                        self.problem("container/double-enqueue", r, f"a Deferred already queued in self.{rec['where']} is enqueued again")
                    rec["where"] = attr
                for s in self.set_len(r, attr, [min(BIG, n + 1)], +1):
                    s.add("listop", self.site(), attr, kind, v)
                    out.append((("none",), s))
            elif m == "popleft" or (m == "pop" and vals == [("int", 0)]):
                out += self.list_pop(r, attr, "first")
            elif m == "pop" and (not vals or vals == [("int", -1)]):
                out += self.list_pop(r, attr, "last")
            elif m == "remove" and len(vals) == 1:
                v = vals[0]
                member = v[0] == "dfr" and r.dfrs[v[1]]["where"] == attr and not r.dfrs[v[1]]["stale"]
                if v[0] == "dfr" and r.dfrs[v[1]]["stale"]:
                    # may or may not still be there
                    out += [(None, x) for x in self.throw(r.copy(), "ValueError", "container/remove-nonmember",
                                                           f"`{src(e)}`: the element may have left self.{attr} during the call-out (ValueError)")]
                    member = n != 0
                if not member or n == 0:
                    out += [(None, x) for x in self.throw(r, "ValueError", "container/remove-nonmember",
                                                          f"`{src(e)}` removes an element that is not known to be in self.{attr} (ValueError)")]
                    continue
                for s in self.set_len(r, attr, [k for k in a_add(n, -1) if k >= 0], -1):
                    rec = s.dfrs[v[1]]
                    rec["where"] = None
                    rec["origin"] = ("removed", attr)
                    s.add("listop", self.site(), attr, "remove", v)
                    out.append((("none",), s))
            elif m == "clear":
                for rec in r.dfrs.values():
                    if rec["where"] == attr:
                        rec["where"] = None
                        rec["origin"] = ("dropped", attr)
                for s in self.set_len(r, attr, [0], None):
                    s.add("listop", self.site(), attr, "clear", None)
                    out.append((("none",), s))
            elif m in ("sort", "reverse"):
                r.add("listop", self.site(), attr, m, None)
                out.append((("none",), r))
            elif m in ("index", "count", "copy", "__len__", "__contains__"):
                out.append((("top",), r))
            else:
                out += [(("top",), s) for s in self.havoc_list(r, attr, m)]
        return out

    # ---- firing / call-outs ---------------------------------------------------------------------------
    def fire(self, dv, how: str, arg, st: St, node) -> List[St]:
        rec = st.dfrs[dv[1]]
        self.mark("fire/once", node)
        self.mark("fire/detached", node)
        if rec["fired"] is not None:
            return self.throw(st, "AlreadyCalledError", "fire/once", "a Deferred that has already been fired is fired again (AlreadyCalledError)", node)
        if rec["stale"]:
            return self.throw(st, "AlreadyCalledError", "fire/once",
                              "a queued Deferred is fired after a call-out without re-checking that it is still pending", node)
        if rec["where"] is not None:
            self.problem("fire/detached", st, f"a Deferred is fired while it is still in self.{rec['where']} "
                         "(re-entrant code sees it queued; it will be fired a second time or its canceller fails)", node)
        rec["fired"] = (how, arg)
        st.add("fire", self.site(), dv[1], how, arg)
        self.spec.on_fire(st, rec, how, arg, node)
        if rec["pristine"]:
            return [st]
        return self.callout(st, node)

    def callout(self, st: St, node, check: bool = True) -> List[St]:
        if check:
            self.mark("invariant/call-out", node)
            bad = self.spec.invariant(st)
            if bad:
                self.problem("invariant/call-out", st, f"user callbacks run here while the object is inconsistent: {bad} "
                             f"[state at the call-out: {describe_state(st.fields, st.ghost)}]", node)
        st.add("callout", self.site())
        outs = []
        for fields, ghost in self.spec.states():
            s = st.copy()
            for k, v in fields.items():
                s.fields[k] = v
            s.ghost = dict(ghost)
            s.active = {}
            s.epoch = 1
            s.lendelta = {k: 0 for k in s.lendelta}
            s.alias = {k: e for k, e in s.alias.items() if "self." not in src(e)}
            for rec in s.dfrs.values():
                if rec["where"] is not None:
                    rec["stale"] = True
                rec["pristine"] = False
            s.add("basis", None, dict(s.fields))
            outs.append(s)
        return outs


def make_state(fields: dict, ghost: dict) -> St:
    s = St()
    s.fields = dict(fields)
    s.lendelta = {k: 0 for k, v in fields.items() if v[0] == "list"}
    s.ghost = dict(ghost)
    s.pre = describe_state(fields, ghost)
    return s


# ---- glue shared by C06 / C07 ------------------------------------------------------------------
DOMAIN_NOTE = ("abstract interpretation from EVERY abstract state satisfying the invariant (container lengths 0,1,2,>=3; integers "
               "-2..2 exact, <=-3, >=3; booleans; None/int for limits): each concrete state is represented by one of them, every "
               "operation of the method is modelled by a sound over-approximation (splits into all possible abstract results), "
               "undecidable tests are followed both ways, so the verdict covers all concrete states and histories")


def report_interp(ctx, interp, detail: str = DOMAIN_NOTE):
    """Turn the interpreter's marks/problems into obligations (one per rule x site)."""
    for n in sorted(set(interp.notes)):
        ctx.note(n)
    for n in sorted(set(interp.uncertain)):
        ctx.errors.append(n)
    bad = {}
    for p in interp.problems:
        key = (p.rule, p.qual, src(p.node) if p.node is not None else "")
        bad.setdefault(key, p)
    keys = set(interp.checked) | set(bad)
    for key in sorted(keys, key=lambda k: (k[1], k[0], k[2])):
        rule, qual, text = key
        node = interp.checked.get(key)
        p = bad.get(key)
        construct = ctx.construct(qual, node if node is not None else (p.node if p is not None and p.node is not None else None))
        if p is None:
            ctx.ok(rule, construct, detail)
        else:
            ctx.violation(rule, construct, p.msg, witness=f"abstract pre-state: {p.pre}")



def exit_check(ctx, interp, spec, qual, finals, what="invariant/exit"):
    bad = None
    for f in finals:
        if f.exit[0] != "return":
            continue
        r = spec.invariant(f)
        if r and f.tainted:
            interp.uncertain.append(f"{qual}: after an unmodelled call, {what} cannot be decided")
            continue
        if r and bad is None:
            bad = (r, f)
    node = bad[1].exit[2] if bad and bad[1].exit[2] is not None else None
    ctx.check(bad is None, what, ctx.construct(qual, node) if node is not None else qual + " | <normal exit>",
              bad[0] if bad else "", detail=f"{len(finals)} abstract paths from all abstract invariant states; " + DOMAIN_NOTE,
              witness=f"abstract pre-state: {bad[1].pre}" if bad else "")


FILL_BACK, FILL_FRONT = {"append"}, {"appendleft", "insert0"}
TAKE_FRONT, TAKE_BACK = {"pop_first"}, {"pop_last"}


def fifo_rule(ctx, mod, cls, MODNAME, attr, cancellers, rule="queue/fifo", floor=3):
    acc = [a for a in class_accesses(mod, cls, {attr}, receivers={"self"})]
    for b in cls.bases:
        bc = mod.find(dotted(b) or "")
        if isinstance(bc, ast.ClassDef):
            acc += [a for a in class_accesses(mod, bc, {attr}, receivers={"self"})]
    def norm_kind(a):
        if a.kind == "delitem" and isinstance(a.node, ast.Delete):
            for t in a.node.targets:
                if isinstance(t, ast.Subscript):
                    i = t.slice
                    if isinstance(i, ast.Constant) and i.value == 0:
                        return "pop_first"
                    if isinstance(i, ast.UnaryOp) and isinstance(i.op, ast.USub) and isinstance(i.operand, ast.Constant) and i.operand.value == 1:
                        return "pop_last"
        return a.kind
    acc = [a._replace(kind=norm_kind(a)) for a in acc]
    called = {id(c.func) for k in [cls] + [b for b in (mod.find(dotted(x) or "") for x in cls.bases) if isinstance(b, ast.ClassDef)]
              for c in ast.walk(k) if isinstance(c, ast.Call)}
    from sa.effects import Access
    for k in [cls] + [b for b in (mod.find(dotted(x) or "") for x in cls.bases) if isinstance(b, ast.ClassDef)]:
        for name, fdef in methods(k).items():
            for n in ast.walk(fdef):
                if isinstance(n, ast.Attribute) and id(n) not in called and isinstance(n.value, ast.Attribute) and _sattr(n.value, attr) \
                        and n.attr in ("append", "appendleft", "popleft", "remove", "clear", "extend", "insert", "pop", "sort", "reverse"):
                    kind = {"append": "append", "appendleft": "appendleft", "popleft": "pop_first", "remove": "remove"}.get(n.attr, "bound:" + n.attr)
                    acc.append(Access(f"{k.name}.{name}", attr, kind, n, True, "self"))
    fills = {a.kind for a in acc if a.kind in FILL_BACK | FILL_FRONT}
    for a in acc:
        fn = a.func.split(".", 1)[1]
        c = ctx.construct(f"{MODNAME}.{a.func}", a.node)
        if fn == "__init__":
            ctx.check(a.kind in ("assign", "rebind-empty"), rule, c, f"unexpected operation {a.kind} on {attr} in __init__")
        elif a.kind in FILL_BACK | FILL_FRONT:
            ctx.check(len({k in FILL_BACK for k in fills}) == 1, rule, c,
                      f"self.{attr} is filled at both ends: request order is not kept")
        elif a.kind in TAKE_FRONT | TAKE_BACK:
            ok = (a.kind in TAKE_FRONT and fills <= FILL_BACK) or (a.kind in TAKE_BACK and fills <= FILL_FRONT)
            ctx.check(ok and bool(fills), rule, c,
                      f"self.{attr} is consumed at the end where it is filled ({a.kind} against {sorted(fills)}): the newest "
                      "request is served first, not the oldest")
        elif a.kind == "remove":
            ctx.check(fn in cancellers, rule, c, f"self.{attr}.remove outside the canceller")
        else:
            ctx.violation(rule, c, f"operation of kind '{a.kind}' on self.{attr} does not keep the FIFO of pending requests")
    ctx.floor(rule + ":" + cls.name + "." + attr, len(acc), floor)


# =========================================================================== Part 2: linear forms
def linform(e: ast.AST, subst: Optional[Dict[str, tuple]] = None):
    """expr -> ({term text: coef}, const) over numbers (ints and floats); None if not linear.
    ``subst`` maps a term text (a local name, "self.attr") to a linear form replacing it."""
    subst = subst or {}
    if isinstance(e, ast.Constant):
        if isinstance(e.value, bool) or not isinstance(e.value, (int, float)):
            return None
        return {}, e.value
    if isinstance(e, ast.UnaryOp) and isinstance(e.op, (ast.USub, ast.UAdd)):
        r = linform(e.operand, subst)
        if r is None:
            return None
        if isinstance(e.op, ast.UAdd):
            return r
        return {k: -v for k, v in r[0].items()}, -r[1]
    if isinstance(e, ast.BinOp) and isinstance(e.op, (ast.Add, ast.Sub)):
        a, b = linform(e.left, subst), linform(e.right, subst)
        if a is None or b is None:
            return None
        sg = 1 if isinstance(e.op, ast.Add) else -1
        out = dict(a[0])
        for k, v in b[0].items():
            out[k] = out.get(k, 0) + sg * v
        return {k: v for k, v in out.items() if v}, a[1] + sg * b[1]
    if isinstance(e, ast.BinOp) and isinstance(e.op, ast.Mult):
        a, b = linform(e.left, subst), linform(e.right, subst)
        if a is None or b is None:
            return None
        for x, y in ((a, b), (b, a)):
            if not x[0]:
                return {k: v * x[1] for k, v in y[0].items() if v * x[1]}, y[1] * x[1]
        return None
    if isinstance(e, (ast.Name, ast.Attribute, ast.Call, ast.Subscript)):
        t = src(e)
        if t in subst:
            v = subst[t]
            return (dict(v[0]), v[1]) if v is not None else None
        return {t: 1}, 0
    return None


def lin_sub(a, b):
    out = dict(a[0])
    for k, v in b[0].items():
        out[k] = out.get(k, 0) - v
    return {k: v for k, v in out.items() if v}, a[1] - b[1]


def lin_add(a, b):
    return lin_sub(a, ({k: -v for k, v in b[0].items()}, -b[1]))


def lin_eq(a, b) -> bool:
    d = lin_sub(a, b)
    return not d[0] and d[1] == 0


def lin_text(a) -> str:
    if a is None:
        return "<opaque>"
    parts = []
    for k, v in sorted(a[0].items()):
        parts.append(("+" if v > 0 else "-") + ("" if abs(v) == 1 else f"{abs(v)}*") + k)
    if a[1] or not parts:
        parts.append(("+" if a[1] >= 0 else "-") + repr(abs(a[1])))
    s = " ".join(parts)
    return s[1:] if s.startswith("+") else s


def lin_cmp(test: ast.AST, subst=None, negate=False):
    """Comparison of numbers -> (frozenset(terms), c, strict): ``sum >= c`` (strict False) or
    ``sum > c`` (strict True).  Floats, so ``a < b`` is *not* folded into ``a <= b - 1``."""
    while isinstance(test, ast.UnaryOp) and isinstance(test.op, ast.Not):
        negate = not negate
        test = test.operand
    if not (isinstance(test, ast.Compare) and len(test.ops) == 1):
        return None
    op = type(test.ops[0])
    if op not in (ast.Lt, ast.LtE, ast.Gt, ast.GtE):
        return None
    a, b = linform(test.left, subst), linform(test.comparators[0], subst)
    if a is None or b is None:
        return None
    if op in (ast.Lt, ast.LtE):
        a, b = b, a
        op = ast.Gt if op is ast.Lt else ast.GtE
    d = lin_sub(a, b)  # d > 0 or d >= 0
    terms, c, strict = d[0], -d[1], op is ast.Gt
    if negate:  # not (S >= c) == -S > -c ; not (S > c) == -S >= -c
        terms, c, strict = {k: -v for k, v in terms.items()}, -c, not strict
    return frozenset(terms.items()), c, strict


def lin_cmp_text(nf) -> str:
    return f"{lin_text((dict(nf[0]), 0))} {'>' if nf[2] else '>='} {nf[1]!r}"


class SymPath:
    def __init__(self):
        self.fields: Dict[str, object] = {}   # attr -> linform | None (opaque)
        self.locs: Dict[str, object] = {}
        self.preds: Dict[str, tuple] = {}     # boolean local -> (guard if true, guard if false, expr) captured when assigned
        self.guards: list = []                # (normal form | ("truth", text, polarity), node)
        self.events: list = []                # (kind, name, node, snapshot-of-fields)
        self.exit = None                      # ("return", node) | ("raise", text, node)

    def copy(self):
        p = SymPath()
        p.fields, p.locs = dict(self.fields), dict(self.locs)
        p.guards, p.events, p.exit = list(self.guards), list(self.events), self.exit
        p.preds = dict(self.preds)
        return p

    def subst(self):
        m = {}
        for k, v in self.locs.items():
            m[k] = v
        for k, v in self.fields.items():
            m["self." + k] = v
        return m


class SymExec:
    """Enumerates the acyclic paths of a loop-free method, keeping numeric attributes of ``self``
    as linear forms over their entry values (``attr@0``), parameters and opaque call terms."""

    def __init__(self, cls: ast.ClassDef, tracked, qual: str):
        self.cls = cls
        self.tracked = list(tracked)
        self.qual = qual
        self._depth = 0

    def run(self, func) -> List[SymPath]:
        p = SymPath()
        for a in self.tracked:
            p.fields[a] = ({a + "@0": 1}, 0)
        outs = self.block(func.body, [p])
        for o in outs:
            if o.exit is None:
                o.exit = ("return", None)
        return outs

    def block(self, stmts, paths):
        live, done = list(paths), []
        for s in stmts:
            nxt = []
            for p in live:
                for r in self.stmt(s, p):
                    (done if r.exit else nxt).append(r)
            live = nxt
        return live + done

    def value(self, e, p: SymPath):
        return linform(e, p.subst())

    def stmt(self, s, p: SymPath):
        if isinstance(s, ast.Pass) or (isinstance(s, ast.Expr) and isinstance(s.value, ast.Constant)):
            return [p]
        if isinstance(s, ast.If):
            t, f = self.branch(s.test, p)
            out = []
            for x in t:
                out += self.block(s.body, [x])
            for x in f:
                out += self.block(s.orelse, [x]) if s.orelse else [x]
            return out
        if isinstance(s, ast.Raise):
            p.exit = ("raise", src(s.exc) if s.exc is not None else "", s)
            return [p]
        if isinstance(s, ast.Return):
            if s.value is not None:
                self.calls_in(s.value, p, s)
            p.exit = ("return", s)
            return [p]
        if isinstance(s, ast.Assign) or (isinstance(s, ast.AnnAssign) and s.value is not None):
            targets = s.targets if isinstance(s, ast.Assign) else [s.target]
            outs = self.calls_in(s.value, p, s)
            for q in outs:
                for t in targets:
                    if isinstance(t, (ast.Tuple, ast.List)) and isinstance(s.value, (ast.Tuple, ast.List)) and len(t.elts) == len(s.value.elts):
                        vals = [self.value(v, q) for v in s.value.elts]
                        for tt, v in zip(t.elts, vals):
                            self.store(tt, v, q, s)
                    elif isinstance(t, (ast.Tuple, ast.List)):
                        for tt in t.elts:
                            self.store(tt, None, q, s)
                    else:
                        self.store(t, self.value(s.value, q), q, s)
            return outs
        if isinstance(s, ast.AnnAssign):
            return [p]
        if isinstance(s, ast.AugAssign):
            if not isinstance(s.op, (ast.Add, ast.Sub)):
                self.store(s.target, None, p, s)
                return [p]
            cur = self.value(s.target, p)
            inc = self.value(s.value, p)
            v = None if cur is None or inc is None else (lin_add(cur, inc) if isinstance(s.op, ast.Add) else lin_sub(cur, inc))
            self.store(s.target, v, p, s)
            return [p]
        if isinstance(s, ast.Expr):
            return self.calls_in(s.value, p, s)
        if isinstance(s, ast.Delete):
            for t in s.targets:
                flat = t.elts if isinstance(t, (ast.Tuple, ast.List)) else [t]
                for x in flat:
                    p.events.append(("delete", src(x), s, dict(p.fields)))
            return [p]
        if isinstance(s, ast.Assert):
            t, f = self.branch(s.test, p)
            return t
        raise Unsupported(f"{self.qual}: statement not modelled: {src(s)[:80]}")

    def store(self, t, v, p: SymPath, node):
        if isinstance(t, ast.Name):
            p.locs[t.id] = v
            p.preds.pop(t.id, None)
            val = getattr(node, "value", None)
            if isinstance(node, (ast.Assign, ast.AnnAssign)) and val is not None and not isinstance(getattr(node, "targets", [None])[0], (ast.Tuple, ast.List)):
                e, neg = val, False
                while isinstance(e, ast.UnaryOp) and isinstance(e.op, ast.Not):
                    e, neg = e.operand, not neg
                if isinstance(e, ast.Compare):
                    a, b = lin_cmp(e, p.subst(), negate=neg), lin_cmp(e, p.subst(), negate=not neg)
                    if a is not None:
                        p.preds[t.id] = (a, b, val)
        elif isinstance(t, ast.Attribute) and isinstance(t.value, ast.Name) and t.value.id == "self":
            p.fields[t.attr] = v
            p.events.append(("write", t.attr, node, dict(p.fields)))
        else:
            raise Unsupported(f"{self.qual}: assignment target {src(t)}")

    def calls_in(self, e, p: SymPath, node) -> List[SymPath]:
        """Record call events of expression ``e`` (inlining self-methods of the class)."""
        outs = [p]
        calls = [n for n in ast.walk(e) if isinstance(n, ast.Call)]
        for c in reversed(calls):  # innermost first is not guaranteed; order only matters between statements
            name = dotted(c.func) or src(c.func)
            ms = methods(self.cls)
            if name.startswith("self.") and name.count(".") == 1 and name[5:] in ms and not c.args and not c.keywords and self._depth < 3:
                nxt = []
                for q in outs:
                    saved = q.locs
                    q.locs = {}
                    self._depth += 1
                    finals = self.block(ms[name[5:]].body, [q])
                    self._depth -= 1
                    for f in finals:
                        if f.exit is None or f.exit[0] == "return":
                            f.exit = None
                        f.locs = dict(saved)
                        nxt.append(f)
                outs = nxt
            else:
                for q in outs:
                    q.events.append(("call", name, c, dict(q.fields)))
        return outs

    def branch(self, e, p: SymPath):
        if isinstance(e, ast.BoolOp):
            if isinstance(e.op, ast.And):
                cur, falses = [p], []
                for v in e.values:
                    nxt = []
                    for c in cur:
                        t, f = self.branch(v, c)
                        nxt += t
                        falses += f
                    cur = nxt
                return cur, falses
            cur, trues = [p], []
            for v in e.values:
                nxt = []
                for c in cur:
                    t, f = self.branch(v, c)
                    trues += t
                    nxt += f
                cur = nxt
            return trues, cur
        if isinstance(e, ast.UnaryOp) and isinstance(e.op, ast.Not):
            t, f = self.branch(e.operand, p)
            return f, t
        if isinstance(e, ast.Name) and e.id in p.preds:
            a, b = p, p.copy()
            gt, gf, _ = p.preds[e.id]
            a.guards.append((gt, e, True))
            b.guards.append((gf, e, False))
            return [a], [b]
        a, b = p, p.copy()
        nf_t = lin_cmp(e, p.subst())
        if nf_t is not None:
            a.guards.append((nf_t, e, True))
            b.guards.append((lin_cmp(e, p.subst(), negate=True), e, False))
        else:
            a.guards.append((("truth", src(e), True), e, True))
            b.guards.append((("truth", src(e), False), e, False))
        return [a], [b]

    @staticmethod
    def label(p: SymPath) -> str:
        return " and ".join(("" if pol else "not ") + src(n) for _, n, pol in p.guards) or "<unconditional>"


# =========================================================================== Part 3: MiniEval
class MiniRaise(Exception):
    def __init__(self, name):
        super().__init__(name)
        self.name = name


class MiniBudget(Exception):
    pass


class _Break(Exception):
    pass


class _Continue(Exception):
    pass


class _Return(Exception):
    def __init__(self, v):
        self.v = v


class ModelObj:
    """Instance of a modelled class: plain attributes plus methods evaluated from the class's AST."""
    _methods: Dict[str, ast.AST] = {}
    _budget = [0]

    def __init__(self, **kw):
        self.__dict__.update(kw)

    def __getattr__(self, name):
        m = type(self)._methods.get(name)
        if m is None:
            raise AttributeError(name)
        decos = {(dotted(d) or "").split(".")[-1] for d in getattr(m, "decorator_list", [])}
        if "staticmethod" in decos:
            return lambda *a, **k: MiniEval.call(m, a, k)
        if "classmethod" in decos:
            return lambda *a, **k: MiniEval.call(m, (type(self),) + a, k)
        return lambda *a, **k: MiniEval.call(m, (self,) + a, k)

    def __lt__(self, o):
        return self.__getattr__("__lt__")(o)

    def __le__(self, o):
        return self.__getattr__("__le__")(o)

    def __gt__(self, o):
        m = type(self)._methods.get("__gt__")
        return MiniEval.call(m, (self, o), {}) if m is not None else o.__lt__(self)

    def __ge__(self, o):
        m = type(self)._methods.get("__ge__")
        return MiniEval.call(m, (self, o), {}) if m is not None else o.__le__(self)

    __hash__ = object.__hash__

    def __eq__(self, o):
        return self is o


def model_class(cls_ast: ast.ClassDef, name: str = "Model"):
    ms = dict(methods(cls_ast))
    ns: Dict[str, object] = {"_methods": ms}
    for mname, m in ms.items():
        if mname in ("__init__", "__repr__", "__str__", "__getattr__", "__setattr__", "__hash__", "__new__", "__del__"):
            continue
        decos = {(dotted(d) or "").split(".")[-1] for d in getattr(m, "decorator_list", [])}
        if "staticmethod" in decos:
            ns[mname] = staticmethod(lambda *a, _m=m, **k: MiniEval.call(_m, a, k))
        elif "classmethod" in decos:
            ns[mname] = classmethod(lambda c, *a, _m=m, **k: MiniEval.call(_m, (c,) + a, k))
        elif "property" in decos:
            ns[mname] = property(lambda self_, _m=m: MiniEval.call(_m, (self_,), {}))
        else:
            ns[mname] = (lambda self_, *a, _m=m, **k: MiniEval.call(_m, (self_,) + a, k))
    if "__eq__" in ns:
        ns["__hash__"] = object.__hash__    # keep model objects hashable; identity hash like the modelled class declares or inherits
    return type(name, (ModelObj,), ns)


def single_assignment_locals(func) -> Dict[str, ast.AST]:
    """Locals of ``func`` bound exactly once by a plain (annotated) assignment -> their value expression."""
    count: Dict[str, int] = {}
    val: Dict[str, ast.AST] = {}
    for st in ast.walk(func):
        tgts = []
        if isinstance(st, ast.Assign):
            tgts = [(t, st.value) for t in st.targets]
        elif isinstance(st, ast.AnnAssign) and st.value is not None:
            tgts = [(st.target, st.value)]
        elif isinstance(st, (ast.AugAssign, ast.For, ast.AsyncFor, ast.With, ast.AsyncWith, ast.NamedExpr)):
            for n in ast.walk(st.target if hasattr(st, "target") else st):
                if isinstance(n, ast.Name) and isinstance(n.ctx, ast.Store):
                    count[n.id] = count.get(n.id, 0) + 2
        for t, v in tgts:
            if isinstance(t, ast.Name):
                count[t.id] = count.get(t.id, 0) + 1
                val[t.id] = v
            else:
                for n in ast.walk(t):
                    if isinstance(n, ast.Name) and isinstance(n.ctx, ast.Store):
                        count[n.id] = count.get(n.id, 0) + 2
    return {k: v for k, v in val.items() if count.get(k) == 1}


def resolve_locals(func, e: ast.AST, rounds: int = 3) -> ast.AST:
    """``e`` with single-assignment locals of ``func`` replaced by their defining expressions."""
    al = single_assignment_locals(func)
    params = {a.arg for a in func.args.posonlyargs + func.args.args + func.args.kwonlyargs}
    al = {k: v for k, v in al.items() if k not in params}
    out = clone(e)
    for _ in range(rounds):
        out = _Subst(al).visit(out)
    return out


_MINI_BUILTINS = {"len": len, "max": max, "min": min, "abs": abs, "range": range, "list": list, "sorted": sorted, "int": int,
                  "float": float, "bool": bool, "enumerate": enumerate, "tuple": tuple, "sum": sum, "any": any, "all": all,
                  "reversed": reversed, "isinstance": lambda *a: True, "True": True, "False": False, "None": None,
                  "NotImplemented": NotImplemented, "object": object, "chain": __import__("itertools").chain,
                  "itertools": __import__("itertools"), "operator": __import__("operator"), "attrgetter": __import__("operator").attrgetter,
                  "methodcaller": __import__("operator").methodcaller, "filter": filter, "map": map, "zip": zip, "set": set, "dict": dict}
_PY_EXC = {"ValueError": ValueError, "IndexError": IndexError, "KeyError": KeyError, "AttributeError": AttributeError,
           "TypeError": TypeError, "Exception": Exception, "BaseException": BaseException, "LookupError": LookupError}


class MiniEval:
    """Concrete evaluator for a pure subset of Python over model objects.  Used only for finite-domain
    evaluation of small helpers (never on repository objects: nothing of twisted is imported)."""
    budget = 0
    LIMIT = 40000

    def __init__(self, env: Dict[str, object], globs: Optional[Dict[str, object]] = None):
        self.env = env
        self.globs = globs or {}

    GLOBALS: Dict[str, object] = {}

    @classmethod
    def call(cls, func: ast.AST, args: tuple, kwargs: dict):
        if isinstance(func, ast.Lambda):
            params, body = func.args, [ast.Return(value=func.body)]
        else:
            params, body = func.args, func.body
        names = [a.arg for a in params.posonlyargs + params.args]
        env: Dict[str, object] = {}
        defaults = params.defaults
        for i, n in enumerate(names):
            if i < len(args):
                env[n] = args[i]
            elif n in kwargs:
                env[n] = kwargs[n]
            else:
                di = i - (len(names) - len(defaults))
                if di < 0:
                    raise Unsupported(f"MiniEval: missing argument {n}")
                env[n] = MiniEval({}).expr(defaults[di])
        if params.vararg:
            env[params.vararg.arg] = tuple(args[len(names):])
        if params.kwarg:
            env[params.kwarg.arg] = {k: v for k, v in kwargs.items() if k not in names}
        ev = MiniEval(env, cls.GLOBALS)
        try:
            ev.body(body)
        except _Return as r:
            return r.v
        return None

    def tick(self):
        MiniEval.budget += 1
        if MiniEval.budget > MiniEval.LIMIT:
            raise MiniBudget()

    def body(self, stmts):
        for s in stmts:
            self.stmt(s)

    def stmt(self, s):
        self.tick()
        if isinstance(s, ast.Expr):
            if not isinstance(s.value, ast.Constant):
                self.expr(s.value)
        elif isinstance(s, ast.Pass):
            pass
        elif isinstance(s, ast.Assign):
            v = self.expr(s.value)
            for t in s.targets:
                self.store(t, v)
        elif isinstance(s, ast.AnnAssign):
            if s.value is not None:
                self.store(s.target, self.expr(s.value))
        elif isinstance(s, ast.AugAssign):
            cur = self.expr(_as_load(s.target))
            self.store(s.target, self.binop(s.op, cur, self.expr(s.value)))
        elif isinstance(s, ast.If):
            self.body(s.body if self.expr(s.test) else s.orelse)
        elif isinstance(s, ast.While):
            while self.expr(s.test):
                self.tick()
                try:
                    self.body(s.body)
                except _Break:
                    break
                except _Continue:
                    continue
            else:
                self.body(s.orelse)
        elif isinstance(s, ast.For):
            for v in list(self.expr(s.iter)):
                self.tick()
                self.store(s.target, v)
                try:
                    self.body(s.body)
                except _Break:
                    break
                except _Continue:
                    continue
            else:
                self.body(s.orelse)
        elif isinstance(s, ast.Break):
            raise _Break()
        elif isinstance(s, ast.Continue):
            raise _Continue()
        elif isinstance(s, ast.Return):
            raise _Return(self.expr(s.value) if s.value is not None else None)
        elif isinstance(s, ast.Raise):
            raise MiniRaise(src(s.exc) if s.exc is not None else "")
        elif isinstance(s, ast.Assert):
            if not self.expr(s.test):
                raise MiniRaise("AssertionError")
        elif isinstance(s, ast.Try):
            try:
                try:
                    self.body(s.body)
                except (MiniRaise, ValueError, IndexError, KeyError, AttributeError, TypeError) as ex:
                    name = ex.name.split("(")[0].split(".")[-1] if isinstance(ex, MiniRaise) else type(ex).__name__
                    for h in s.handlers:
                        hn = [] if h.type is None else [(dotted(x) or "").split(".")[-1] for x in (h.type.elts if isinstance(h.type, ast.Tuple) else [h.type])]
                        if h.type is None or name in hn or any(n in ("Exception", "BaseException") for n in hn) or any(
                                n in _PY_EXC and name in _PY_EXC and issubclass(_PY_EXC[name], _PY_EXC[n]) for n in hn):
                            if h.name:
                                self.env[h.name] = ex
                            self.body(h.body)
                            break
                    else:
                        raise
                else:
                    self.body(s.orelse)
            finally:
                self.body(s.finalbody)
        elif isinstance(s, (ast.FunctionDef,)):
            self.env[s.name] = lambda *a, _f=s, **k: MiniEval.call(_f, a, k)
        elif isinstance(s, ast.Delete):
            flat = [x for t in s.targets for x in (t.elts if isinstance(t, (ast.Tuple, ast.List)) else [t])]
            for t in flat:
                if isinstance(t, ast.Subscript):
                    del self.expr(t.value)[self.index(t.slice)]
                elif isinstance(t, ast.Attribute):
                    delattr(self.expr(t.value), t.attr)
                elif isinstance(t, ast.Name):
                    self.env.pop(t.id, None)
                else:
                    raise Unsupported(f"MiniEval: del {src(t)}")
        else:
            raise Unsupported(f"MiniEval: statement {src(s)[:60]}")

    def store(self, t, v):
        if isinstance(t, ast.Name):
            self.env[t.id] = v
        elif isinstance(t, (ast.Tuple, ast.List)):
            vs = list(v)
            if len(vs) != len(t.elts):
                raise ValueError("unpack")
            for tt, x in zip(t.elts, vs):
                self.store(tt, x)
        elif isinstance(t, ast.Subscript):
            self.expr(t.value)[self.index(t.slice)] = v
        elif isinstance(t, ast.Attribute):
            setattr(self.expr(t.value), t.attr, v)
        else:
            raise Unsupported(f"MiniEval: target {src(t)}")

    def index(self, sl):
        if isinstance(sl, ast.Slice):
            return slice(self.expr(sl.lower) if sl.lower else None, self.expr(sl.upper) if sl.upper else None,
                         self.expr(sl.step) if sl.step else None)
        return self.expr(sl)

    def binop(self, op, a, b):
        t = type(op)
        if t is ast.Add:
            return a + b
        if t is ast.Sub:
            return a - b
        if t is ast.Mult:
            return a * b
        if t is ast.Div:
            return a / b
        if t is ast.FloorDiv:
            return a // b
        if t is ast.Mod:
            return a % b
        if t is ast.RShift:
            return a >> b
        if t is ast.LShift:
            return a << b
        if t is ast.BitAnd:
            return a & b
        if t is ast.BitOr:
            return a | b
        raise Unsupported("MiniEval: operator")

    def expr(self, e):
        self.tick()
        if isinstance(e, ast.Constant):
            return e.value
        if isinstance(e, ast.Name):
            if e.id in self.env:
                return self.env[e.id]
            if e.id in self.globs:
                return self.globs[e.id]
            if e.id in _MINI_BUILTINS:
                return _MINI_BUILTINS[e.id]
            raise Unsupported(f"MiniEval: name {e.id}")
        if isinstance(e, ast.Attribute):
            return getattr(self.expr(e.value), e.attr)
        if isinstance(e, ast.Subscript):
            return self.expr(e.value)[self.index(e.slice)]
        if isinstance(e, ast.BinOp):
            return self.binop(e.op, self.expr(e.left), self.expr(e.right))
        if isinstance(e, ast.UnaryOp):
            v = self.expr(e.operand)
            return (not v) if isinstance(e.op, ast.Not) else (-v if isinstance(e.op, ast.USub) else (+v if isinstance(e.op, ast.UAdd) else ~v))
        if isinstance(e, ast.BoolOp):
            v = None
            for x in e.values:
                v = self.expr(x)
                if isinstance(e.op, ast.And) and not v:
                    return v
                if isinstance(e.op, ast.Or) and v:
                    return v
            return v
        if isinstance(e, ast.Compare):
            left = self.expr(e.left)
            for op, r in zip(e.ops, e.comparators):
                right = self.expr(r)
                t = type(op)
                res = (left < right if t is ast.Lt else left <= right if t is ast.LtE else left > right if t is ast.Gt else
                       left >= right if t is ast.GtE else left == right if t is ast.Eq else left != right if t is ast.NotEq else
                       left is right if t is ast.Is else left is not right if t is ast.IsNot else
                       left in right if t is ast.In else left not in right)
                if not res:
                    return False
                left = right
            return True
        if isinstance(e, ast.IfExp):
            return self.expr(e.body) if self.expr(e.test) else self.expr(e.orelse)
        if isinstance(e, (ast.Tuple, ast.List)):
            out = []
            for x in e.elts:
                if isinstance(x, ast.Starred):
                    out.extend(self.expr(x.value))
                else:
                    out.append(self.expr(x))
            return tuple(out) if isinstance(e, ast.Tuple) else out
        if isinstance(e, ast.Lambda):
            outer = self
            return lambda *a, _f=e, **k: MiniEval._closure(_f, a, k, outer)
        if isinstance(e, (ast.ListComp, ast.GeneratorExp, ast.SetComp)):
            out = []
            self._comp(e.generators, 0, lambda: out.append(self.expr(e.elt)))
            return set(out) if isinstance(e, ast.SetComp) else out
        if isinstance(e, ast.Call):
            f = self.expr(e.func)
            args = []
            for a in e.args:
                if isinstance(a, ast.Starred):
                    args.extend(self.expr(a.value))
                else:
                    args.append(self.expr(a))
            kw = {}
            for k in e.keywords:
                if k.arg is None:
                    kw.update(self.expr(k.value))
                else:
                    kw[k.arg] = self.expr(k.value)
            if not callable(f):
                raise Unsupported(f"MiniEval: call of {src(e.func)}")
            return f(*args, **kw)
        if isinstance(e, ast.JoinedStr):
            return ""
        raise Unsupported(f"MiniEval: expression {src(e)[:60]}")

    @staticmethod
    def _closure(func: ast.Lambda, args, kwargs, outer: "MiniEval"):
        names = [a.arg for a in func.args.posonlyargs + func.args.args]
        env = dict(outer.env)
        nd = len(func.args.defaults)
        for i, n in enumerate(names):
            if i < len(args):
                env[n] = args[i]
            elif n in kwargs:
                env[n] = kwargs[n]
            else:
                env[n] = outer.expr(func.args.defaults[i - (len(names) - nd)])
        return MiniEval(env, outer.globs).expr(func.body)

    def _comp(self, gens, i, emit):
        if i == len(gens):
            emit()
            return
        g = gens[i]
        for v in list(self.expr(g.iter)):
            self.tick()
            self.store(g.target, v)
            if all(self.expr(c) for c in g.ifs):
                self._comp(gens, i + 1, emit)


def _as_load(t):
    n = clone(t)
    for x in ast.walk(n):
        if hasattr(x, "ctx"):
            x.ctx = ast.Load()
    return n


def swallowing_predicate(mod, func, cls=None):
    """Context-manager expressions that log-and-continue: ``X.failureHandler(..)`` / ``X.failuresHandled(..)``
    calls, module-level names bound to such calls, and locals whose every binding is one of those."""
    def is_sw(e, depth=0) -> bool:
        if depth > 3:
            return False
        if isinstance(e, ast.Call) and isinstance(e.func, ast.Attribute) and e.func.attr in ("failureHandler", "failuresHandled"):
            return True
        if isinstance(e, ast.IfExp):
            return is_sw(e.body, depth + 1) and is_sw(e.orelse, depth + 1)
        if isinstance(e, ast.Call) and isinstance(e.func, (ast.Name, ast.Attribute)):
            name = e.func.id if isinstance(e.func, ast.Name) else (e.func.attr if isinstance(e.func.value, ast.Name) and e.func.value.id == "self" else None)
            helper = mod.find(name) if name and isinstance(e.func, ast.Name) else None
            if helper is None and name:
                if cls is not None:
                    r_ = mro_lookup(mod, cls, name)
                    helper = r_[1] if r_ and isinstance(r_[1], ast.FunctionDef) else None
                else:
                    for c in mod.classes():
                        if func in c.body:
                            helper = methods(c).get(name)
            if isinstance(helper, (ast.FunctionDef,)):
                rets = [r for r in ast.walk(helper) if isinstance(r, ast.Return) and mod.enclosing_function(r) is helper]
                return bool(rets) and all(r.value is not None and swallowing_predicate(mod, helper, cls)(r.value) for r in rets) if depth < 3 else False
        if isinstance(e, ast.Name):
            local = [s.value for s in ast.walk(func) if isinstance(s, ast.Assign) and any(isinstance(t, ast.Name) and t.id == e.id for t in s.targets)]
            if local:
                return all(is_sw(v, depth + 1) for v in local)
            v = mod.module_assign(e.id)
            return v is not None and is_sw(v, depth + 1)
        return False
    return is_sw


def single_return(func) -> Optional[ast.AST]:
    """The value of the only `return <expr>` of a function (locals resolved); None if there is not exactly one."""
    rets = [r for r in ast.walk(func) if isinstance(r, ast.Return) and r.value is not None
            and not (isinstance(r.value, ast.Constant) and r.value.value is None)]
    if len(rets) != 1:
        return None
    return resolve_locals(func, rets[0].value)


class _InlineGetters(ast.NodeTransformer):
    """`X.m()` -> body of the single-return method m of the class with `self` replaced by X."""

    def __init__(self, cls):
        self.ms = methods(cls)

    def visit_Call(self, node):
        self.generic_visit(node)
        if isinstance(node.func, ast.Attribute) and not node.args and not node.keywords and node.func.attr in self.ms:
            m = self.ms[node.func.attr]
            if len(m.args.args) == 1:
                r = single_return(m)
                if r is not None:
                    return _Subst({m.args.args[0].arg: node.func.value}).visit(clone(r))
        return node



def _sattr(node, name):
    return isinstance(node, ast.Attribute) and node.attr == name and isinstance(node.value, ast.Name) and node.value.id == "self"


# =============================================================================== DelayedCall
def check_delayed_call(ctx, mod, heap_rules=True):
    """Rules on twisted.internet.base.DelayedCall shared by C08 (heap_rules=True) and C09."""
    import itertools
    BASE, DC = "internet/base.py", "twisted.internet.base.DelayedCall"
    cls = ctx.cls(BASE, "DelayedCall")
    ms = methods(cls)
    Elem = model_class(cls, "DelayedCallModel")
    grid = [0, 1, 2.5]
    with ctx.section("DelayedCall ordering"):
        # ---- key = time; getTime = time + delayed_time (finite evaluation of the three pure methods)
        for name, py in ((("__lt__", lambda a, b: a < b), ("__le__", lambda a, b: a <= b)) if heap_rules else ()):
            ctx.need(name in ms, f"DelayedCall.{name}")
            ctx.functions.add(f"{BASE}:DelayedCall.{name}")
            bad = None
            try:
                for a, b, da, db in itertools.product(grid, grid, [0, 4, -4], [0, 4]):
                    MiniEval.budget = 0
                    x, y = Elem(time=a, delayed_time=da), Elem(time=b, delayed_time=db)
                    got = MiniEval.call(ms[name], (x, y), {})
                    if bool(got) != py(a, b):
                        bad = f"{name}(time={a}, delayed_time={da}; time={b}, delayed_time={db}) = {got!r}"
                        break
            except (MiniRaise, MiniBudget, AttributeError, TypeError) as e:
                bad = f"{name} does not evaluate on the model ({type(e).__name__}: {e})"
            ctx.check(bad is None, "model/compares-time", f"{DC}.{name}",
                      f"heap order is not the order of `time` (the key the reactor maintains): {bad}",
                      detail="evaluated on a grid of (time, delayed_time) pairs covering <, =, > of both")
            # structural decider: the single returned comparison, getters inlined, as a linear normal form
            r = single_return(ms[name])
            ps = [a.arg for a in ms[name].args.args]
            nf = lin_cmp(_InlineGetters(cls).visit(r)) if r is not None and len(ps) == 2 else None
            if nf is None:
                ctx.note(f"key/compares-time: shape of {name} not recognised, clause left to model/compares-time")
            else:
                want = (frozenset({(f"{ps[1]}.time", 1), (f"{ps[0]}.time", -1)}), 0, name == "__lt__")
                ctx.check(nf == want, "key/compares-time", f"{DC}.{name}",
                          f"{name} decides `{lin_cmp_text(nf)}`, not `other.time - self.time {'>' if name == '__lt__' else '>='} 0`: the heap is not ordered by "
                          "the key `time` the reactor maintains (reset()/delay() change delayed_time without re-heapifying)",
                          detail="linear normal form of the returned comparison")
    with ctx.section("DelayedCall.getTime"):
        ctx.need("getTime" in ms, "DelayedCall.getTime")
        bad = None
        try:
            for t, d in itertools.product(grid, [0, 1.5, -1]):
                MiniEval.budget = 0
                got = MiniEval.call(ms["getTime"], (Elem(time=t, delayed_time=d),), {})
                if got != t + d:
                    bad = f"getTime() with time={t}, delayed_time={d} returns {got!r}"
                    break
        except (MiniRaise, MiniBudget, AttributeError, TypeError) as e:
            bad = f"getTime does not evaluate ({e})"
        ctx.check(bad is None, "model/effective-time", f"{DC}.getTime", f"the scheduled time is not time + delayed_time: {bad}",
                  detail="evaluated on a grid of (time, delayed_time) pairs")
        r = single_return(ms["getTime"])
        lf = linform(r) if r is not None else None
        if lf is None:
            ctx.note("key/effective-time: shape of getTime not recognised, clause left to model/effective-time")
        else:
            sp = ms["getTime"].args.args[0].arg
            ctx.check(lin_eq(lf, ({f"{sp}.time": 1, f"{sp}.delayed_time": 1}, 0)), "key/effective-time", f"{DC}.getTime",
                      f"getTime() returns {lin_text(lf)}, not time + delayed_time: reset()/delay() to a later time are ignored (or counted twice)",
                      detail="linear form of the returned expression")

    with ctx.section("DelayedCall.__init__"):
        # ---- __init__ wiring
        init = ctx.func(BASE, "DelayedCall.__init__")
        wiring = {}
        for st in ast.walk(init):
            if isinstance(st, ast.Assign):
                for t in st.targets:
                    if isinstance(t, (ast.Tuple, ast.List)) and isinstance(st.value, (ast.Tuple, ast.List)) and len(t.elts) == len(st.value.elts):
                        for tt, v in zip(t.elts, st.value.elts):
                            if isinstance(tt, ast.Attribute) and _sattr(tt, tt.attr):
                                wiring[tt.attr] = src(v)
                    elif isinstance(t, ast.Attribute) and _sattr(t, t.attr):
                        wiring[t.attr] = src(st.value)
        params = [a.arg for a in init.args.args][1:]
        ctx.need(len(params) >= 7, "DelayedCall.__init__(self, time, func, args, kw, cancel, reset, seconds)")
        p_time, p_func, p_args, p_kw, p_cancel, p_reset, p_seconds = params[:7]
        expect = {"time": p_time, "func": p_func, "args": p_args, "kw": p_kw, "resetter": p_reset, "canceller": p_cancel,
                  "seconds": p_seconds, "cancelled": "0", "called": "0", "delayed_time": "0.0"}
        for attr, want in expect.items():
            got = wiring.get(attr)
            ok = got == want or (want in ("0", "0.0") and got in ("0", "0.0", "False"))
            ctx.check(ok, "init/wiring", f"{DC}.__init__ | self.{attr}", f"self.{attr} is initialised from `{got}` instead of `{want}`")

    # ---- reset / delay / activate_delay: symbolic linear paths
    TR = ["time", "delayed_time"]
    T0 = ({"time@0": 1}, 0)

    def paths_of(name):
        f = ctx.func(BASE, f"DelayedCall.{name}")
        return f, SymExec(cls, TR, f"{DC}.{name}").run(f)

    def established(p, want, allow_equal=True):
        """Is `want > 0` (or >= 0) one of the path's guards?  want is a linear form."""
        key = frozenset(want[0].items())
        for g, _, _pol in p.guards:
            if g and g[0] != "truth" and g[0] == key and g[1] == -want[1] and (g[2] or allow_equal):
                return True
        return False

    def key_rules(name, p, q):
        if not heap_rules:
            return
        T, D = p.fields["time"], p.fields["delayed_time"]
        where = ctx.construct(q, SymExec.label(p))
        if T is None or D is None:
            raise Unsupported(f"{q}: time/delayed_time assigned a non-linear value")
        if not lin_eq(T, T0):
            writes = [i for i, e in enumerate(p.events) if e[0] == "write" and e[1] == "time"]
            resets = [i for i, e in enumerate(p.events) if e[0] == "call" and e[1] == "self.resetter"]
            ok_args = all(len(p.events[i][2].args) == 1 and src(p.events[i][2].args[0]) == "self" for i in resets)
            ctx.check(bool(resets) and resets[-1] > writes[-1] and ok_args, "key/resetter-after-decrease", where,
                      f"{name}() changes the heap key `time` (to {lin_text(T)}) without calling self.resetter(self) afterwards: "
                      "the heap order is stale and the call runs late or out of order")
            ctx.check(established(p, lin_sub(T0, T)), "key/only-decreases", where,
                      f"{name}() may move the heap key `time` later (new key {lin_text(T)}) while the call sits in the heap: "
                      "sift-up cannot repair that, an earlier call is hidden behind it")
        else:
            ctx.ok("key/resetter-after-decrease", where)
        nonneg = (not D[0] and D[1] >= 0) or established(p, D)
        if not lin_eq(T, T0):
            nonneg = nonneg or (not D[0] and D[1] == 0)
        ctx.check(nonneg, "key/delay-nonnegative", where,
                  f"{name}() can leave delayed_time = {lin_text(D)} negative with the key unchanged: the call is due before its "
                  "heap key, so it runs late and timeout() may exceed the time to it")

    with ctx.section("DelayedCall.reset"):
        f, paths = paths_of("reset")
        q = f"{DC}.reset"
        prm = [a.arg for a in f.args.args][1:]
        ctx.need(prm, "DelayedCall.reset(self, secondsFromNow)")
        target = ({"self.seconds()": 1, prm[0]: 1}, 0)
        n = 0
        for p in paths:
            if p.exit[0] == "raise":
                ctx.check(not [e for e in p.events if e[0] == "write"], "reset/raise-is-clean", ctx.construct(q, p.exit[2]),
                          "reset() modifies the call and then raises")
                continue
            n += 1
            T, D = p.fields["time"], p.fields["delayed_time"]
            where = ctx.construct(q, SymExec.label(p))
            ctx.check(T is not None and D is not None and lin_eq(lin_sub(T, ({}, 0)), lin_sub(target, D)) if D is not None and T is not None else False,
                      "reset/effective-time", where,
                      f"after reset(s) the scheduled time is {lin_text(None if T is None or D is None else lin_sub(T, ({k: -v for k, v in D[0].items()}, -D[1])))} "
                      f"instead of seconds() + {prm[0]}")
            key_rules("reset", p, q)
        ctx.floor("reset/paths", n, 2, "normal paths")

    with ctx.section("DelayedCall.delay"):
        f, paths = paths_of("delay")
        q = f"{DC}.delay"
        prm = [a.arg for a in f.args.args][1:]
        ctx.need(prm, "DelayedCall.delay(self, secondsLater)")
        n = 0
        for p in paths:
            if p.exit[0] == "raise":
                ctx.check(not [e for e in p.events if e[0] == "write"], "delay/raise-is-clean", ctx.construct(q, p.exit[2]),
                          "delay() modifies the call and then raises")
                continue
            n += 1
            T, D = p.fields["time"], p.fields["delayed_time"]
            where = ctx.construct(q, SymExec.label(p))
            want = ({"time@0": 1, "delayed_time@0": 1, prm[0]: 1}, 0)
            got = None if T is None or D is None else lin_sub(T, ({k: -v for k, v in D[0].items()}, -D[1]))
            ctx.check(got is not None and lin_eq(got, want), "delay/effective-time", where,
                      f"after delay(s) the scheduled time is {lin_text(got)} instead of the previous scheduled time + {prm[0]}")
            key_rules("delay", p, q)
        ctx.floor("delay/paths", n, 2, "normal paths")

    with ctx.section("DelayedCall.activate_delay"):
        f, paths = paths_of("activate_delay")
        q = f"{DC}.activate_delay"
        for p in paths:
            T, D = p.fields["time"], p.fields["delayed_time"]
            got = None if T is None or D is None else lin_sub(T, ({k: -v for k, v in D[0].items()}, -D[1]))
            ctx.check(got is not None and lin_eq(got, ({"time@0": 1, "delayed_time@0": 1}, 0)) and lin_eq(D, ({}, 0)), "activate/folds-delay", q,
                      f"activate_delay() leaves time={lin_text(T)}, delayed_time={lin_text(D)}: the scheduled time must be folded into "
                      "`time` and delayed_time reset to 0")

    with ctx.section("DelayedCall.cancel"):
        # ---- cancel(): marks cancelled and notifies the owner exactly once
        f = ctx.func(BASE, "DelayedCall.cancel")
        q = f"{DC}.cancel"
        paths = SymExec(cls, ["cancelled"], q).run(f)
        live = [p for p in paths if p.exit[0] == "return"]
        ctx.check(bool(live), "cancel/marks-and-notifies", q, "cancel() never returns normally")
        for p in live:
            where = ctx.construct(q, SymExec.label(p))
            c = p.fields["cancelled"]
            calls = [e for e in p.events if e[0] == "call" and e[1] == "self.canceller"]
            ctx.check(c is not None and not c[0] and c[1], "cancel/marks-and-notifies", where + " | cancelled",
                      "cancel() returns without setting self.cancelled: the reactor would still run the call")
            ctx.check(len(calls) == 1 and len(calls[0][2].args) == 1 and src(calls[0][2].args[0]) == "self", "cancel/marks-and-notifies",
                      where + " | canceller",
                      f"cancel() calls self.canceller(self) {len(calls)} times: the owner's bookkeeping (cancellation count, Clock.calls) "
                      "is not updated exactly once")
        for p in paths:
            if p.exit[0] == "raise":
                ctx.check(not any(e[0] == "call" and e[1] == "self.canceller" for e in p.events) and not any(e[0] == "write" for e in p.events),
                          "cancel/raise-is-clean", ctx.construct(q, p.exit[2]), "cancel() notifies or marks and then raises")
    return Elem




# =========================================================================== who-may-mutate through the public API
def intra_class_calls(cls: ast.ClassDef) -> Dict[str, set]:
    """method name -> names of the methods of the same class it calls as ``self.m(...)`` or hands out as
    ``self.m`` (a bound method passed around may be called by whoever receives it); nested functions and
    lambdas are attributed to the enclosing method."""
    ms = methods(cls)
    out: Dict[str, set] = {}
    for name, f in ms.items():
        tgt = set()
        for n in ast.walk(f):
            if isinstance(n, ast.Attribute) and isinstance(n.value, ast.Name) and n.value.id == "self" and n.attr in ms \
                    and isinstance(n.ctx, ast.Load):
                tgt.add(n.attr)
        out[name] = tgt
    return out


def public_api_effects(mod, cls: ast.ClassDef, attrs, roots, stop):
    """For every root method: the mutations of ``self.<attrs>`` it can reach through the intra-class call graph
    without passing through a ``stop`` method.  -> [(root, chain of method names, Access)]"""
    graph = intra_class_calls(cls)
    acc = class_accesses(mod, cls, set(attrs), receivers={"self"})
    by_method: Dict[str, list] = {}
    for a in acc:
        by_method.setdefault(a.func.split(".")[1], []).append(a)
    res = []
    for root in roots:
        if root not in graph:
            continue
        seen = {root: [root]}
        todo = [root]
        while todo:
            m = todo.pop()
            for a in by_method.get(m, []):
                res.append((root, seen[m], a))
            for t in sorted(graph.get(m, ())):
                if t in seen or t in stop:
                    continue
                seen[t] = seen[m] + [t]
                todo.append(t)
    return res


# =========================================================================== per-instance container state
_FRESH_CALLS = {"list", "dict", "set", "deque", "collections.deque", "defaultdict", "collections.defaultdict", "OrderedDict",
                "collections.OrderedDict", "bytearray"}


def is_fresh_container(e: ast.AST) -> bool:
    if isinstance(e, (ast.List, ast.Dict, ast.Set, ast.ListComp, ast.DictComp, ast.SetComp)):
        return True
    return isinstance(e, ast.Call) and (dotted(e.func) or "") in _FRESH_CALLS


def _mro_classes(mod, cls: ast.ClassDef, seen=None) -> List[ast.ClassDef]:
    from sa.source import base_names
    seen = seen if seen is not None else []
    if cls in seen:
        return seen
    seen.append(cls)
    for b in base_names(cls):
        bc = mod.find(b)
        if isinstance(bc, ast.ClassDef):
            _mro_classes(mod, bc, seen)
    return seen


def _init_establishes(ctx, mod, concrete: ast.ClassDef, start: ast.ClassDef, attr: str, depth=0):
    """Does constructing ``concrete`` - entering the initialiser resolved from ``start`` along the MRO - assign
    ``self.<attr>`` a fresh container on every normal path?  -> (ok, where text, witness text)"""
    if depth > 6:
        return False, "initialiser chain too deep", ""
    r = mro_lookup(mod, start, "__init__")
    if not r or not isinstance(r[1], (ast.FunctionDef, ast.AsyncFunctionDef)):
        return False, f"no __init__ is defined on {start.name} or its bases in this module", ""
    owner, f = r
    g = ctx.cfg(f)
    good = []
    why = []

    def targets(st):
        if isinstance(st, ast.Assign):
            return st.targets
        if isinstance(st, ast.AnnAssign) and st.value is not None:
            return [st.target]
        return []
    for n in g.ids(lambda n: n.kind == "stmt"):
        st = g.node(n).ast
        for t in targets(st):
            flat = t.elts if isinstance(t, (ast.Tuple, ast.List)) else [t]
            vals = st.value.elts if isinstance(t, (ast.Tuple, ast.List)) and isinstance(st.value, (ast.Tuple, ast.List)) and len(st.value.elts) == len(flat) else [st.value] * len(flat)
            for tt, v in zip(flat, vals):
                if isinstance(tt, ast.Attribute) and isinstance(tt.value, ast.Name) and tt.value.id == "self" and tt.attr == attr:
                    if is_fresh_container(v):
                        good.append(n)
                    else:
                        why.append(f"{owner.name}.__init__ assigns self.{attr} = {src(v)} (not a container created for this instance)")
        for c in walk_local(st):
            if isinstance(c, ast.Call) and isinstance(c.func, ast.Attribute) and c.func.attr == "__init__":
                base = c.func.value
                nxt = None
                if isinstance(base, ast.Name) and base.id != "self":
                    bc = mod.find(base.id)
                    nxt = bc if isinstance(bc, ast.ClassDef) else None
                elif isinstance(base, ast.Call) and dotted(base.func) == "super":
                    chain = _mro_classes(mod, concrete)
                    nxt = chain[chain.index(owner) + 1] if owner in chain and chain.index(owner) + 1 < len(chain) else None
                if nxt is not None and nxt is not owner:
                    ok, _, _ = _init_establishes(ctx, mod, concrete, nxt, attr, depth + 1)
                    if ok:
                        good.append(n)
    wit = g.must_pass([g.entry], good, exc=False)
    if good and wit is None:
        return True, f"{owner.name}.__init__", ""
    if why:
        return False, why[0], ""
    return False, (f"{owner.name}.__init__ can return without assigning self.{attr} a fresh container" if good
                   else f"{owner.name}.__init__ (the initialiser {concrete.name}() runs) never assigns self.{attr}"), g.describe(wit) if good else ""


def per_instance_state(ctx, mod, concrete: ast.ClassDef, attr: str, modname: str, rule: str = "init/per-instance-state"):
    """The mutable container ``self.<attr>`` of the class invariant must be created per instance on every construction
    path of ``concrete`` (through explicit base calls / super() / inherited __init__); a class-level mutable default
    that is not shadowed that way is shared by all instances."""
    from sa.source import class_assigns
    shared = None
    for k in _mro_classes(mod, concrete):
        v = class_assigns(k).get(attr)
        if v is not None and is_fresh_container(v):
            shared = (k, v)
            break
    ok, where, wit = _init_establishes(ctx, mod, concrete, concrete, attr)
    c = f"{modname}.{concrete.name} | self.{attr}"
    if ok:
        ctx.ok(rule, c, f"fresh container assigned on every path of {where}")
        return
    if shared is not None:
        msg = (f"`{attr} = {src(shared[1])}` is a class-level mutable default of {shared[0].name} and {where}: every {concrete.name} "
               f"(and every other subclass instance) shares ONE {attr} container - an operation on one object serves / grants the waiters of another")
    else:
        msg = f"self.{attr} is not created per instance: {where}"
    ctx.violation(rule, c, msg, witness=wit)


# =========================================================================== equality of tracked objects is identity
_EQ_LOCATORS = ("remove", "index", "count", "__contains__")


def equality_locator_sites(cls: ast.ClassDef, attrs) -> List[Tuple[str, ast.AST]]:
    """Places in ``cls`` that find an element of ``self.<attr>`` (or a local alias of it) by ``==``: list.remove / index / count,
    as a call or as a bound method handed out, and ``x in self.<attr>``.  -> [(method name, node)]"""
    out = []
    for name, f in methods(cls).items():
        alias = set()
        for st in ast.walk(f):
            if isinstance(st, ast.Assign) and len(st.targets) == 1 and isinstance(st.targets[0], ast.Name) and _sattr(st.value, getattr(st.value, "attr", "")) \
                    and st.value.attr in attrs:
                alias.add(st.targets[0].id)

        def is_tracked(e):
            return (isinstance(e, ast.Attribute) and isinstance(e.value, ast.Name) and e.value.id == "self" and e.attr in attrs) or (
                isinstance(e, ast.Name) and e.id in alias)
        for n in ast.walk(f):
            if isinstance(n, ast.Attribute) and n.attr in _EQ_LOCATORS and is_tracked(n.value):
                out.append((name, n))
            elif isinstance(n, ast.Compare) and any(isinstance(op, (ast.In, ast.NotIn)) for op in n.ops) and any(is_tracked(c) for c in n.comparators):
                out.append((name, n))
    return out


def check_equality_is_identity(ctx, mod_elem, elem_cls: ast.ClassDef, owner_qual: str, sites, rule="identity/located-by-equality"):
    """Containers of ``elem_cls`` objects are searched with ``==`` at ``sites``; that finds *the* object only while
    equality of the class is identity: no __eq__/__ne__ anywhere in its MRO inside the module (or one that is `self is other`),
    and no decorator that synthesises one."""
    offenders = []
    for k in _mro_classes(mod_elem, elem_cls):
        for name in ("__eq__", "__ne__"):
            m = methods(k).get(name)
            if m is not None:
                r = single_return(m)
                ident = r is not None and isinstance(r, ast.Compare) and len(r.ops) == 1 and isinstance(r.ops[0], (ast.Is if name == "__eq__" else ast.IsNot,)) \
                    and {src(r.left), src(r.comparators[0])} == {a.arg for a in m.args.args[:2]}
                if not ident:
                    offenders.append(f"{k.name}.{name} (`{src(r) if r is not None else 'several returns'}`)")
            from sa.source import class_assigns
            v = class_assigns(k).get(name)
            if v is not None and src(v) not in ("object.__eq__", "object.__ne__"):
                offenders.append(f"{k.name}.{name} = {src(v)}")
        for d in k.decorator_list:
            dn = (dotted(d.func) if isinstance(d, ast.Call) else dotted(d)) or ""
            if dn.split(".")[-1] in ("dataclass", "s", "attrs", "define", "attributes"):
                eq_off = isinstance(d, ast.Call) and any(kw.arg in ("eq", "cmp") and isinstance(kw.value, ast.Constant) and kw.value.value is False for kw in d.keywords)
                if not eq_off:
                    offenders.append(f"@{dn} on {k.name} (synthesises __eq__)")
    for meth, node in sites:
        ctx.check(not offenders, rule, ctx.construct(f"{owner_qual}.{meth}", node),
                  f"`{src(node)}` finds its element with `==`, but {elem_cls.name} equality is not identity: {'; '.join(offenders)} - another object "
                  "that compares equal (e.g. a call scheduled for the same time) is removed / sifted instead of the one meant",
                  detail=f"no __eq__/__ne__ (nor a synthesising decorator) in the MRO of {elem_cls.name} within its module")
    return offenders


# =========================================================================== normalised view of a method (helpers read as inlined)
class _NoInline(Exception):
    pass


class _Rename(ast.NodeTransformer):
    def __init__(self, mapping: Dict[str, str], subst: Dict[str, ast.AST]):
        self.mapping, self.subst = mapping, subst

    def visit_Name(self, node):
        if node.id in self.subst and isinstance(node.ctx, ast.Load):
            return clone(self.subst[node.id])
        if node.id in self.mapping:
            return ast.Name(id=self.mapping[node.id], ctx=node.ctx)
        return node


def _strip_doc(body):
    return [s for s in body if not (isinstance(s, ast.Expr) and isinstance(s.value, ast.Constant) and isinstance(s.value.value, str))]


def _simple_arg(a) -> bool:
    return isinstance(a, (ast.Name, ast.Constant)) or (isinstance(a, ast.Attribute) and _simple_arg(a.value))


class Normaliser:
    """``view(func)`` -> (function with the private helpers of the class read as inlined, fully_understood, notes).

    Handled: statement calls ``self._h(args)``; ``x = self._h(args)`` / ``return self._h(args)``; single-expression helpers
    (predicates, getters) in any expression; static helpers; a generator helper consumed by ``for v in self._g(..)`` read as
    the loop it abbreviates; a selector helper ``while (v := self._sel(..)) is not None`` (a loop that returns the next item, or
    None) fused with its consumer.  ``keep``: helper names the rules refer to by name (left as calls).  ``fully_understood``
    is False when a call to a private helper of the class remains - absence-based verdicts must then be withheld."""

    def __init__(self, mod, cls: ast.ClassDef, keep=()):
        self.mod, self.cls, self.keep = mod, cls, set(keep)
        self.n = 0
        self.notes: List[str] = []

    # ---- helper lookup
    def helper(self, call) -> Optional[ast.FunctionDef]:
        if not (isinstance(call, ast.Call) and isinstance(call.func, ast.Attribute) and isinstance(call.func.value, ast.Name)
                and call.func.value.id == "self"):
            return None
        name = call.func.attr
        if not name.startswith("_") or name.startswith("__") or name in self.keep or call.keywords or any(isinstance(a, ast.Starred) for a in call.args):
            return None
        r = mro_lookup(self.mod, self.cls, name)
        if not r or not isinstance(r[1], ast.FunctionDef):
            return None
        h = r[1]
        if h.args.vararg or h.args.kwarg or h.args.kwonlyargs:
            return None
        decos = {(dotted(d) or "").split(".")[-1] for d in h.decorator_list}
        if decos - {"staticmethod"}:
            return None
        return h

    @staticmethod
    def is_generator(h) -> bool:
        return any(isinstance(x, (ast.Yield, ast.YieldFrom)) for x in walk_local(ast.Module(body=h.body, type_ignores=[])))

    def bind(self, h, call):
        """-> (prelude statements, renaming transformer) for one inlining of h at `call`."""
        static = any((dotted(d) or "").split(".")[-1] == "staticmethod" for d in h.decorator_list)
        params = [a.arg for a in h.args.posonlyargs + h.args.args][0 if static else 1:]
        nd = len(h.args.defaults)
        args = list(call.args)
        if len(args) > len(params) or len(args) < len(params) - nd:
            raise _NoInline("arity")
        for i in range(len(args), len(params)):
            args.append(h.args.defaults[i - (len(params) - nd)])
        self.n += 1
        tag = f"__{h.name.strip('_')}{self.n}"
        body_mod = ast.Module(body=h.body, type_ignores=[])
        stored = {x.id for x in walk_local(body_mod) if isinstance(x, ast.Name) and isinstance(x.ctx, (ast.Store, ast.Del))}
        mapping = {n: n + tag for n in stored if n not in params}
        subst, prelude = {}, []
        for p, a in zip(params, args):
            if _simple_arg(a) and p not in stored:
                subst[p] = a
            else:
                mapping[p] = p + tag
                prelude.append(ast.Assign(targets=[ast.Name(id=p + tag, ctx=ast.Store())], value=clone(a)))
        return prelude, _Rename(mapping, subst)

    # ---- return elimination
    def elim(self, stmts, res: Optional[str]):
        out = []
        for i, st in enumerate(stmts):
            if isinstance(st, ast.Return):
                if res is not None:
                    out.append(ast.Assign(targets=[ast.Name(id=res, ctx=ast.Store())], value=st.value if st.value is not None else ast.Constant(value=None)))
                return out
            has_ret = any(isinstance(x, ast.Return) for x in walk_local(st))
            if not has_ret:
                out.append(st)
                continue
            if isinstance(st, ast.If):
                rest = stmts[i + 1:]
                new = ast.If(test=st.test, body=self.elim(list(st.body) + clone(rest), res) or [ast.Pass()],
                             orelse=self.elim(list(st.orelse) + clone(rest), res))
                out.append(new)
                return out
            if isinstance(st, (ast.While, ast.For)) and not st.orelse:
                # a `return` at the loop's own level is a `break` when nothing but a plain return follows the loop
                rest = stmts[i + 1:]
                tail_ok = all(isinstance(r, ast.Return) and (res is None or r.value is None or (isinstance(r.value, ast.Constant) and r.value.value is None))
                              for r in rest)
                if tail_ok:
                    def to_break(body):
                        nb = []
                        for b in body:
                            if isinstance(b, ast.Return):
                                if res is not None:
                                    nb.append(ast.Assign(targets=[ast.Name(id=res, ctx=ast.Store())], value=b.value if b.value is not None else ast.Constant(value=None)))
                                nb.append(ast.Break())
                                return nb
                            if isinstance(b, ast.If):
                                b = ast.If(test=b.test, body=to_break(b.body) or [ast.Pass()], orelse=to_break(b.orelse))
                            elif any(isinstance(x, ast.Return) for x in walk_local(b)):
                                raise _NoInline("return inside a nested loop / try / with")
                            nb.append(b)
                        return nb
                    loop = clone(st)
                    loop.body = to_break(loop.body)
                    out.append(loop)
                    return out
            raise _NoInline("return inside a loop / try / with")
        return out

    def inline_stmts(self, h, call, res: Optional[str], keep_returns=False):
        if self.is_generator(h):
            raise _NoInline("generator")
        prelude, rn = self.bind(h, call)
        body = [rn.visit(clone(s)) for s in _strip_doc(h.body)]
        if keep_returns:
            return prelude + body
        body = self.elim(body, res)
        if res is not None:
            body = [ast.Assign(targets=[ast.Name(id=res, ctx=ast.Store())], value=ast.Constant(value=None))] + body
        return prelude + (body or [ast.Pass()])

    # ---- expression-level: single-expression helpers
    def single_expr(self, h):
        b = _strip_doc(h.body)
        if len(b) == 1 and isinstance(b[0], ast.Return) and b[0].value is not None:
            return b[0].value
        return None

    def subst_exprs(self, node):
        outer = self

        class T(ast.NodeTransformer):
            def visit_Call(self, c):
                self.generic_visit(c)
                h = outer.helper(c)
                if h is not None and not outer.is_generator(h):
                    e = outer.single_expr(h)
                    if e is not None:
                        static = any((dotted(d) or "").split(".")[-1] == "staticmethod" for d in h.decorator_list)
                        params = [a.arg for a in h.args.posonlyargs + h.args.args][0 if static else 1:]
                        if len(params) == len(c.args):
                            uses = {p: sum(1 for x in ast.walk(e) if isinstance(x, ast.Name) and x.id == p) for p in params}
                            if all(_simple_arg(a) or uses[p] <= 1 for p, a in zip(params, c.args)):
                                outer.changed = True
                                return _Subst(dict(zip(params, c.args))).visit(clone(e))
                return c

            def visit_FunctionDef(self, n):
                return n

            def visit_Lambda(self, n):
                return n
        return T().visit(node)

    # ---- loop fusions
    def fuse_generator(self, st: ast.For):
        call = st.iter
        h = self.helper(call)
        if h is None or not self.is_generator(h) or st.orelse:
            return None
        prelude, rn = self.bind(h, call)
        body = [rn.visit(clone(s)) for s in _strip_doc(h.body)]
        if len(body) != 1 or not isinstance(body[0], ast.While) or body[0].orelse:
            raise _NoInline("generator helper is not a single while loop")
        loop = body[0]
        ys = [i for i, s in enumerate(loop.body) if any(isinstance(x, (ast.Yield, ast.YieldFrom)) for x in walk_local(s))]
        if len(ys) != 1:
            raise _NoInline("generator helper does not yield exactly once per round")
        s = loop.body[ys[0]]
        if isinstance(s, ast.Expr) and isinstance(s.value, ast.Yield) and s.value.value is not None:
            val = s.value.value
        else:
            raise _NoInline("yield in an unsupported position")
        post = loop.body[ys[0] + 1:]
        if post and any(isinstance(x, ast.Continue) for b in st.body for x in walk_local(b)):
            raise _NoInline("consumer uses continue and the generator has code after its yield")
        if isinstance(val, ast.Name) and isinstance(st.target, ast.Name):
            # the yielded item lives in one local of the generator: call it by the consumer's name instead of copying it
            loop = _Rename({val.id: st.target.id}, {}).visit(loop)
            hand_over = []
        else:
            hand_over = [ast.Assign(targets=[st.target], value=val)]
        fused = ast.While(test=loop.test, body=loop.body[:ys[0]] + hand_over + list(st.body) + loop.body[ys[0] + 1:], orelse=[])
        return prelude + [fused]

    def fuse_selector(self, st: ast.While):
        t = st.test
        if not (isinstance(t, ast.Compare) and len(t.ops) == 1 and isinstance(t.ops[0], ast.IsNot) and isinstance(t.comparators[0], ast.Constant)
                and t.comparators[0].value is None and isinstance(t.left, ast.NamedExpr)) or st.orelse:
            return None
        call, target = t.left.value, t.left.target
        h = self.helper(call)
        if h is None or self.is_generator(h):
            return None
        prelude, rn = self.bind(h, call)
        body = [rn.visit(clone(s)) for s in _strip_doc(h.body)]
        if not body or not isinstance(body[0], ast.While) or body[0].orelse:
            raise _NoInline("selector helper is not a loop")
        tail = body[1:]
        if not all(isinstance(s, ast.Return) and (s.value is None or (isinstance(s.value, ast.Constant) and s.value.value is None)) for s in tail):
            raise _NoInline("selector helper does something after its loop")
        loop = body[0]
        rets = [x.value for x in walk_local(loop) if isinstance(x, ast.Return) and x.value is not None
                and not (isinstance(x.value, ast.Constant) and x.value.value is None)]
        same = rets and all(isinstance(v, ast.Name) for v in rets) and len({v.id for v in rets}) == 1
        if same:
            # the selected item lives in one local of the helper: call it by the consumer's name instead of copying it
            loop = _Rename({rets[0].id: target.id}, {}).visit(loop)

        def repl(stmts):
            out = []
            for s in stmts:
                if isinstance(s, ast.Return):
                    if s.value is None or (isinstance(s.value, ast.Constant) and s.value.value is None):
                        out.append(ast.Break())
                    else:
                        copy = [] if (isinstance(s.value, ast.Name) and s.value.id == target.id) else [
                            ast.Assign(targets=[ast.Name(id=target.id, ctx=ast.Store())], value=s.value)]
                        out += copy + clone(list(st.body)) + [ast.Continue()]
                    return out
                if isinstance(s, ast.If):
                    s = ast.If(test=s.test, body=repl(s.body) or [ast.Pass()], orelse=repl(s.orelse))
                elif any(isinstance(x, ast.Return) for x in walk_local(s)):
                    raise _NoInline("selector returns from inside a nested loop / try")
                out.append(s)
            return out
        fused = ast.While(test=loop.test, body=repl(loop.body), orelse=[])
        return prelude + [fused]

    def fuse_step(self, st: ast.While):
        """``while self._step(args): BODY`` where _step does one round and returns a constant truth value on every path:
        read as ``while True: <round with `return True` -> BODY; continue and `return False` -> break>``."""
        call, neg = st.test, False
        while isinstance(call, ast.UnaryOp) and isinstance(call.op, ast.Not):
            call, neg = call.operand, not neg
        h = self.helper(call)
        if h is None or self.is_generator(h) or self.single_expr(h) is not None or st.orelse:
            return None
        prelude, rn = self.bind(h, call)
        body = [rn.visit(clone(s)) for s in _strip_doc(h.body)]

        def truth(v):
            if v is None:
                return False
            if isinstance(v, ast.Constant):
                return bool(v.value)
            raise _NoInline("step helper returns a non-constant")

        def repl(stmts):
            out = []
            for i, s in enumerate(stmts):
                if isinstance(s, ast.Return):
                    out += (clone(list(st.body)) + [ast.Continue()]) if truth(s.value) != neg else [ast.Break()]
                    return out
                if any(isinstance(x, ast.Return) for x in walk_local(s)):
                    if not isinstance(s, ast.If):
                        raise _NoInline("step helper returns from inside a loop / try / with")
                    rest = stmts[i + 1:]
                    out.append(ast.If(test=s.test, body=repl(list(s.body) + clone(rest)), orelse=repl(list(s.orelse) + clone(rest))))
                    return out
                out.append(s)
            out += (clone(list(st.body)) + [ast.Continue()]) if neg else [ast.Break()]     # falls off the end: returns None
            return out
        return prelude + [ast.While(test=ast.Constant(value=True), body=repl(body), orelse=[])]

    # ---- driver
    def block(self, stmts):
        out = []
        for st in stmts:
            try:
                if isinstance(st, ast.For):
                    f = self.fuse_generator(st)
                    if f is not None:
                        self.changed = True
                        out += f
                        continue
                if isinstance(st, ast.While):
                    f = self.fuse_selector(st)
                    if f is None:
                        f = self.fuse_step(st)
                    if f is not None:
                        self.changed = True
                        out += f
                        continue
                if isinstance(st, ast.Expr) and self.helper(st.value) is not None and self.single_expr(self.helper(st.value)) is None:
                    out += self.inline_stmts(self.helper(st.value), st.value, None)
                    self.changed = True
                    continue
                if isinstance(st, (ast.Assign, ast.AnnAssign)) and getattr(st, "value", None) is not None and self.helper(st.value) is not None \
                        and self.single_expr(self.helper(st.value)) is None:
                    tg = st.targets[0] if isinstance(st, ast.Assign) and len(st.targets) == 1 else (st.target if isinstance(st, ast.AnnAssign) else None)
                    if isinstance(tg, ast.Name):
                        out += self.inline_stmts(self.helper(st.value), st.value, tg.id)
                        self.changed = True
                        continue
                if isinstance(st, ast.Return) and st.value is not None and self.helper(st.value) is not None and self.single_expr(self.helper(st.value)) is None:
                    out += self.inline_stmts(self.helper(st.value), st.value, None, keep_returns=True)
                    if not (out and isinstance(out[-1], ast.Return)):
                        out.append(ast.Return(value=ast.Constant(value=None)))
                    self.changed = True
                    continue
            except _NoInline as e:
                self.notes.append(f"helper call `{src(st)[:60]}` not inlined: {e}")
            # expression-level substitution in this statement's own expressions, then recurse into its blocks
            if not isinstance(st, (ast.FunctionDef, ast.AsyncFunctionDef, ast.ClassDef)):
                for field, val in list(ast.iter_fields(st)):
                    if field in ("body", "orelse", "finalbody", "handlers"):
                        continue
                    if isinstance(val, ast.AST):
                        setattr(st, field, self.subst_exprs(val))
                    elif isinstance(val, list):
                        setattr(st, field, [self.subst_exprs(v) if isinstance(v, ast.AST) else v for v in val])
                for field in ("body", "orelse", "finalbody"):
                    if isinstance(getattr(st, field, None), list) and getattr(st, field):
                        setattr(st, field, self.block(getattr(st, field)))
                for hd in getattr(st, "handlers", []) or []:
                    hd.body = self.block(hd.body)
            out.append(st)
        return out

    def view(self, func):
        f = clone(func)
        for _ in range(4):
            self.changed = False
            f.body = self.block(f.body)
            if not self.changed:
                break
        ast.fix_missing_locations(f)
        left = sorted({c.func.attr for c in ast.walk(f) if self.helper(c) is not None} | (
            {x for x in ()}))
        return f, not left, [f"calls to private helpers left as they are: {', '.join(left)}"] * bool(left) + self.notes
