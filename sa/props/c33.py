"""C33 - Decoding arbitrary bytes as DNS is total and terminates."""
from __future__ import annotations

import ast
import struct
from typing import Dict, List, Optional, Set, Tuple

from sa.astx import NotConst, body_walk, call_attr, call_name, const_eval, dotted, lincmp, module_consts, src, statements, walk_local
from sa.props._lib_g import (class_const, expand, fmt_lin, fresh, is_self_attr, lin_equal, lin_expect, module_classes, must_pass, single_defs,
                             struct_field_count)
from sa.selftest import Mutant, Silent
from sa.source import AnalysisError, base_names, class_assigns, methods, mro_lookup

PROPERTY = "C33"
DNS = "names/dns.py"
Q = "twisted.names.dns"
TECHNIQUE = "exception-escape analysis over the decode call graph plus loop-progress rules"
EXPLANATION = (
    'The decode family is the call-graph closure of Message.fromStr and _EDNSMessage.fromStr (receivers resolved from '
    'constructor assignments, the polymorphic payload.decode site fans out to every registered Record_* class and '
    'UnknownRecord). In each member every explicit raise is EOFError/ValueError (or a subclass) or sits under `length '
    'is None` while every call that reaches it supplies the length, and every implicit raiser of a curated table is '
    'discharged: struct.unpack gets exactly calcsize(fmt) bytes from readPrecisely (constant folding through locals '
    'and class constants), ord() only sees readPrecisely(strio, 1), constant indices address unpack results or '
    'length-guarded sequences, table look-ups use .get, no division/shift by message data, %-formats match their '
    'operands, every callee is classified, readPrecisely raises EOFError on a short read. Termination: the family '
    'call graph is acyclic; in Name.decode the only non-consuming step strio.seek(pointer) is dominated by `pointer '
    'in visited -> raise ValueError`, followed by visited.add(pointer), the pointer ranges over < 2^14 values and '
    'visited is never reset; every other loop is a for over a finite sequence/range or a while whose every iteration '
    'reads at least one byte or strictly advances its counter. DNSDatagramProtocol.datagramReceived catches EOFError '
    'and ValueError around fromStr and drops the packet. Not decided: exceptions from constructors called with '
    'default arguments, MemoryError.'
    ' Every unpack (struct.unpack, a precompiled Struct object, a read-and-unpack helper) consumes bytes from a length-checked read: readPrecisely or a dominating '
    'explicit test of len(); file.read(n) alone may return fewer bytes and turns a truncated message into struct.error. The TCP framing loop of '
    'DNSProtocol.dataReceived: every path from the loop head back to it, exception handlers included, strips the front of the buffer (rule framing/frame-consumed).'
    ' STRUCTURAL throughout (exception-escape and progress over the call graph, for every input); the pointer range is finite-exhaustive over both bytes; the bounded'
    ' rules interpret datagramReceived on concrete datagrams and dataReceived under a step budget on well-formed, split, malformed and empty frames, as a second '
    'layer to the static handler / progress rules.'
)
RULE_KINDS = {
    "termination/pointer-domain": "finite-exhaustive",        # the pointer expression evaluated over both input bytes, 256 x 256
    "protocol/drops-malformed-evaluated": "bounded",            # datagramReceived interpreted on four concrete datagrams
    "framing/evaluated": "bounded",                             # DNSProtocol.dataReceived interpreted under a step budget on six concrete streams
    "*": "structural",                                          # exception-escape and progress rules over the decode call graph
}
ASSUMPTIONS = [
    "constructors of the module's own classes called with no/constant/integer arguments do not raise",
    "BytesIO.read/seek/tell, list.append, set.add, len, range, getattr/setattr on declared attributes and log.msg do not raise "
    "(seek with a negative offset raises ValueError, which is allowed)",
    "struct.calcsize/unpack follow the CPython struct module",
]

ALLOWED = {"EOFError", "ValueError", "UnicodeError", "UnicodeDecodeError", "UnicodeEncodeError", "UnicodeTranslateError"}
ROOTS = [("Message", "fromStr"), ("_EDNSMessage", "fromStr")]
HARMLESS = {"BytesIO", "len", "range", "set", "int", "getattr", "setattr", "log.msg", "struct.calcsize", "isinstance", "bool", "list", "tuple", "bytes",
            "min", "max", "abs", "frozenset", "dict", "str", "repr", "divmod", "bytearray", "sorted", "reversed", "enumerate", "zip", "sum", "any", "all",
            "hasattr", "id", "type", "callable", "iter", "memoryview", "round", "hash", "print", "log.err", "warnings.warn", "object", "super",
            # itertools constructors do not raise; whether iterating their result ends is rule termination/for-finite
            "chain", "itertools.chain", "chain.from_iterable", "itertools.chain.from_iterable", "cycle", "itertools.cycle", "count", "itertools.count", "repeat",
            "itertools.repeat", "islice", "itertools.islice", "zip_longest", "itertools.zip_longest", "map", "filter"}
# bytes(n)/bytearray(n)/int(x)/round reject bad operands with ValueError (allowed); sum/min/max over message-derived *numbers* do not raise
HARMLESS_METHODS = {"append", "add", "tell", "seek", "read", "get", "getvalue", "items", "values", "keys", "lower", "upper", "extend", "to_bytes", "from_bytes",
                    # str / bytes (index()/decode() raise ValueError subclasses only, which are allowed)
                    "join", "split", "rsplit", "splitlines", "strip", "lstrip", "rstrip", "startswith", "endswith", "find", "rfind", "index", "count", "replace",
                    "title", "capitalize", "hex", "isdigit", "isalpha", "partition", "rpartition", "ljust", "rjust", "zfill", "format", "encode",
                    # list / set / dict operations that cannot fail on the receiver kinds used here
                    "insert", "copy", "sort", "reverse", "update", "setdefault", "discard", "clear", "union", "issubset", "write"}
# list.pop()/dict.pop(k)/set.remove()/list.remove() raise IndexError/KeyError on hostile data: deliberately NOT harmless (see METHOD_RAISERS)
METHOD_RAISERS = {"pop": "IndexError", "remove": "KeyError", "popitem": "KeyError", "popleft": "IndexError"}
RAISERS = {  # callee -> exception it raises on hostile operands
    "socket.inet_ntoa": "OSError", "socket.inet_ntop": "OSError", "socket.inet_aton": "OSError", "socket.inet_pton": "OSError",
    "struct.pack": "struct.error", "pack": "struct.error", "struct.unpack_from": "struct.error", "chr": "ValueError", "nativeString": "UnicodeError",
    "_ord2bytes": "ValueError", "str2time": "ValueError", "float": "ValueError",
}
TABLES = {"QUERY_TYPES", "EXT_QUERIES", "QUERY_CLASSES", "REV_TYPES", "REV_CLASSES", "self._recordTypes", "_recordTypes", "Message._recordTypes"}


def _fail(msg):
    raise AnalysisError("C33: " + msg)


class Family:
    """Call-graph closure of the decoding entry points."""

    def __init__(self, ctx, mod, consts):
        self.ctx, self.mod, self.consts = ctx, mod, consts
        self.classes = module_classes(mod)
        self.funcs: Dict[Tuple[str, str], ast.FunctionDef] = {}
        self.edges: Dict[Tuple[str, str], List[Tuple[Tuple[str, str], ast.Call]]] = {}
        self.sites_missing_length: List[Tuple[Tuple[str, str], Tuple[str, str], ast.Call]] = []
        self.registry = sorted(n for n in self.classes if n.startswith("Record_")) + ["UnknownRecord"]
        self.unclassified: List[Tuple[Tuple[str, str], ast.Call]] = []

    def func(self, cname: str, fname: str) -> Optional[ast.FunctionDef]:
        if cname == "":
            f = self.mod.find(fname)
            return self.view(f) if isinstance(f, ast.FunctionDef) else None
        c = self.classes.get(cname)
        if c is None:
            return None
        r = mro_lookup(self.mod, c, fname)
        if r is None or not isinstance(r[1], ast.FunctionDef):
            return None
        return self.view(r[1])

    @staticmethod
    def _takes_a_decodable(h: ast.FunctionDef) -> bool:
        """A private module-level helper that calls a family method (decode / fromStr / parseRecords) on one of its own parameters: what it does depends
        on the call site, so it is read at each call site with the arguments substituted instead of being classified on its own."""
        params = {a.arg for a in h.args.args}
        return any(isinstance(c, ast.Call) and isinstance(c.func, ast.Attribute) and c.func.attr in ("decode", "fromStr", "parseRecords") and isinstance(c.func.value, ast.Name)
                   and c.func.value.id in params for c in ast.walk(h))

    def view(self, f: ast.FunctionDef) -> ast.FunctionDef:
        """The function as the rules read it: helpers that take the decodable as a parameter inlined at their call sites (cached per definition)."""
        from sa.props._lib_g import inline_module_helpers, normalise_local_shapes
        views = self.__dict__.setdefault("_views", {})
        k = id(f)
        if k not in views:
            if self._takes_a_decodable(f) and not isinstance(getattr(f, "_parent", None), ast.ClassDef):
                views[k] = (f, f)
            else:
                f1, _done = normalise_local_shapes(f)
                v, inl, refused = inline_module_helpers(self.mod, f1, self._takes_a_decodable)
                for r in refused:
                    self.ctx.note(f"family: helper not inlined ({r}); it is classified on its own")
                views[k] = (f, v)       # the original is kept alive so that its id stays unique
        return views[k][1]

    def owner(self, cname: str, fname: str) -> str:
        c = self.classes.get(cname)
        r = mro_lookup(self.mod, c, fname) if c is not None else None
        return r[0].name if r else cname

    def attr_classes(self, cname: str, attr: str) -> Set[str]:
        """Classes a ``self.<attr>`` of ``cname`` can be an instance of (from constructor assignments in the class and its bases)."""
        out: Set[str] = set()
        seen = set()
        todo = [cname]
        while todo:
            cn = todo.pop()
            if cn in seen or cn not in self.classes:
                continue
            seen.add(cn)
            c = self.classes[cn]
            todo.extend(base_names(c))
            for st in ast.walk(c):
                if isinstance(st, ast.Assign):
                    pairs = []
                    for t in st.targets:
                        if isinstance(t, (ast.Tuple, ast.List)) and isinstance(st.value, (ast.Tuple, ast.List)) and len(t.elts) == len(st.value.elts):
                            pairs.extend(zip(t.elts, st.value.elts))
                        else:
                            pairs.append((t, st.value))
                    for t, v in pairs:
                        if is_self_attr(t, attr):
                            vs = [v.body, v.orelse] if isinstance(v, ast.IfExp) else [v]
                            for x in vs:
                                if isinstance(x, ast.Call) and isinstance(x.func, ast.Name) and x.func.id in self.classes:
                                    out.add(x.func.id)
            # class-level factory aliases such as  _messageFactory = Message
            ca = class_assigns(c).get(attr)
            if isinstance(ca, ast.Name) and ca.id in self.classes:
                out.add("<factory>" + ca.id)
        return out

    def registry_lookups(self) -> Set[str]:
        """Names of the methods that hand out a class from the record-type registry (their return value is read from `_recordTypes`)."""
        if getattr(self, "_rl", None) is None:
            self._rl = set()
            for c in self.classes.values():
                for name, m in methods(c).items():
                    if any(isinstance(r, ast.Return) and r.value is not None and any(isinstance(x, ast.Attribute) and x.attr == "_recordTypes" for x in ast.walk(r.value)) for r in ast.walk(m)):
                        self._rl.add(name)
        return self._rl

    def _holds_registry_class(self, f: ast.FunctionDef, name: str) -> bool:
        """The local `name` is bound (only) to results of the registry lookup: calling it constructs a record of a registered class."""
        vals = [st.value for st in statements(f) if isinstance(st, ast.Assign) and any(isinstance(t, ast.Name) and t.id == name for t in st.targets)]
        if not vals or name in [a.arg for a in f.args.args]:
            return False
        for v in vals:
            ok = isinstance(v, ast.Call) and isinstance(v.func, ast.Attribute) and v.func.attr in self.registry_lookups()
            ok = ok or (isinstance(v, ast.Call) and isinstance(v.func, ast.Attribute) and v.func.attr == "get" and src(v.func.value).endswith("_recordTypes"))
            ok = ok or (isinstance(v, ast.Subscript) and src(v.value).endswith("_recordTypes"))
            if not ok:
                return False
        return True

    def local_classes(self, f: ast.FunctionDef, cname: str, name: str, _seen: Tuple[str, ...] = ()) -> Set[str]:
        out: Set[str] = set()
        if name in _seen:
            return {"?"}
        _seen = _seen + (name,)
        for st in statements(f):
            if isinstance(st, ast.Assign) and any(isinstance(t, ast.Name) and t.id == name for t in st.targets):
                v = st.value
                if isinstance(v, ast.Call) and isinstance(v.func, ast.Name) and v.func.id in self.classes:
                    out.add(v.func.id)
                elif isinstance(v, ast.Call) and is_self_attr(v.func):
                    for fc in self.attr_classes(cname, v.func.attr):
                        if fc.startswith("<factory>"):
                            out.add(fc[9:])
                        else:
                            out.add("?")
                elif isinstance(v, ast.Call) and isinstance(v.func, ast.Name) and v.func.id == "cls":
                    out.add(cname)
                elif isinstance(v, ast.Call) and isinstance(v.func, ast.Name) and self._holds_registry_class(f, v.func.id):
                    out.update(self.registry)        # an instance of whatever record class the type registry handed out
                else:
                    out.add("?")
        # a loop variable over a literal tuple/list of objects:  for x in (self.a, self.b): x.decode(...)
        for st in ast.walk(f):
            if isinstance(st, (ast.For, ast.comprehension)) and isinstance(st.target, ast.Name) and st.target.id == name:
                if not isinstance(st.iter, (ast.Tuple, ast.List)) or not st.iter.elts:
                    out.add("?")
                    continue
                for e in st.iter.elts:
                    if is_self_attr(e):
                        cs = {x for x in self.attr_classes(cname, e.attr) if not x.startswith("<factory>")}
                        out |= cs or {"?"}
                    elif isinstance(e, ast.Name) and e.id != name:
                        out |= self.local_classes(f, cname, e.id, _seen) or {"?"}
                    elif isinstance(e, ast.Call) and isinstance(e.func, ast.Name) and e.func.id in self.classes:
                        out.add(e.func.id)
                    else:
                        out.add("?")
        return out

    def param_tuple_classes(self, f: ast.FunctionDef, name: str) -> Optional[Tuple[Set[str], Set[str]]]:
        """`name` is bound by `for ..., name, ... in P` where P is a parameter of the helper `f`: look at EVERY call site of the helper in the module and at
        the table it passes for P (a tuple/list literal, directly or as a class-level / module-level constant).  -> (module classes found at name's
        position in the rows, all module classes in the rows), or None when a site or a table cannot be resolved or a row holds something else there."""
        params = [a.arg for a in f.args.args]
        loops = []
        for lp in ast.walk(f):
            if isinstance(lp, (ast.For, ast.comprehension)) and isinstance(lp.iter, ast.Name) and lp.iter.id in params:
                tgt = lp.target
                names = [x.id if isinstance(x, ast.Name) else None for x in (tgt.elts if isinstance(tgt, ast.Tuple) else [tgt])]
                if name in names:
                    loops.append((lp.iter.id, names.index(name), isinstance(tgt, ast.Tuple)))
        if not loops:
            return None
        at_pos: Set[str] = set()
        every: Set[str] = set()
        sites = [c for c in ast.walk(self.mod.tree) if isinstance(c, ast.Call) and ((isinstance(c.func, ast.Name) and c.func.id == f.name) or
                                                                                  (isinstance(c.func, ast.Attribute) and c.func.attr == f.name and isinstance(c.func.value, ast.Name) and c.func.value.id in ("self", "cls")))]
        if not sites:
            return None
        for pname, idx, is_tuple in loops:
            pi = params.index(pname)
            for c in sites:
                off = 1 if isinstance(c.func, ast.Attribute) else 0
                a = c.args[pi - off] if 0 <= pi - off < len(c.args) else next((k.value for k in c.keywords if k.arg == pname), None)
                if a is None:
                    return None
                table = a
                if isinstance(a, ast.Attribute) and isinstance(a.value, ast.Name):
                    owner = None
                    if a.value.id in self.classes:
                        owner = self.classes[a.value.id]
                    else:
                        par = getattr(c, "_parent", None)
                        while par is not None and not isinstance(par, ast.ClassDef):
                            par = getattr(par, "_parent", None)
                        owner = par
                    r = mro_lookup(self.mod, owner, a.attr) if owner is not None else None
                    table = r[1] if r is not None and isinstance(r[1], ast.expr) else None
                elif isinstance(a, ast.Name):
                    try:
                        table = self.mod.module_assign(a.id)
                    except Exception:
                        table = None
                if not isinstance(table, (ast.Tuple, ast.List)):
                    return None
                for row in table.elts:
                    cells = row.elts if (is_tuple and isinstance(row, (ast.Tuple, ast.List))) else ([row] if not is_tuple else None)
                    if cells is None or idx >= len(cells):
                        return None
                    for x in cells:
                        if isinstance(x, ast.Name) and x.id in self.classes:
                            every.add(x.id)
                    cell = cells[idx]
                    if isinstance(cell, ast.Name) and cell.id in self.classes:
                        at_pos.add(cell.id)
                    elif not isinstance(cell, ast.Constant):
                        return None
        return at_pos, every

    def struct_format(self, key, f, e, _depth: int = 0):
        """If `e` denotes a precompiled struct.Struct object: its format (str), or "computed" when the format is not a constant; else None.
        Recognised: a class attribute reached through self / cls / the class name, a module-level name, a local - bound to struct.Struct(<fmt>)."""
        if _depth > 4:
            return None
        cname = key[0]
        val = owner = None
        if isinstance(e, ast.Call) and call_name(e) in ("struct.Struct", "Struct") and len(e.args) == 1:
            val, owner = e, self.classes.get(cname)
        elif isinstance(e, ast.Attribute) and isinstance(e.value, ast.Name):
            c = None
            if f is not None and f.args.args and e.value.id == f.args.args[0].arg and cname:
                c = self.classes.get(cname)
            elif e.value.id in self.classes:
                c = self.classes[e.value.id]
            if c is not None:
                r = mro_lookup(self.mod, c, e.attr)
                if r is not None and isinstance(r[1], ast.expr):
                    owner, val = r
        elif isinstance(e, ast.Name):
            if f is not None:
                d = single_defs(f).get(e.id)
                if d is not None:
                    return self.struct_format(key, f, d, _depth + 1)
            try:
                d = self.mod.module_assign(e.id)
            except Exception:
                d = None
            if isinstance(d, ast.expr):
                val, owner = d, None
        if not (isinstance(val, ast.Call) and call_name(val) in ("struct.Struct", "Struct") and len(val.args) == 1):
            return None
        a = val.args[0]
        fmt = None
        if owner is not None and isinstance(a, ast.Name):
            fmt = class_const(self.mod, owner, a.id, self.consts)
        if fmt is None:
            try:
                fmt = const_eval(a, self.consts)
            except NotConst:
                fmt = None
        return fmt if isinstance(fmt, str) else "computed"

    @staticmethod
    def _getattr_names(f: ast.FunctionDef, recv) -> Optional[List[str]]:
        """Attribute names of  getattr(self, <name>)  when they are known: a string literal, or a loop variable over a literal tuple/list of
        string literals that is bound nowhere else in the function."""
        if not (isinstance(recv, ast.Call) and isinstance(recv.func, ast.Name) and recv.func.id == "getattr" and len(recv.args) == 2 and not recv.keywords
                and isinstance(recv.args[0], ast.Name) and f.args.args and recv.args[0].id == f.args.args[0].arg == "self"):
            return None
        a = recv.args[1]
        if isinstance(a, ast.Constant) and isinstance(a.value, str):
            return [a.value]
        if not isinstance(a, ast.Name):
            return None
        names: List[str] = []
        binders = 0
        for st in ast.walk(f):
            if isinstance(st, ast.Name) and st.id == a.id and isinstance(st.ctx, (ast.Store, ast.Del)):
                binders += 1
            if isinstance(st, (ast.For, ast.comprehension)) and isinstance(st.target, ast.Name) and st.target.id == a.id:
                if not (isinstance(st.iter, (ast.Tuple, ast.List)) and st.iter.elts and all(isinstance(e, ast.Constant) and isinstance(e.value, str) for e in st.iter.elts)):
                    return None
                names.extend(e.value for e in st.iter.elts)
        loops = sum(1 for st in ast.walk(f) if isinstance(st, (ast.For, ast.comprehension)) and isinstance(st.target, ast.Name) and st.target.id == a.id)
        if not names or binders != loops or a.id in [x.arg for x in f.args.args]:
            return None
        return names

    def resolve(self, key: Tuple[str, str], f: ast.FunctionDef, c: ast.Call):
        """-> list of callee keys | "harmless" | "ctor" | "raiser" | None (unclassified)."""
        cname = key[0]
        name = call_name(c)
        attr = call_attr(c)
        fn = c.func
        if name in RAISERS or name in ("ord", "struct.unpack", "unpack"):
            return "raiser"
        if name == "readPrecisely":
            return [("", "readPrecisely")]
        if isinstance(fn, ast.Name):
            if fn.id in self.classes or fn.id in ("cls", "t") or fn.id.endswith(("Error", "Exception", "Warning")):
                return "ctor"
            if fn.id in HARMLESS:
                return "harmless"
            if isinstance(self.mod.find(fn.id), ast.FunctionDef):
                return [("", fn.id)]
            # a local that holds the result of a call (the record class handed out by lookupRecordType, a factory ...): calling it constructs an object
            assigned = [st.value for st in statements(f) if isinstance(st, ast.Assign) and any(isinstance(t, ast.Name) and t.id == fn.id for t in st.targets)]
            if assigned and all(isinstance(v, ast.Call) for v in assigned) and fn.id not in [a.arg for a in f.args.args]:
                return "ctor"
            pt = self.param_tuple_classes(f, fn.id)
            if pt is not None and pt[0] and not c.args and not c.keywords:
                return "ctor"        # a no-argument factory taken from a table every caller passes as a literal: each entry is a class of this module
            return None
        if name in HARMLESS:
            return "harmless"
        if isinstance(fn, ast.Attribute):
            recv = fn.value
            if is_self_attr(fn):  # self.method(...)
                if self.func(cname, fn.attr) is not None:
                    return [(cname, fn.attr)]
                facs = [x for x in self.attr_classes(cname, fn.attr) if x.startswith("<factory>")]
                if facs:
                    return "ctor"
                return None
            if isinstance(recv, ast.Name) and recv.id in self.classes and self.func(recv.id, fn.attr) is not None:
                return [(recv.id, fn.attr)]          # _OPTHeader.fromRRHeader(r)
            if (cname and isinstance(recv, ast.Name) and f.args.args and recv.id == f.args.args[0].arg and recv.id != "self"
                    and any(dotted(d) == "classmethod" for d in f.decorator_list) and self.func(cname, fn.attr) is not None):
                return [(cname, fn.attr)]            # cls.helper(...) inside a classmethod: same resolution as self.helper(...)
            if fn.attr in ("decode", "fromStr", "parseRecords", "encode"):
                # family-style call on an object: resolve the receiver's class
                if src(recv).endswith(".payload") and fn.attr == "decode":
                    return [(r, "decode") for r in self.registry]
                cands: Set[str] = set()
                if is_self_attr(recv):
                    cands = {x for x in self.attr_classes(cname, recv.attr) if not x.startswith("<factory>")}
                elif isinstance(recv, ast.Name):
                    cands = self.local_classes(f, cname, recv.id)
                elif isinstance(recv, ast.Call) and call_name(recv) == "getattr" and len(recv.args) == 2 and isinstance(recv.args[1], ast.Name) \
                        and self.param_tuple_classes(f, recv.args[1].id) is not None and self.param_tuple_classes(f, recv.args[1].id)[1]:
                    # the attribute named by a row of a caller-supplied table: its value is an instance of one of the classes the tables name
                    cands = {x for x in self.param_tuple_classes(f, recv.args[1].id)[1] if self.func(x, fn.attr) is not None}
                elif self._getattr_names(f, recv) is not None:   # getattr(self, "a") / getattr(self, n) with n looping over literal names
                    for an in self._getattr_names(f, recv):
                        cs = {x for x in self.attr_classes(cname, an) if not x.startswith("<factory>")}
                        cands |= cs or {"?"}
                if fn.attr == "decode" and c.args and not (isinstance(c.args[0], ast.Name)):
                    return "raiser-bytes-decode"      # bytes.decode("ascii"): UnicodeDecodeError is a ValueError
                if fn.attr == "decode" and c.args and isinstance(c.args[0], ast.Constant):
                    return "raiser-bytes-decode"
                if not cands or "?" in cands:
                    return None
                return [(x, fn.attr) for x in sorted(cands)]
            if fn.attr in ("unpack", "unpack_from", "iter_unpack", "pack", "pack_into") and self.struct_format(key, f, recv) is not None:
                return "raiser"      # struct.error on a buffer of the wrong size: judged by rule escape/unpack-size
            if fn.attr in HARMLESS_METHODS:
                return "harmless"
            if fn.attr in METHOD_RAISERS:
                return "raiser"
        return None

    def build(self):
        # members by role: the entry points, and every registered record class's decoder (they are reachable through the type registry whatever the
        # dispatching code looks like); the rest is found through the call graph
        todo = list(ROOTS) + [(r, "decode") for r in self.registry if r in self.classes and self.func(r, "decode") is not None]
        while todo:
            key = todo.pop()
            if key in self.funcs:
                continue
            f = self.func(*key)
            if f is None:
                _fail(f"decode family member {key[0]}.{key[1]} not found")
            self.funcs[key] = f
            self.edges[key] = []
            for c in body_walk(f):
                if not isinstance(c, ast.Call):
                    continue
                r = self.resolve(key, f, c)
                if r is None:
                    self.unclassified.append((key, c))
                elif isinstance(r, list):
                    for callee in r:
                        self.edges[key].append((callee, c))
                        todo.append(callee)
        return self

    def qual(self, key) -> str:
        return f"{Q}.{self.owner(*key) + '.' if key[0] else ''}{key[1]}"

    def unpack_helpers(self) -> Dict[str, Tuple[int, int]]:
        """Module-level functions of the shape  return struct.unpack(FMT, readPrecisely(FILE, struct.calcsize(FMT)))  (through locals):
        name -> (index of the file parameter, index of the format parameter).  The size agreement holds by construction there."""
        if getattr(self, "_uh", None) is not None:
            return self._uh
        out: Dict[str, Tuple[int, int]] = {}
        for st in self.mod.tree.body:
            if not isinstance(st, ast.FunctionDef):
                continue
            params = [a.arg for a in st.args.args]
            rets = [x for x in ast.walk(st) if isinstance(x, ast.Return) and x.value is not None]
            if len(rets) != 1 or len(params) < 2:
                continue
            defs = single_defs(st)
            v = expand(rets[0].value, defs)
            if isinstance(v, ast.Call) and call_name(v) in ("struct.unpack", "unpack") and len(v.args) == 2 and isinstance(v.args[0], ast.Name) and v.args[0].id in params:
                b = v.args[1]
                if isinstance(b, ast.Call) and call_name(b) == "readPrecisely" and len(b.args) == 2 and isinstance(b.args[0], ast.Name) and b.args[0].id in params \
                        and isinstance(b.args[1], ast.Call) and call_name(b.args[1]) in ("struct.calcsize", "calcsize") and src(b.args[1].args[0]) == v.args[0].id:
                    out[st.name] = (params.index(b.args[0].id), params.index(v.args[0].id))
        self._uh = out
        return out


# ---------------------------------------------------------------------------------------------------------------

def _exc_allowed(mod, name: str) -> bool:
    seen = set()
    cur = [name.split(".")[-1]]
    while cur:
        n = cur.pop()
        if n in ALLOWED:
            return True
        if n in seen:
            continue
        seen.add(n)
        c = mod.find(n)
        if isinstance(c, ast.ClassDef):
            cur.extend(base_names(c))
    return False


def _handler_covers(h: ast.ExceptHandler, exc: str) -> bool:
    if h.type is None:
        return True
    ts = h.type.elts if isinstance(h.type, ast.Tuple) else [h.type]
    names = {(dotted(t) or "").split(".")[-1] for t in ts}
    if names & {"BaseException", "Exception"}:
        return True
    parents = {"struct.error": {"error"}, "KeyError": {"KeyError", "LookupError"}, "IndexError": {"IndexError", "LookupError"}, "TypeError": {"TypeError"},
               "ZeroDivisionError": {"ZeroDivisionError", "ArithmeticError"}, "OSError": {"OSError", "IOError", "error"}, "RecursionError": {"RecursionError", "RuntimeError"},
               "AttributeError": {"AttributeError"}}
    return bool(names & parents.get(exc, {exc}))


def _handled(g, node_ids: List[int], exc: str) -> bool:
    """Every CFG node holding the risky expression has, among its exceptional successors, a handler covering ``exc``."""
    if not node_ids:
        return False
    for n in node_ids:
        hs = [g.node(h).ast for h, l in g.succ[n] if l in ("exc", "raise") and g.node(h).kind == "handler"]
        if not any(_handler_covers(h, exc) for h in hs):
            return False
    return True


def unpack_view(e, fam: "Family", sz: "Sizes"):
    """(format string, via helper?) when ``e`` is struct.unpack(FMT, ...) or <unpack helper>(file, FMT) with a constant FMT, else None."""
    if not isinstance(e, ast.Call):
        return None
    if call_name(e) in ("struct.unpack", "unpack") and e.args:
        fmt = sz.ceval(e.args[0])
        return (fmt, False) if isinstance(fmt, str) else None
    uh = fam.unpack_helpers()
    nm = call_name(e)
    if nm in uh and len(e.args) > uh[nm][1]:
        fmt = sz.ceval(e.args[uh[nm][1]])
        return (fmt, True) if isinstance(fmt, str) else None
    return None


class Sizes:
    """Constant folding of byte-string lengths and struct formats inside one function."""

    def __init__(self, fam: Family, key, f):
        self.fam, self.key, self.f = fam, key, f
        self.defs = single_defs(f)
        self.cls = fam.classes.get(key[0])

    def ceval(self, e):
        e2 = expand(e, self.defs)
        cls, mod, consts = self.cls, self.fam.mod, self.fam.consts

        fam, key, f = self.fam, self.key, self.f

        class T(ast.NodeTransformer):
            def visit_Attribute(self, node):
                if node.attr in ("size", "format"):        # <struct.Struct object>.size
                    fmt = fam.struct_format(key, f, node.value)
                    if isinstance(fmt, str) and fmt != "computed":
                        try:
                            return ast.Constant(value=struct.calcsize(fmt) if node.attr == "size" else fmt)
                        except struct.error:
                            pass
                if cls is not None and is_self_attr(node):
                    v = class_const(mod, cls, node.attr, consts)
                    if v is not None:
                        return ast.Constant(value=v)
                return self.generic_visit(node)

        e3 = ast.fix_missing_locations(T().visit(e2))
        try:
            return const_eval(e3, consts)
        except NotConst:
            return None

    def size(self, e):
        """int (exact number of bytes) | "var" (depends on data) | None (unknown shape)."""
        if isinstance(e, ast.Name) and e.id in self.defs:
            return self.size(self.defs[e.id])
        if isinstance(e, ast.Call) and call_name(e) == "readPrecisely" and len(e.args) == 2:
            v = self.ceval(e.args[1])
            if isinstance(v, int) and not isinstance(v, bool):
                return v if v >= 0 else "var"
            return "var"
        if isinstance(e, ast.Constant) and isinstance(e.value, bytes):
            return len(e.value)
        if isinstance(e, ast.Call) and isinstance(e.func, ast.Attribute) and e.func.attr == "read" and len(e.args) == 1 and not e.keywords:
            # file.read(n) returns AT MOST n bytes: fewer at the end of the message, without raising
            v = self.ceval(e.args[0])
            return ("atmost", v if isinstance(v, int) and not isinstance(v, bool) else None, e)
        if isinstance(e, ast.BinOp) and isinstance(e.op, ast.Add):
            a, b = self.size(e.left), self.size(e.right)
            if isinstance(a, tuple) or isinstance(b, tuple):
                return "var"
            if isinstance(a, int) and isinstance(b, int):
                return a + b
            if a is None or b is None:
                return None
            return "var"
        if isinstance(e, ast.Subscript) and isinstance(e.slice, ast.Slice):
            return "var"
        if isinstance(e, (ast.Name, ast.Attribute)):
            return "var"
        return None


def _fmt_template(e, sz: "Sizes", depth: int = 0):
    """A struct format built at run time -> list of ("lit", text) | ("count", expr) | ("repeat", text, expr); None if the shape is not
    one of: literal, "..%d.." % operands, f-string, literal * n, concatenation, a local bound to one of these."""
    if depth > 6:
        return None
    v = sz.ceval(e)
    if isinstance(v, str):
        return [("lit", v)]
    if isinstance(e, ast.Name) and e.id in sz.defs:
        return _fmt_template(sz.defs[e.id], sz, depth + 1)
    if isinstance(e, ast.JoinedStr):
        out = []
        for part in e.values:
            if isinstance(part, ast.Constant):
                out.append(("lit", str(part.value)))
            elif isinstance(part, ast.FormattedValue) and part.format_spec is None and part.conversion == -1:
                out.append(("count", part.value))
            else:
                return None
        return out
    if isinstance(e, ast.BinOp) and isinstance(e.op, ast.Add):
        a, b = _fmt_template(e.left, sz, depth + 1), _fmt_template(e.right, sz, depth + 1)
        return a + b if a is not None and b is not None else None
    if isinstance(e, ast.BinOp) and isinstance(e.op, ast.Mult):
        for lit, n in ((e.left, e.right), (e.right, e.left)):
            t = sz.ceval(lit)
            if isinstance(t, str):
                return [("repeat", t, n)]
        return None
    if isinstance(e, ast.BinOp) and isinstance(e.op, ast.Mod):
        t = sz.ceval(e.left)
        if not isinstance(t, str):
            return None
        ops = list(e.right.elts) if isinstance(e.right, ast.Tuple) else [e.right]
        out = []
        i = 0
        buf = ""
        while i < len(t):
            if t[i] == "%" and i + 1 < len(t):
                if t[i + 1] == "%":
                    buf += "%"
                    i += 2
                    continue
                if t[i + 1] in "di" and ops:
                    if buf:
                        out.append(("lit", buf))
                        buf = ""
                    out.append(("count", ops.pop(0)))
                    i += 2
                    continue
                return None
            buf += t[i]
            i += 1
        if buf:
            out.append(("lit", buf))
        return out if not ops else None
    return None


def _render(parts, values) -> str:
    out = ""
    k = 0
    for p in parts:
        if p[0] == "lit":
            out += p[1]
        elif p[0] == "count":
            out += str(values[k])
            k += 1
        else:
            out += p[1] * values[k]
            k += 1
    return out


def _template_size(parts):
    """(base, [(unit, operand expr)]) for a run-time format without alignment padding; None if not linear / not a valid format."""
    ops = [p[-1] for p in parts if p[0] != "lit"]
    first = next((p[1] for p in parts if p[0] == "lit"), "")
    if not first or first[0] not in "!<>=":
        return None
    try:
        base = struct.calcsize(_render(parts, [0] * len(ops)))
        units = []
        for i in range(len(ops)):
            one = [0] * len(ops)
            one[i] = 1
            two = [0] * len(ops)
            two[i] = 2
            u1 = struct.calcsize(_render(parts, one)) - base
            u2 = struct.calcsize(_render(parts, two)) - base
            if u2 != 2 * u1:
                return None
            units.append((u1, ops[i]))
    except struct.error:
        return None
    return base, units


def _read_size_expr(e, sz: "Sizes", depth: int = 0) -> Optional[str]:
    """Source text of an integer expression giving len(e) for byte strings built from readPrecisely / constants."""
    if depth > 6:
        return None
    if isinstance(e, ast.Name) and e.id in sz.defs:
        return _read_size_expr(sz.defs[e.id], sz, depth + 1)
    if isinstance(e, ast.Call) and call_name(e) == "readPrecisely" and len(e.args) == 2:
        return "(" + src(expand(e.args[1], sz.defs)) + ")"
    if isinstance(e, ast.Constant) and isinstance(e.value, bytes):
        return str(len(e.value))
    if isinstance(e, ast.BinOp) and isinstance(e.op, ast.Add):
        a, b = _read_size_expr(e.left, sz, depth + 1), _read_size_expr(e.right, sz, depth + 1)
        return f"{a} + {b}" if a and b else None
    return None


def _nonneg_established(g, node_ids, operand, sz: "Sizes", consts) -> bool:
    """Some test edge dominating every node implies ``operand >= 0``."""
    want = lincmp(ast.Compare(left=expand(operand, sz.defs), ops=[ast.GtE()], comparators=[ast.Constant(value=0)]), consts)
    if want is None:
        return False
    if not want[0]:
        return want[1] <= 0      # a constant
    for n in node_ids:
        ok = False
        for t, lab in g.edge_guards(n):
            fm = lincmp(expand(g.node(t).ast, sz.defs), consts, negate=(lab == "F"))
            if fm is not None and fm[0] == want[0] and fm[1] >= want[1]:
                ok = True
        if not ok:
            return False
    return bool(node_ids)


def check_computed_format(ctx, fam, q, g, sz: "Sizes", call, what: str) -> None:
    """struct.unpack/calcsize whose format string is assembled from message-derived values."""
    cons = ctx.construct(q, call)
    parts = _fmt_template(call.args[0], sz)
    if parts is None:
        _fail(f"{q}: the struct format of {src(call)} is neither constant nor built by %/f-string/repetition from recognisable operands")
    ts = _template_size(parts)
    if ts is None:
        _fail(f"{q}: the run-time struct format of {src(call)} is not linear in its counts (native alignment or invalid literal part)")
    base, units = ts
    ids = g.ids_of(call)
    handled = _handled(g, ids, "struct.error")
    for unit, op in units:
        ok = handled or _nonneg_established(g, ids, op, sz, fam.consts)
        ctx.check(ok, "escape/computed-format", cons + f" | count {src(op)}",
                  f"the repeat count `{src(op)}` of the struct format comes from the message and nothing establishes `{src(op)} >= 0` before {what}: "
                  f"for a negative value the format is e.g. {_render(parts, [-2] * len(units))!r} and struct.error (neither EOFError nor ValueError) escapes the decoder")
    if what == "struct.unpack" and len(call.args) == 2:
        have = _read_size_expr(call.args[1], sz)
        if have is None:
            _fail(f"{q}: cannot determine the length of the unpacked bytes in {src(call)}")
        need = str(base) + "".join(f" + {u} * ({src(expand(op, sz.defs))})" for u, op in units)
        same = lin_equal(ast.parse(need, mode="eval").body, ast.parse(have, mode="eval").body, {}, fam.consts)
        ctx.check(same or handled, "escape/unpack-size", cons,
                  f"struct.unpack needs `{need}` bytes for this run-time format but is given `{have}` bytes: struct.error escapes when they differ")


_NUMERIC_CODES = set("bBhHiIlLqQnNefd?")


def _conversions(fmt: str) -> Optional[List[str]]:
    """Conversion type characters of a %-format, in operand order; None for mapping keys / * widths (not modelled)."""
    out = []
    i = 0
    while i < len(fmt):
        if fmt[i] != "%":
            i += 1
            continue
        i += 1
        if i < len(fmt) and fmt[i] == "%":
            i += 1
            continue
        if i < len(fmt) and fmt[i] == "(":
            return None
        while i < len(fmt) and fmt[i] in "#0- +":
            i += 1
        while i < len(fmt) and (fmt[i].isdigit() or fmt[i] == "."):
            i += 1
        if i < len(fmt) and fmt[i] == "*":
            return None
        while i < len(fmt) and fmt[i] in "hlL":
            i += 1
        if i >= len(fmt):
            return None
        out.append(fmt[i])
        i += 1
    return out


def value_kind(e, fam: "Family", key, f, sz: "Sizes", depth: int = 0) -> str:
    """"num" | "text" | "object" | "none" | "unknown": what a %-format operand can be, decided syntactically."""
    if depth > 6:
        return "unknown"

    def join(kinds):
        ks = set(kinds)
        if not ks:
            return "unknown"
        if len(ks) == 1:
            return next(iter(ks))
        bad = ks & {"text", "object", "none"}
        return next(iter(sorted(bad))) if bad and "unknown" not in ks and "num" not in ks else ("mixed:" + next(iter(sorted(bad))) if bad else "unknown")

    if isinstance(e, ast.Constant):
        if isinstance(e.value, bool) or isinstance(e.value, (int, float)):
            return "num"
        if isinstance(e.value, (str, bytes)):
            return "text"
        return "none" if e.value is None else "unknown"
    if isinstance(e, ast.JoinedStr):
        return "text"
    if isinstance(e, ast.IfExp):
        return join([value_kind(e.body, fam, key, f, sz, depth + 1), value_kind(e.orelse, fam, key, f, sz, depth + 1)])
    if isinstance(e, ast.Call):
        nm, at = call_name(e), call_attr(e)
        if nm in ("len", "int", "ord", "float", "abs", "sum", "round", "struct.calcsize", "calcsize", "hash", "id") or at in ("tell", "count", "find", "index"):
            return "num"
        if nm in ("str", "repr", "bytes", "nativeString", "_nicebytes", "_nicebyteslist", "domainString", "chr", "_ord2bytes") or \
                at in ("decode", "encode", "join", "lower", "upper", "strip", "format", "hex", "title", "read", "getvalue"):
            return "text"
        if nm == "readPrecisely":
            return "text"
        if isinstance(e.func, ast.Name) and e.func.id in fam.classes:
            return "object"
        return "unknown"
    if isinstance(e, ast.BinOp):
        a, b = value_kind(e.left, fam, key, f, sz, depth + 1), value_kind(e.right, fam, key, f, sz, depth + 1)
        if isinstance(e.op, ast.Mod) and a == "text":
            return "text"
        if a == "num" and b == "num":
            return "num"
        if isinstance(e.op, (ast.Add, ast.Mult)) and "text" in (a, b):
            return "text"
        if isinstance(e.op, (ast.Sub, ast.FloorDiv, ast.Div, ast.LShift, ast.RShift, ast.BitAnd, ast.BitOr, ast.Pow)) and "unknown" in (a, b) and not ({a, b} & {"text", "object", "none"}):
            return "num"      # these operators only produce numbers (or raise earlier)
        return "unknown"
    if isinstance(e, ast.Subscript) and isinstance(e.slice, ast.Constant) and isinstance(e.slice.value, int):
        v = expand(e.value, sz.defs)
        if isinstance(v, ast.Call) and call_name(v) in ("struct.unpack", "unpack"):
            fmt = sz.ceval(v.args[0])
            if isinstance(fmt, str):
                from sa.props._lib_g import struct_codes
                codes = struct_codes(fmt)
                i = e.slice.value
                if -len(codes) <= i < len(codes):
                    return "num" if codes[i][-1] in _NUMERIC_CODES else "text"
        return "unknown"
    if isinstance(e, ast.Name):
        params = [a.arg for a in f.args.args]
        kinds = []
        if e.id in params:
            if key[1] == "decode" and len(params) > 2 and e.id == params[2]:
                kinds.append("num")      # rdlength (rule escape/length-supplied)
            else:
                kinds.append("unknown")
        for st in statements(f):
            if isinstance(st, ast.Assign):
                for t in st.targets:
                    if isinstance(t, ast.Name) and t.id == e.id:
                        kinds.append(value_kind(st.value, fam, key, f, sz, depth + 1))
                    elif isinstance(t, (ast.Tuple, ast.List)):
                        for i, el in enumerate(t.elts):
                            if isinstance(el, ast.Name) and el.id == e.id:
                                v = expand(st.value, sz.defs)
                                if isinstance(v, ast.Call) and call_name(v) in ("struct.unpack", "unpack") and isinstance(sz.ceval(v.args[0]), str):
                                    from sa.props._lib_g import struct_codes
                                    codes = struct_codes(sz.ceval(v.args[0]))
                                    kinds.append("num" if i < len(codes) and codes[i][-1] in _NUMERIC_CODES else "text")
                                elif isinstance(st.value, (ast.Tuple, ast.List)) and len(st.value.elts) == len(t.elts):
                                    kinds.append(value_kind(st.value.elts[i], fam, key, f, sz, depth + 1))
                                else:
                                    kinds.append("unknown")
            elif isinstance(st, ast.AugAssign) and isinstance(st.target, ast.Name) and st.target.id == e.id:
                kinds.append(value_kind(st.value, fam, key, f, sz, depth + 1) if not isinstance(st.op, (ast.Sub, ast.FloorDiv, ast.RShift, ast.LShift)) else "num")
            elif isinstance(st, (ast.For,)) and any(isinstance(x, ast.Name) and x.id == e.id for x in ast.walk(st.target)):
                kinds.append("num" if isinstance(st.iter, ast.Call) and call_name(st.iter) == "range" else "unknown")
        return join(kinds)
    if is_self_attr(e):
        kinds = []
        owner = fam.owner(*key) if key[0] else None
        related = [c for n, c in fam.classes.items() if owner and (n == key[0] or n == owner or _derives_from(fam, c, owner) or _derives_from(fam, fam.classes.get(key[0]), n))]
        for c in related:
            ca = class_assigns(c).get(e.attr)
            if isinstance(ca, ast.Constant):
                kinds.append("text" if isinstance(ca.value, (str, bytes)) else ("num" if isinstance(ca.value, (int, float)) and not isinstance(ca.value, bool) else ("none" if ca.value is None else "unknown")))
            for st in ast.walk(c):
                if isinstance(st, ast.Assign) and any(is_self_attr(t, e.attr) for t in st.targets):
                    kinds.append(value_kind(st.value, fam, (c.name, "?"), f, sz, depth + 1) if isinstance(st.value, (ast.Constant, ast.Call, ast.JoinedStr)) else "unknown")
        kinds = [k for k in kinds if k != "none"] or kinds     # `x = None` placeholders at class level do not count when real values exist
        return join(kinds)
    return "unknown"


def _derives_from(fam: "Family", cls, base: str, seen=()) -> bool:
    if cls is None:
        return False
    for b in base_names(cls):
        if b == base:
            return True
        c = fam.classes.get(b)
        if c is not None and b not in seen and _derives_from(fam, c, base, seen + (b,)):
            return True
    return False


def _percent_count(fmt: str) -> Optional[int]:
    n = 0
    i = 0
    while i < len(fmt):
        if fmt[i] == "%":
            if i + 1 < len(fmt) and fmt[i + 1] == "%":
                i += 2
                continue
            if i + 1 < len(fmt) and fmt[i + 1] == "(":
                return None
            n += 1
        i += 1
    return n


def _unpack_call(n, fam: "Family", key, f, sz):
    """A call that unpacks bytes with a struct format -> ("exact", format expr | None, data expr, format of the Struct object | None) for
    struct.unpack(fmt, data) / <Struct>.unpack(data);  ("from", ...) for unpack_from;  None for anything else."""
    if not isinstance(n, ast.Call):
        return None
    nm = call_name(n)
    if nm in ("struct.unpack", "unpack"):
        if len(n.args) != 2 or n.keywords:
            _fail(f"{fam.qual(key)}: unpack() call shape not recognised: {src(n)}")
        return ("exact", n.args[0], n.args[1], None)
    if nm in ("struct.unpack_from", "unpack_from"):
        return ("from", None, None, None)
    if isinstance(n.func, ast.Attribute) and n.func.attr in ("unpack", "unpack_from"):
        fmt = fam.struct_format(key, f, n.func.value)
        if fmt is None:
            return None
        if n.func.attr == "unpack_from":
            return ("from", None, None, fmt)
        if len(n.args) != 1 or n.keywords:
            _fail(f"{fam.qual(key)}: Struct.unpack() call shape not recognised: {src(n)}")
        return ("exact", None, n.args[0], fmt)
    return None


def _length_tested(g, ids, name: str, need: int, sz) -> bool:
    """Every path to `ids` passes a test establishing len(<name>) == need (or >= need): `len(b) < need` false, `len(b) == need` true, ..."""
    def fact(test, lab):
        flip = lab == "F"
        while isinstance(test, ast.UnaryOp) and isinstance(test.op, ast.Not):
            test, flip = test.operand, not flip
        if not (isinstance(test, ast.Compare) and len(test.ops) == 1):
            return False
        a, op, b = test.left, type(test.ops[0]), test.comparators[0]

        def is_len(x):
            return isinstance(x, ast.Call) and call_name(x) == "len" and len(x.args) == 1 and isinstance(x.args[0], ast.Name) and x.args[0].id == name
        if is_len(b) and not is_len(a):
            a, b = b, a
            op = {ast.Lt: ast.Gt, ast.Gt: ast.Lt, ast.LtE: ast.GtE, ast.GtE: ast.LtE}.get(op, op)
        if not is_len(a):
            return False
        v = sz.ceval(b)
        if not isinstance(v, int) or isinstance(v, bool):
            return False
        if not flip:
            return (op is ast.Eq and v == need) or (op is ast.GtE and v >= need) or (op is ast.Gt and v >= need - 1)
        return (op is ast.NotEq and v == need) or (op is ast.Lt and v >= need) or (op is ast.LtE and v >= need - 1)
    return bool(ids) and all(any(fact(g.node(t).ast, lab) for t, lab in g.edge_guards(i)) for i in ids)


def _none_test(test, name):
    """True if `test` holds exactly when `name is None`, False if exactly when it is not None, else None (either polarity, `not` peeled)."""
    flip = False
    while isinstance(test, ast.UnaryOp) and isinstance(test.op, ast.Not):
        test, flip = test.operand, not flip
    if not (isinstance(test, ast.Compare) and len(test.ops) == 1):
        return None
    a, b = test.left, test.comparators[0]
    if isinstance(a, ast.Constant) and a.value is None:
        a, b = b, a
    if not (isinstance(a, ast.Name) and a.id == name and isinstance(b, ast.Constant) and b.value is None):
        return None
    if isinstance(test.ops[0], (ast.Is, ast.Eq)):
        return not flip
    if isinstance(test.ops[0], (ast.IsNot, ast.NotEq)):
        return flip
    return None


def check_escape(ctx, fam: Family):
    mod = fam.mod
    n_unpack = n_ord = n_idx = n_raise = 0
    for key, f in sorted(fam.funcs.items()):
        q = fam.qual(key)
        g = ctx.cfg(f)
        sz = Sizes(fam, key, f)
        params = [a.arg for a in f.args.args]
        length_param = params[2] if len(params) > 2 and key[1] == "decode" else None
        with ctx.section(f"escape {q}"):
            for n in body_walk(f):
                # ---- explicit raises
                if isinstance(n, ast.Raise):
                    n_raise += 1
                    ids = g.ids_of(n)
                    if n.exc is None:
                        hs = [h for h in ast.walk(f) if isinstance(h, ast.ExceptHandler) and any(x is n for x in ast.walk(h))]
                        ok = bool(hs) and hs[-1].type is not None and all(_exc_allowed(mod, dotted(t) or "?") for t in (hs[-1].type.elts if isinstance(hs[-1].type, ast.Tuple) else [hs[-1].type]))
                        ctx.check(ok, "escape/explicit-raise", ctx.construct(q, n), "a bare `raise` re-raises an exception type that the DNS protocols do not treat as a malformed packet")
                        continue
                    e = n.exc.func if isinstance(n.exc, ast.Call) else n.exc
                    name = dotted(e) or "?"
                    if _exc_allowed(mod, name):
                        ctx.ok("escape/explicit-raise", ctx.construct(q, n), name)
                        continue
                    under_none = length_param is not None and bool(ids) and all(any(_none_test(g.node(t).ast, length_param) == (lab == "T") for t, lab in g.edge_guards(i)) for i in ids)
                    if under_none:
                        ctx.ok("escape/explicit-raise", ctx.construct(q, n), f"only when `{length_param} is None`; every family call site supplies the length (rule escape/length-supplied)")
                        continue
                    if _handled(g, ids, name.split(".")[-1]):
                        ctx.ok("escape/explicit-raise", ctx.construct(q, n), "caught inside the function")
                        continue
                    ctx.violation("escape/explicit-raise", ctx.construct(q, n), f"decoding can raise {name}, which is neither EOFError nor ValueError: the UDP/TCP protocols do not treat it as a malformed packet")
                # ---- struct.unpack size agreement
                uk = _unpack_call(n, fam, key, f, sz)
                if uk is not None and uk[0] == "from":
                    # unpack_from(buffer, offset): needs offset + calcsize(fmt) bytes in a buffer that comes from the message
                    n_unpack += 1
                    ok = _handled(g, g.ids_of(n), "struct.error")
                    ctx.check(ok, "escape/unpack-size", ctx.construct(q, n), f"`{src(n)}` needs a buffer that is long enough for the format at that offset; nothing establishes its length: struct.error escapes")
                elif uk is not None:
                    n_unpack += 1
                    cons = ctx.construct(q, n)
                    fmt_arg, data_arg, fmt_obj = uk[1], uk[2], uk[3]
                    if fmt_arg is None and fmt_obj == "computed":
                        _fail(f"{q}: the format of the Struct object in {src(n)} is not a constant")
                    fmt = fmt_obj if fmt_arg is None else sz.ceval(fmt_arg)
                    if not isinstance(fmt, str) and key[0] == "" and key[1] in fam.unpack_helpers():
                        ctx.ok("escape/unpack-size", cons, "reads exactly struct.calcsize(fmt) bytes for the format it unpacks (checked at every call site: the format is constant there)")
                        continue
                    if not isinstance(fmt, str):
                        check_computed_format(ctx, fam, q, g, sz, n, "struct.unpack")
                        continue
                    size = sz.size(data_arg)
                    need = struct.calcsize(fmt)
                    if size is None:
                        _fail(f"{q}: cannot determine the length of the unpacked bytes in {src(n)}")
                    if _handled(g, g.ids_of(n), "struct.error"):
                        ctx.ok("escape/unpack-size", cons, "struct.error handled locally")
                    elif isinstance(size, tuple):
                        # bytes from file.read(n): length-checked only by an explicit test on the way to the unpack
                        ok = size[1] == need and isinstance(data_arg, ast.Name) and _length_tested(g, g.ids_of(n), data_arg.id, need, sz)
                        ctx.check(ok, "escape/unpack-size", cons,
                                  f"struct.unpack({fmt!r}) needs exactly {need} bytes but is given the result of `{src(size[2])}`: read() returns fewer bytes at the end of a message "
                                  "without raising, so a message that ends inside this field raises struct.error (which no protocol treats as a malformed packet) instead of EOFError; "
                                  "readPrecisely() or an explicit length test is required")
                    elif size == "var":
                        ctx.violation("escape/unpack-size", cons, f"struct.unpack({fmt!r}) needs exactly {need} bytes but is given a byte string whose length depends on the message: struct.error escapes")
                    else:
                        ctx.check(size == need, "escape/unpack-size", cons, f"struct.unpack({fmt!r}) needs exactly {need} bytes, readPrecisely supplies {size}: every message reaching this point raises struct.error")
                if isinstance(n, ast.Call) and call_name(n) in fam.unpack_helpers():
                    n_unpack += 1
                    uv = unpack_view(n, fam, sz)
                    if uv is None:
                        _fail(f"{q}: the format handed to {call_name(n)}() is not a constant: {src(n)}")
                    ctx.ok("escape/unpack-size", ctx.construct(q, n), f"{call_name(n)} reads calcsize({uv[0]!r}) = {struct.calcsize(uv[0])} bytes and unpacks them with the same format")
                if isinstance(n, ast.Call) and call_name(n) in ("struct.calcsize", "calcsize", "struct.Struct", "struct.iter_unpack") and n.args and not (key[0] == "" and key[1] in fam.unpack_helpers()):
                    if not isinstance(sz.ceval(n.args[0]), str):
                        check_computed_format(ctx, fam, q, g, sz, n, call_name(n))
                # ---- computed counts handed to callees that reject them with a disallowed exception
                if isinstance(n, ast.Call) and call_attr(n) == "to_bytes" and n.args and not isinstance(sz.ceval(n.args[0]), int):
                    ok = _handled(g, g.ids_of(n), "OverflowError")
                    ctx.check(ok, "escape/raising-callee", ctx.construct(q, n), "int.to_bytes() with a length taken from the message raises OverflowError when the value does not fit")
                if isinstance(n, ast.Call) and call_name(n) == "divmod" and len(n.args) == 2:
                    d = sz.ceval(n.args[1])
                    ok = (isinstance(d, (int, float)) and d != 0) or _handled(g, g.ids_of(n), "ZeroDivisionError")
                    ctx.check(ok, "escape/arithmetic", ctx.construct(q, n), f"divmod() by `{src(n.args[1])}`, a value from the message: ZeroDivisionError can escape")
                # ---- ord() of a single byte
                if isinstance(n, ast.Call) and call_name(n) == "ord" and len(n.args) == 1:
                    n_ord += 1
                    size = sz.size(n.args[0])
                    ok = size == 1 or _handled(g, g.ids_of(n), "TypeError")
                    ctx.check(ok, "escape/ord-single-byte", ctx.construct(q, n), f"ord() is applied to a byte string of length {size!r} (must be exactly 1): TypeError escapes")
                # ---- known raisers
                if isinstance(n, ast.Call) and call_name(n) in RAISERS:
                    exc = RAISERS[call_name(n)]
                    ok = _exc_allowed(mod, exc) or _handled(g, g.ids_of(n), exc.split(".")[-1] if exc != "struct.error" else "struct.error")
                    ctx.check(ok, "escape/raising-callee", ctx.construct(q, n), f"{call_name(n)}() raises {exc} on hostile operands and nothing here converts it")
                if isinstance(n, ast.Call) and isinstance(n.func, ast.Attribute) and n.func.attr in METHOD_RAISERS and not is_self_attr(n.func) \
                        and not (n.func.attr == "pop" and len(n.args) == 2):
                    exc = METHOD_RAISERS[n.func.attr]
                    base = src(n.func.value)
                    guarded = any(src(g.node(t).ast) == base and lab == "T" for i in g.ids_of(n) for t, lab in g.edge_guards(i))
                    ok = guarded or _handled(g, g.ids_of(n), exc) or _handled(g, g.ids_of(n), "KeyError" if exc == "IndexError" else "IndexError")
                    ctx.check(ok, "escape/raising-callee", ctx.construct(q, n), f"{src(n.func)}() raises {exc} (or KeyError/IndexError) when the container built from the message is empty "
                              "or lacks the element, and nothing here guards or converts it")
                # ---- subscripts
                if isinstance(n, ast.Subscript) and isinstance(n.ctx, ast.Load) and not isinstance(n.slice, ast.Slice):
                    cons = ctx.construct(q, n)
                    base = src(n.value)
                    try:
                        idx = const_eval(n.slice, fam.consts)
                    except NotConst:
                        idx = None
                    if base in TABLES or (isinstance(n.value, ast.Name) and isinstance(mod.module_assign(n.value.id), ast.Dict)):
                        ok = _handled(g, g.ids_of(n), "KeyError")
                        ctx.check(ok, "escape/table-lookup", cons, f"{base}[...] is indexed with a value taken from the message: an unknown code raises KeyError (use .get with a default)")
                        continue
                    if isinstance(idx, int) and not isinstance(idx, bool):
                        n_idx += 1
                        v = expand(n.value, sz.defs)
                        uv = unpack_view(v, fam, sz)
                        if uv is not None:
                            fmt = uv[0]
                            cnt = struct_field_count(fmt) if isinstance(fmt, str) else 0
                            ctx.check(-cnt <= idx < cnt, "escape/constant-index", cons, f"index {idx} into the {cnt} values produced by unpack({fmt!r})")
                            continue
                        # a sequence under a length guard
                        ok = False
                        for i in g.ids_of(n):
                            for t, lab in g.edge_guards(i):
                                te = g.node(t).ast
                                if isinstance(te, ast.Compare) and len(te.ops) == 1 and isinstance(te.ops[0], ast.Eq) and src(te.left) == f"len({base})" and lab == "T":
                                    try:
                                        ok = ok or const_eval(te.comparators[0], fam.consts) > idx >= 0
                                    except (NotConst, TypeError):
                                        pass
                                fm = lincmp(te, fam.consts, negate=(lab == "F"))
                                if fm is not None and fm[0] == frozenset({(f"len({base})", 1)}) and fm[1] >= idx + 1 and idx >= 0:
                                    ok = True
                        size = sz.size(n.value)
                        if isinstance(size, int) and 0 <= idx < size:
                            ok = True
                        ok = ok or _handled(g, g.ids_of(n), "IndexError")
                        ctx.check(ok, "escape/constant-index", cons, f"{base}[{idx}] is evaluated without a guard on len({base}): a short message raises IndexError")
                        continue
                    # variable index on something that is not a table
                    ok = _handled(g, g.ids_of(n), "IndexError") and _handled(g, g.ids_of(n), "KeyError")
                    ctx.check(ok, "escape/variable-index", cons, f"{src(n)} is indexed with a computed value: IndexError/KeyError can escape")
                # ---- arithmetic that raises on data
                if isinstance(n, ast.BinOp) and isinstance(n.op, (ast.Div, ast.FloorDiv, ast.Mod, ast.LShift, ast.RShift, ast.Pow)):
                    cons = ctx.construct(q, n)
                    if isinstance(n.op, ast.Mod) and isinstance(n.left, ast.Constant) and isinstance(n.left.value, (str, bytes)):
                        want = _percent_count(n.left.value if isinstance(n.left.value, str) else n.left.value.decode("latin-1"))
                        have = len(n.right.elts) if isinstance(n.right, ast.Tuple) else 1
                        ctx.check(want is not None and want == have, "escape/format-operands", cons, f"the format string has {want} conversions for {have} operands: TypeError escapes")
                        convs = _conversions(n.left.value if isinstance(n.left.value, str) else n.left.value.decode("latin-1"))
                        ops = list(n.right.elts) if isinstance(n.right, ast.Tuple) else [n.right]
                        if convs is not None and len(convs) == len(ops) and not _handled(g, g.ids_of(n), "TypeError"):
                            for pos, (cv, op_) in enumerate(zip(convs, ops), 1):
                                if cv not in "diouxXeEfFgG":
                                    continue
                                kind = value_kind(op_, fam, key, f, sz)
                                ctx.check(kind not in ("text", "object", "none"), "escape/format-types", cons + f" | operand {pos}",
                                          f"conversion %{cv} (operand {pos}) needs a number but `{src(op_)}` is {'a string' if kind == 'text' else ('None' if kind == 'none' else 'an object')}: "
                                          "evaluating this message raises TypeError, which escapes the decoder (the operands are formatted eagerly, also inside log.msg(...))")
                        continue
                    rc = sz.ceval(n.right)
                    okc = isinstance(rc, (int, float)) and not isinstance(rc, bool) and (rc != 0 if isinstance(n.op, (ast.Div, ast.FloorDiv, ast.Mod)) else 0 <= rc <= 64)
                    exc = "ZeroDivisionError" if isinstance(n.op, (ast.Div, ast.FloorDiv, ast.Mod)) else "ValueError"
                    ctx.check(okc or exc == "ValueError" or _handled(g, g.ids_of(n), exc), "escape/arithmetic", cons,
                              f"the right operand of `{src(n)}` comes from the message: {exc} can escape")
    # one byte is read either as ord(read(1)) or as struct.unpack("!B", read(1)): a refactor may move a site from one spelling to the other, so the
    # floor (the rule has not gone blind) is on the two kinds of site together
    ctx.floor("escape/unpack-size+ord-single-byte", n_unpack + n_ord, 18, "struct.unpack and ord() sites")
    ctx.floor("escape/unpack-size", n_unpack, 12, "struct.unpack sites")
    ctx.floor("escape/explicit-raise", n_raise, 2, "raise statements")
    # every callee classified
    for key, c in fam.unclassified:
        _fail(f"{fam.qual(key)}: callee `{src(c.func)}` is not classified (family / constructor / harmless / known raiser); extend the tables after reading it")
    ctx.ok("escape/callees-classified", Q + " | <decode family>", f"{len(fam.funcs)} functions, {sum(len(v) for v in fam.edges.values())} family call edges")


def check_length_supplied(ctx, fam: Family):
    """Record decoders use their `length` parameter; every call that can reach them must pass it."""
    uses: Dict[Tuple[str, str], bool] = {}
    for key, f in fam.funcs.items():
        if key[1] != "decode" or len(f.args.args) < 3:
            continue
        lp = f.args.args[2].arg
        used = False
        g = ctx.cfg(f)
        stores = g.ids(lambda m: m.ast is not None and m.kind in ("stmt", "for") and any(isinstance(x, ast.Name) and x.id == lp and isinstance(x.ctx, ast.Store) for x in walk_local(m.ast)))
        for n in body_walk(f):
            if isinstance(n, ast.Name) and n.id == lp and isinstance(n.ctx, ast.Load):
                ids = [i for i in g.ids_of(n) if i not in stores]
                if not any(g.path([g.entry], [i], avoid=stores) for i in ids):
                    continue  # the parameter was overwritten before this use
                par = getattr(n, "_parent", None)
                if isinstance(par, ast.Compare) and len(par.ops) == 1 and isinstance(par.ops[0], (ast.Is, ast.IsNot)) and isinstance(par.comparators[0], ast.Constant) and par.comparators[0].value is None:
                    continue
                if isinstance(par, ast.Call) and call_attr(par) == "decode" and n in par.args[1:]:
                    continue  # merely passed on
                used = True
        uses[key] = used
    n = 0
    for caller, edges in fam.edges.items():
        for callee, call in edges:
            if callee[1] != "decode":
                continue
            okey = callee
            f = fam.funcs.get(callee)
            if f is None:
                continue
            n += 1
            supplied = len(call.args) >= 2 or any(k.arg == "length" for k in call.keywords)
            if uses.get(callee) or any(isinstance(x, ast.Raise) for x in ast.walk(f)) and fam.owner(*callee) == "UnknownRecord":
                ctx.check(supplied, "escape/length-supplied", f"{fam.qual(caller)} | {src(call)} -> {fam.owner(*callee)}.decode",
                          f"{fam.owner(*callee)}.decode computes with its `length` argument but this call does not pass one: TypeError (or the `length is None` "
                          "exception) escapes")
    ctx.floor("escape/length-supplied", n, 20, "resolved decode call edges")
    # the length passed at the polymorphic site is the rdlength just decoded
    # found by role: the polymorphic site is the call the family resolves to the registered record decoders; the header decode next to it is the call
    # resolved to RRHeader.decode
    n_poly = 0
    for caller, edges in sorted(fam.edges.items()):
        poly: List[ast.Call] = []
        hdrc: List[ast.Call] = []
        for callee, call in edges:
            if callee[1] == "decode" and callee[0] in fam.registry and callee[0] != "UnknownRecord" and not any(call is x for x in poly):
                poly.append(call)
            if callee == ("RRHeader", "decode") and not any(call is x for x in hdrc):
                hdrc.append(call)
        # a site is polymorphic when it may reach (nearly) every registered decoder, not when it names one record class
        poly = [c for c in poly if len({cal[0] for cal, cl in edges if cl is c}) >= max(2, len(fam.registry) // 2)]
        if not poly:
            continue
        g = ctx.cfg(fam.funcs[caller])
        hdr = [i for c in hdrc for i in g.ids_of(c)]
        headers = {src(c.func.value) for c in hdrc}
        for call in poly:
            n_poly += 1
            ok = len(call.args) == 2 and not call.keywords and src(call.args[1]) in {f"{h}.rdlength" for h in headers}
            ok = ok or (len(call.args) == 1 and [k.arg for k in call.keywords] == ["length"] and src(call.keywords[0].value) in {f"{h}.rdlength" for h in headers})
            wit = g.must_precede(hdr, g.ids_of(call), exc=False) if hdr else None
            ctx.check(ok and bool(hdr) and wit is None, "escape/length-supplied", f"{fam.qual(caller)} | <rdlength>",
                      "the payload decoder is not given the rdlength of a header that was decoded successfully just before", witness=g.describe(wit) if wit else "")
    if not n_poly:
        _fail("anchor not found: the call that dispatches to the registered record decoders (payload.decode(strio, header.rdlength))")
    rh = fam.funcs.get(("RRHeader", "decode")) or _fail("RRHeader.decode not in the decode family")
    gr = ctx.cfg(rh)
    sets = gr.ids(lambda n: n.kind == "stmt" and isinstance(n.ast, ast.Assign) and any(is_self_attr(e, "rdlength") for t in n.ast.targets for e in (t.elts if isinstance(t, ast.Tuple) else [t])))
    wit = must_pass(gr, [gr.entry], sets) if sets else [gr.entry]
    ctx.check(bool(sets) and wit is None, "escape/length-supplied", f"{Q}.RRHeader.decode | self.rdlength", "RRHeader.decode can return without setting rdlength (it stays None)",
              witness=gr.describe(wit) if sets else "")


def check_read_precisely(ctx, fam: Family):
    f = fam.funcs.get(("", "readPrecisely")) or _fail("readPrecisely not in the decode family")
    g = ctx.cfg(f)
    q = Q + ".readPrecisely"
    fp, lp = [a.arg for a in f.args.args[:2]]
    reads = [st for st in statements(f) if isinstance(st, ast.Assign) and isinstance(st.value, ast.Call) and call_name(st.value) == f"{fp}.read" and [src(a) for a in st.value.args] == [lp]
             and isinstance(st.targets[0], ast.Name)]
    ctx.check(len(reads) == 1, "read/contract", q + " | <read>", f"readPrecisely does not read exactly the requested number of bytes with one {fp}.read({lp})")
    if len(reads) != 1:
        return
    buf = reads[0].targets[0].id
    raises = g.ids(lambda n: n.kind == "stmt" and isinstance(n.ast, ast.Raise))
    exp = lin_expect({lp: 1, f"len({buf})": -1}, 1)
    ok = False
    for r in raises:
        e = g.node(r).ast.exc
        nm = dotted(e.func if isinstance(e, ast.Call) else e) if e is not None else None
        forms = [lincmp(g.node(t).ast, {}, negate=(lab == "F")) for t, lab in g.edge_guards(r)]
        if nm == "EOFError" and exp in forms:
            ok = True
    ctx.check(ok, "read/contract", q + " | <short read>", f"a short read (`{fmt_lin(exp)}`) does not raise EOFError: callers would hand too few bytes to struct.unpack / ord")
    rets = g.ids(lambda n: n.kind == "stmt" and isinstance(n.ast, ast.Return))
    okr = bool(rets) and all(src(g.node(r).ast.value) == buf for r in rets)
    for r in rets:
        forms = [lincmp(g.node(t).ast, {}, negate=(lab == "F")) for t, lab in g.edge_guards(r)]
        okr = okr and lin_expect({lp: -1, f"len({buf})": 1}, 0) in forms
    ctx.check(okr, "read/contract", q + " | <returned bytes>", f"readPrecisely can return something other than the {lp} bytes it read (only after `len({buf}) >= {lp}`)")


_FINITE_WRAPPERS = ("enumerate", "reversed", "sorted", "list", "tuple", "iter", "set", "frozenset", "chain", "itertools.chain", "chain.from_iterable", "itertools.chain.from_iterable",
                    "islice", "itertools.islice", "zip_longest", "itertools.zip_longest", "map", "filter")
_ENDLESS = ("count", "itertools.count", "cycle", "itertools.cycle", "repeat", "itertools.repeat")


def _finite_iterable(e, lp, sz, depth: int = 0):
    """-> (True, "") finite and fixed before the loop | (False, why) positively endless or growing inside the loop | (None, why) shape not recognised."""
    if depth > 6:
        return None, "nesting"
    if isinstance(e, ast.Name) and e.id in sz.defs:
        r = _finite_iterable(sz.defs[e.id], lp, sz, depth + 1)
        if r[0] is not None:
            return r
    if isinstance(e, (ast.Tuple, ast.List, ast.Set, ast.Dict, ast.Constant)):
        return True, ""
    if isinstance(e, (ast.Attribute, ast.Name, ast.Subscript)):
        # a container: it must not grow inside the loop
        grows = [c for c in ast.walk(lp) if isinstance(c, ast.Call) and call_attr(c) in ("append", "extend", "insert", "add", "update", "setdefault") and src(c.func.value) == src(e)]
        return (False, f"`{src(e)}` grows inside the loop") if grows else (True, "")
    if isinstance(e, (ast.GeneratorExp, ast.ListComp, ast.SetComp, ast.DictComp)):
        rs = [_finite_iterable(gen.iter, lp, sz, depth + 1) for gen in e.generators]
        if any(r[0] is False for r in rs):
            return [r for r in rs if r[0] is False][0]
        return (True, "") if all(r[0] for r in rs) else (None, "comprehension over an unrecognised iterable")
    if isinstance(e, ast.Call):
        nm = call_name(e) or ""
        if nm == "range":
            return True, ""
        gf = sz.fam.funcs.get(("", nm)) if isinstance(e.func, ast.Name) else None
        if gf is not None and any(isinstance(x, (ast.Yield, ast.YieldFrom)) for x in walk_local(gf)):
            return True, ""      # a generator of the decode family: it ends when its own loops do, which the termination rules decide in its own section
        if nm in _ENDLESS and not (nm.endswith("repeat") and len(e.args) == 2):
            return False, f"{nm}() never ends"
        if nm == "iter" and len(e.args) == 2:
            return None, "iter(callable, sentinel)"
        if nm == "zip":
            rs = [_finite_iterable(a, lp, sz, depth + 1) for a in e.args]
            if any(r[0] for r in rs):
                return True, ""          # zip stops with its shortest argument
            if rs and all(r[0] is False for r in rs):
                return rs[0]
            return None, "zip() of unrecognised iterables"
        if nm in _FINITE_WRAPPERS:
            args = e.args[1:] if nm in ("map", "filter") else (e.args[:1] if nm.endswith("islice") else e.args)
            rs = [_finite_iterable(a, lp, sz, depth + 1) for a in args]
            if any(r[0] is False for r in rs):
                return [r for r in rs if r[0] is False][0]
            return (True, "") if rs and all(r[0] for r in rs) else (None, f"{nm}() of an unrecognised iterable")
        if isinstance(e.func, ast.Attribute) and e.func.attr in ("items", "values", "keys", "split", "splitlines", "copy") and not e.args[1:]:
            return _finite_iterable(e.func.value, lp, sz, depth + 1)
    return None, "shape"


def check_termination(ctx, fam: Family):
    mod = fam.mod
    # (1) no recursion in the family
    color: Dict[Tuple[str, str], int] = {}
    cyc: List[Tuple[str, str]] = []

    def dfs(k, stack):
        color[k] = 1
        for callee, _ in fam.edges.get(k, []):
            if callee not in fam.funcs:
                continue
            ck = (fam.owner(*callee), callee[1]) if callee[0] else callee
            if color.get(callee) == 1:
                cyc.extend(stack + [k, callee])
                return True
            if color.get(callee, 0) == 0 and dfs(callee, stack + [k]):
                return True
        color[k] = 2
        return False

    found = False
    for r in sorted(fam.funcs):
        if color.get(r, 0) == 0 and dfs(r, []):
            found = True
            break
    ctx.check(not found, "termination/no-recursion", Q + " | <decode family call graph>",
              "the decoders call each other recursively (" + " -> ".join(fam.qual(k).replace(Q + ".", "") for k in cyc[-6:]) + "): the recursion depth is chosen by the message "
              "(one level per compression pointer / nested element), so about 1000 chained levels raise RecursionError - neither EOFError nor ValueError - "
              "or decoding does not terminate")

    # (2) loops
    n_loops = 0
    for key, f in sorted(fam.funcs.items()):
        with ctx.section(f"termination {fam.qual(key)}"):
            q = fam.qual(key)
            g = ctx.cfg(f)
            sz = Sizes(fam, key, f)
            strio = f.args.args[1].arg if len(f.args.args) > 1 else None
            for lp in [x for x in body_walk(f) if isinstance(x, (ast.For, ast.While))]:
                n_loops += 1
                cons = ctx.construct(q, lp)
                if isinstance(lp, ast.For):
                    finite, why = _finite_iterable(lp.iter, lp, sz)
                    if finite is None:
                        ctx.note(f"termination/for-finite: {cons}: iterable `{src(lp.iter)}` not recognised ({why}); not judged")
                        continue
                    ctx.check(finite, "termination/for-finite", cons, f"the loop iterates over `{src(lp.iter)}`, which is not a finite sequence fixed before the loop: {why}")
                    continue
                # while loops
                heads = g.ids(lambda n: n.kind == "join" and n.ast is lp)
                if not heads:
                    _fail(f"{q}: loop head not found in the CFG")
                body_ids = {id(x) for st in lp.body for x in ast.walk(st)}
                seeks = g.find(lambda x: isinstance(x, ast.Call) and call_attr(x) == "seek" and id(x) in body_ids)
                # progress nodes: reads of >= 1 byte, family decodes that read >= 1 byte on every path, strict counter advance
                progress = set()
                for n in g.ids(lambda n: n.ast is not None and n.kind in ("stmt", "test")):
                    node = g.node(n)
                    if not any(id(x) in body_ids for x in walk_local(node.ast)):
                        continue
                    for x in walk_local(node.ast):
                        if isinstance(x, ast.Call) and call_name(x) == "readPrecisely":
                            v = sz.ceval(x.args[1]) if len(x.args) == 2 else None
                            if isinstance(v, int) and v >= 1:
                                progress.add(n)
                        uvp = unpack_view(x, fam, sz)
                        if uvp is not None and uvp[1] and struct.calcsize(uvp[0]) >= 1:
                            progress.add(n)      # a read-and-unpack helper consumes calcsize(fmt) >= 1 bytes
                        if isinstance(x, ast.Call) and call_attr(x) == "decode" and isinstance(x.func.value, ast.Name):
                            for cn in fam.local_classes(f, key[0], x.func.value.id):
                                cf = fam.func(cn, "decode")
                                if cf is not None and _reads_on_every_path(ctx, fam, (cn, "decode"), cf):
                                    progress.add(n)
                counter_ok = False
                t = lp.test
                if isinstance(t, ast.Compare) and len(t.ops) == 1 and isinstance(t.ops[0], (ast.Lt, ast.LtE)) and isinstance(t.left, ast.Name):
                    ctr = t.left.id
                    incs = [st for st in lp.body if isinstance(st, ast.AugAssign) and isinstance(st.target, ast.Name) and st.target.id == ctr and isinstance(st.op, ast.Add)]
                    others = [st for st in ast.walk(lp) if isinstance(st, (ast.Assign, ast.AugAssign)) and st not in incs and any(isinstance(x, ast.Name) and x.id == ctr and isinstance(x.ctx, ast.Store) for x in ast.walk(st))]
                    if len(incs) == 1 and not others:
                        fm = lincmp(ast.Compare(left=fresh(incs[0].value), ops=[ast.GtE()], comparators=[ast.Constant(value=1)]), fam.consts)
                        # increment = sum(nonnegative terms) + c with c >= 1: terms must be unsigned unpack results
                        if fm is not None:
                            terms, c = fm
                            nonneg = all(coef > 0 and _is_unsigned_local(f, sz, name) for name, coef in terms)
                            counter_ok = nonneg and (1 - c) >= 1   # value - 1 >= 0  <=>  terms >= c ; c = 1 - const
                            if counter_ok:
                                progress.update(n for st in incs for n in g.ids_of(st))
                if seeks:
                    # Name.decode style: seeking is allowed only under the visited-set discipline
                    _check_pointer_loop(ctx, fam, key, f, g, lp, heads, seeks, progress, cons)
                    continue
                back = g.path([d for h in heads for d, l in g.succ[h] if d not in progress], heads, avoid=progress, edge_ok=lambda a, b, l: l != "exc")
                ctx.check(back is None, "termination/while-progress", cons,
                          "an iteration of this loop can complete without consuming input or advancing its counter: a crafted message keeps the decoder spinning",
                          witness=g.describe(back))
    ctx.floor("termination/loops", n_loops, 8, "loops in the decode family")


_READS_CACHE: Dict[Tuple[int, Tuple[str, str]], bool] = {}


def _reads_on_every_path(ctx, fam: Family, key, f) -> bool:
    g = ctx.cfg(f)
    sz = Sizes(fam, key, f)
    reads = []
    for n in g.ids(lambda n: n.ast is not None and n.kind in ("stmt", "test")):
        for x in walk_local(g.node(n).ast):
            if isinstance(x, ast.Call) and call_name(x) == "readPrecisely" and len(x.args) == 2:
                v = sz.ceval(x.args[1])
                if isinstance(v, int) and v >= 1:
                    reads.append(n)
            uvp = unpack_view(x, fam, sz)
            if uvp is not None and uvp[1] and struct.calcsize(uvp[0]) >= 1:
                reads.append(n)
    return bool(reads) and must_pass(g, [g.entry], reads) is None


def _is_unsigned_local(f, sz: Sizes, name: str) -> bool:
    """``name`` is a local bound to a value of an unsigned struct code (so it is >= 0)."""
    d = sz.defs.get(name)
    if d is None:
        return False
    v = d.value if isinstance(d, ast.Subscript) else d
    if isinstance(v, ast.Call) and call_name(v) in ("struct.unpack", "unpack"):
        fmt = sz.ceval(v.args[0])
        return isinstance(fmt, str) and all(ch in "!<>=@BHILQ0123456789" for ch in fmt)
    if isinstance(v, ast.Call) and call_name(v) == "ord":
        return True
    return False


def _hop_bound(ctx, fam, f, g, lp, heads, s, scons, body_ids) -> bool:
    """The jump at node ``s`` is dominated by `counter <= CONST`, the counter is incremented by a positive constant on every way from the
    loop head to the jump, starts from a constant before the loop and is written nowhere else; exceeding the bound raises an allowed exception."""
    for t, lab in g.edge_guards(s):
        fm = lincmp(g.node(t).ast, fam.consts, negate=(lab == "F"))
        if fm is None or len(fm[0]) != 1:
            continue
        (ctr, coef), = tuple(fm[0])
        if coef != -1 or not ctr.isidentifier():
            continue
        bound = -fm[1]
        incs = g.ids(lambda n: n.kind == "stmt" and isinstance(n.ast, ast.AugAssign) and isinstance(n.ast.op, ast.Add) and isinstance(n.ast.target, ast.Name) and n.ast.target.id == ctr
                     and isinstance(n.ast.value, ast.Constant) and isinstance(n.ast.value.value, int) and n.ast.value.value >= 1 and id(n.ast) in body_ids)
        stores = [st for st in ast.walk(f) if isinstance(st, (ast.Assign, ast.AugAssign, ast.AnnAssign, ast.For)) and any(isinstance(x, ast.Name) and x.id == ctr and isinstance(x.ctx, ast.Store) for x in ast.walk(st))]
        inc_asts = [g.node(i).ast for i in incs]
        others = [st for st in stores if not any(st is a for a in inc_asts)]
        init_ok = len(others) == 1 and isinstance(others[0], ast.Assign) and id(others[0]) not in body_ids and isinstance(others[0].value, ast.Constant) and isinstance(others[0].value.value, int)
        every = bool(incs) and g.path([d for h in heads for d, l in g.succ[h] if d not in incs], [s], avoid=incs, edge_ok=lambda a, b, l: l != "exc") is None
        other = [d for d, l in g.succ[t] if l in ("T", "F") and l != lab]
        raised = [g.node(i).ast for i in g.reach(other, edge_ok=lambda a, b, l: l != "exc") if g.node(i).kind == "stmt" and isinstance(g.node(i).ast, ast.Raise)]
        esc = g.path(other, [g.exit] + heads, edge_ok=lambda a, b, l: l != "exc")
        okr = esc is None and bool(raised) and all(r.exc is not None and _exc_allowed(fam.mod, dotted(r.exc.func if isinstance(r.exc, ast.Call) else r.exc) or "?") for r in raised)
        if init_ok and every and okr:
            ctx.ok("termination/pointer-hop-bound", scons, f"at most {bound} jumps: `{ctr}` starts at {others[0].value.value}, grows on every jump and exceeding the bound raises an allowed exception")
            return True
    return False


def _check_pointer_loop(ctx, fam, key, f, g, lp, heads, seeks, progress, cons):
    q = fam.qual(key)
    body_ids = {id(x) for st in lp.body for x in ast.walk(st)}
    n_sites = 0
    for s in seeks:
        call = next(x for x in walk_local(g.node(s).ast) if isinstance(x, ast.Call) and call_attr(x) == "seek")
        # is this seek on a path back to the loop head?
        loops_back = g.path([s], heads, edge_ok=lambda a, b, l: l != "exc") is not None
        if not loops_back:
            continue
        n_sites += 1
        target = src(call.args[0]) if call.args else "?"
        scons = ctx.construct(q, call)
        # (a) dominated by `target in <visited>` false
        vis = None
        ldefs = single_defs(f)
        for t, lab in g.edge_guards(s):
            te = g.node(t).ast
            if isinstance(te, ast.Name) and te.id in ldefs:
                te = ldefs[te.id]
            if isinstance(te, ast.Compare) and len(te.ops) == 1 and src(te.left) == target and ((isinstance(te.ops[0], ast.In) and lab == "F") or (isinstance(te.ops[0], ast.NotIn) and lab == "T")):
                vis = src(te.comparators[0])
                vis_test, vis_lab = t, lab
        if vis is None and _hop_bound(ctx, fam, f, g, lp, heads, s, scons, body_ids):
            continue   # a hop counter bounds the number of jumps: terminates (whether the bound is acceptable is a C32 matter)
        ctx.check(vis is not None, "termination/pointer-visited-test", scons,
                  f"the decoder jumps to offset `{target}` without first testing whether that offset was already visited (and without a bound on the number of "
                  "jumps): two pointers referring to each other (b'\\xc0\\x0c' at offset 12) make Name.decode loop forever")
        if vis is None:
            continue
        # the other branch raises an allowed exception
        other = [d for d, l in g.succ[vis_test] if l in ("T", "F") and l != vis_lab]
        esc = g.path(other, [g.exit] + heads, edge_ok=lambda a, b, l: l != "exc")
        raised = [g.node(i).ast for i in g.reach(other, edge_ok=lambda a, b, l: l != "exc") if g.node(i).kind == "stmt" and isinstance(g.node(i).ast, ast.Raise)]
        okr = esc is None and bool(raised) and all(r.exc is not None and _exc_allowed(fam.mod, dotted(r.exc.func if isinstance(r.exc, ast.Call) else r.exc) or "?") for r in raised)
        ctx.check(okr, "termination/pointer-visited-test", scons + " | <already visited>", "a repeated pointer target does not end decoding with ValueError", witness=g.describe(esc))
        # (b) the target is recorded before the next iteration
        adds = g.find(lambda x: isinstance(x, ast.Call) and call_name(x) in (f"{vis}.add", f"{vis}.append") and [src(a) for a in x.args] == [target])
        succ = [d for d, l in g.succ[vis_test] if l == vis_lab]
        wit = must_pass(g, succ, adds, to=heads) if adds else [vis_test]
        ctx.check(bool(adds) and wit is None, "termination/pointer-recorded", scons,
                  f"the offset jumped to is not added to `{vis}` before the next iteration: the visited test can never fire", witness=g.describe(wit) if adds else "")
        # (c) the visited set is created once, before the loop, and only grows
        writes = [st for st in ast.walk(f) if isinstance(st, (ast.Assign, ast.AugAssign, ast.Delete)) and any(isinstance(x, ast.Name) and x.id == vis and isinstance(x.ctx, (ast.Store, ast.Del)) for x in ast.walk(st))]
        inside = [w for w in writes if id(w) in body_ids]
        shrink = [c for c in ast.walk(f) if isinstance(c, ast.Call) and isinstance(c.func, ast.Attribute) and src(c.func.value) == vis and c.func.attr in ("clear", "discard", "remove", "pop", "difference_update", "popleft", "__delitem__")]
        empty = len(writes) == 1 and isinstance(writes[0], ast.Assign) and (
            (isinstance(writes[0].value, ast.Call) and call_name(writes[0].value) in ("set", "list") and not writes[0].value.args) or
            (isinstance(writes[0].value, (ast.List, ast.Set)) and not writes[0].value.elts))
        ctx.check(len(writes) == 1 and not inside and not shrink and empty,
                  "termination/visited-monotone", ctx.construct(q, writes[0]) if writes else q + f" | {vis}",
                  f"`{vis}` is reset or shrunk while the name is being decoded: a pointer cycle is no longer detected")
        # (d) finite pointer domain: < 2^14
        tdef = single_defs(f).get(target)
        ok = False
        if tdef is not None:
            streams = {c.args[0].id for c in ast.walk(f) if isinstance(c, ast.Call) and call_name(c) == "readPrecisely" and c.args and isinstance(c.args[0], ast.Name)}
            names = {x.id for x in ast.walk(tdef) if isinstance(x, ast.Name)} - {"ord", "readPrecisely"} - streams
            if len(names) == 1:
                ln = next(iter(names))
                ok = True
                # both operands are single bytes: the whole domain 256 x 256 is enumerated (the expression is pre-parsed once per low byte)
                # the low byte enters as one operand of a top-level `|` or `+` whose other operand depends on the first byte only: the
                # result is monotone in it, so its extreme values 0 and 255 (with every first byte) cover the whole 256 x 256 domain
                top = tdef
                mono = isinstance(top, ast.BinOp) and isinstance(top.op, (ast.BitOr, ast.Add)) and sum(
                    1 for side in (top.left, top.right) if isinstance(side, ast.Call) and call_name(side) == "ord") == 1 and sum(
                    1 for x in ast.walk(top) if isinstance(x, ast.Call) and call_name(x) == "ord") == 1
                for lo in ((0, 255) if mono else range(256)):
                  e2 = fresh(tdef)
                  for x in ast.walk(e2):
                      if isinstance(x, ast.Call) and call_name(x) == "ord":
                          x.func = ast.Name(id="int", ctx=ast.Load())
                          x.args = [ast.Constant(value=lo)]
                  for hi in range(256):
                    if True:
                        try:
                            v = const_eval(e2, {ln: hi})
                        except NotConst:
                            ok = False
                            break
                        if not (isinstance(v, int) and 0 <= v < (1 << 14)):
                            ok = False
        ctx.check(ok, "termination/pointer-domain", scons + " | <target range>", "the pointer target is not confined to 0..16383: the visited set could grow without bound",
                  detail="both bytes it is computed from enumerated: every first byte, and for the second byte either all 256 values or - when it enters through a single "
                         "monotone | / + - its extremes 0 and 255")
    # every loop-back path without a seek makes progress
    seekset = set(seeks)
    back = g.path([d for h in heads for d, l in g.succ[h] if d not in progress], heads, avoid=set(progress), edge_ok=lambda a, b, l: l != "exc")
    ctx.check(back is None, "termination/while-progress", cons, "an iteration can complete without reading a byte", witness=g.describe(back))


def check_protocol_handlers(ctx, mod, consts):
    """The UDP protocol treats EOFError/ValueError from decoding as a malformed packet: caught (statically, following private helpers of the
    class) and - evaluated on concrete malformed datagrams - neither raised to the reactor nor dispatched."""
    cls = ctx.cls(DNS, "DNSDatagramProtocol")
    entry = ctx.func(DNS, "DNSDatagramProtocol.datagramReceived")
    ms = methods(cls)
    todo, seen = [entry], []
    while todo:
        f = todo.pop()
        if any(f is x for x in seen):
            continue
        seen.append(f)
        for c in ast.walk(f):
            if isinstance(c, ast.Call) and is_self_attr(c.func) and c.func.attr.startswith("_") and c.func.attr in ms:
                todo.append(ms[c.func.attr])
    sites = []
    for f in seen:
        g = ctx.cfg(f, exception_is_all=False)
        for n in g.find(lambda x: isinstance(x, ast.Call) and call_attr(x) == "fromStr"):
            sites.append((f, g, n))
    q = Q + ".DNSDatagramProtocol.datagramReceived"
    ctx.check(len(sites) == 1, "protocol/handles-malformed", q + " | <fromStr>", f"{len(sites)} fromStr call sites reachable from datagramReceived (one expected)")
    for f, g, c in sites:
        hs = [h for h, l in g.succ[c] if l == "exc" and g.node(h).kind == "handler"]
        for exc in ("EOFError", "ValueError"):
            cov = [h for h in hs if _handler_covers(g.node(h).ast, exc)]
            ctx.check(bool(cov), "protocol/handles-malformed", q + f" | {exc}", f"{exc} raised while decoding a datagram is not caught: one malformed packet reaches the reactor as an error")
            for h in cov[:1]:
                out = g.path([h], [g.raise_exit], edge_ok=lambda a, b, l: l == "raise" or l is None or l in ("T", "F"))
                ctx.check(out is None, "protocol/drops-malformed", q + f" | {exc} not re-raised", "the handler re-raises", witness=g.describe(out))
    # evaluated: malformed datagrams are dropped, a well-formed one is dispatched exactly once
    from sa.props._lib_g import Inst, MiniEval, Stub, _ClassRef, class_const, run_eval
    classes = module_classes(mod)
    reg = {}
    for nme, c in classes.items():
        if nme.startswith("Record_"):
            t = class_const(mod, c, "TYPE", consts)
            if isinstance(t, int):
                reg[t] = _ClassRef(c)
    good = b"\x12\x34\x01\x00\x00\x01\x00\x00\x00\x00\x00\x00\x07example\x03org\x00\x00\x01\x00\x01"
    cases = [("a 5-byte datagram", b"\x00\x01\x02\x03\x04", 0), ("a name whose compression pointer points to itself", good[:12] + b"\xc0\x0c\x00\x01\x00\x01", 0), ("a well-formed query", good, 1)]
    for label, data, want in cases:
        ev = MiniEval(mod, consts=consts, class_overrides={("Message", "_recordTypes"): dict(reg)}, helpers={"nativeString": lambda b: b.decode("ascii") if isinstance(b, bytes) else b})
        ctl = Stub("controller")
        proto = Inst(cls, liveMessages={}, resends={}, controller=ctl, transport=Stub("transport"))
        k, v = run_eval(lambda: ev.method(proto, "datagramReceived", [data, ("192.0.2.1", 53)]))
        if k == "unsupported":
            _fail(f"DNSDatagramProtocol.datagramReceived uses a construct outside the interpreted subset: {v}")
        n = len(ctl.called("messageReceived"))
        ctx.check(k == "value" and n == want, "protocol/drops-malformed-evaluated", q + f" | {label}",
                  f"{label}: datagramReceived {'raises ' + str(v) if k != 'value' else 'returns'} and dispatches {n} message(s); expected no exception and {want} dispatch(es)")


def _front_strip(st, defs=None) -> Optional[Tuple[str, ast.expr]]:
    """`B = B[E:]` (also through a local holding the slice) / `del B[:E]` for a buffer B (a local or a self attribute): -> (source of B, E)."""
    if isinstance(st, ast.Assign) and len(st.targets) == 1 and isinstance(st.targets[0], (ast.Name, ast.Attribute)):
        val = st.value
        if isinstance(val, ast.Name) and defs and val.id in defs:
            val = defs[val.id]
        if isinstance(val, ast.Subscript) and isinstance(val.slice, ast.Slice):
            sl = val.slice
            if src(st.targets[0]) == src(val.value) and sl.lower is not None and sl.upper is None and sl.step is None:
                return src(st.targets[0]), sl.lower
    if isinstance(st, ast.Delete) and len(st.targets) == 1 and isinstance(st.targets[0], ast.Subscript) and isinstance(st.targets[0].slice, ast.Slice):
        sl = st.targets[0].slice
        if sl.lower is None and sl.upper is not None and sl.step is None:
            return src(st.targets[0].value), sl.upper
    return None


def check_stream_framing(ctx, mod, consts):
    """The TCP protocol cuts the byte stream into length-prefixed frames in a loop.  Structural: every path from the loop head back to the loop head -
    exception handlers included - removes something from the front of the buffer (the frame just handled, or its prefix), so no frame is looked at
    twice.  Bounded: dataReceived interpreted under a step budget on well-formed, split, malformed and empty frames."""
    cls = ctx.cls(DNS, "DNSProtocol")
    entry = ctx.func(DNS, "DNSProtocol.dataReceived")
    ms = methods(cls)
    todo, seen = [entry], []
    while todo:
        f = todo.pop()
        if any(f is x for x in seen):
            continue
        seen.append(f)
        for c in ast.walk(f):
            if isinstance(c, ast.Call) and is_self_attr(c.func) and c.func.attr.startswith("_") and c.func.attr in ms:
                todo.append(ms[c.func.attr])
    n_loops = 0
    for f in seen:
        q = f"{Q}.DNSProtocol.{f.name}"
        g = ctx.cfg(f)
        for lp in [x for x in body_walk(f) if isinstance(x, ast.While)]:
            body_ids = {id(x) for st in lp.body for x in ast.walk(st)}
            defs = single_defs(f)
            strips = [(st, _front_strip(st, defs)) for st in ast.walk(lp) if isinstance(st, ast.stmt) and id(st) in body_ids and _front_strip(st, defs) is not None]
            bufs = {b for _, (b, _) in strips}
            in_test = {src(x) for x in ast.walk(lp.test) if isinstance(x, (ast.Name, ast.Attribute))}
            cons = ctx.construct(q, lp)
            if not strips or (not (bufs & in_test) and not (isinstance(lp.test, ast.Constant) and lp.test.value)):
                ctx.note(f"framing/frame-consumed: {cons}: not recognised as a loop that consumes a buffer from the front; left to the evaluated scenarios")
                continue
            n_loops += 1
            progress = set()
            for st, (b, e) in strips:
                v = None
                try:
                    v = const_eval(e, consts)
                except NotConst:
                    pass
                if v is None or (isinstance(v, int) and v >= 1):
                    progress.update(g.ids_of(st))      # a computed count is the frame length: the frame is removed whatever it held
            heads = g.ids(lambda n: n.kind == "join" and n.ast is lp)
            if not heads:
                _fail(f"{q}: loop head not found in the CFG")
            back = g.path([d for h in heads for d, l in g.succ[h] if d not in progress], heads, avoid=progress)
            ctx.check(back is None, "framing/frame-consumed", cons,
                      "an iteration of the framing loop can return to the loop head without removing the frame it looked at from the buffer (path below): the same bytes are "
                      "decoded again on every iteration - one malformed frame keeps the process spinning", witness=g.describe(back))
    if not n_loops:
        ctx.note("framing/frame-consumed: no framing loop recognised in DNSProtocol.dataReceived")

    # ---- evaluated under a step budget
    from sa.props._lib_g import BudgetExhausted, Inst, MiniEval, Raised, Stub, Unsupported, _ClassRef, class_const
    classes = module_classes(mod)
    reg = {}
    for nme, c in classes.items():
        if nme.startswith("Record_"):
            t = class_const(mod, c, "TYPE", consts)
            if isinstance(t, int):
                reg[t] = _ClassRef(c)
    good = b"\x12\x34\x01\x00\x00\x01\x00\x00\x00\x00\x00\x00\x07example\x03org\x00\x00\x01\x00\x01"
    frame = lambda b: struct.pack("!H", len(b)) + b
    q = f"{Q}.DNSProtocol.dataReceived"

    def run(chunks, budget):
        ev = MiniEval(mod, consts=consts, class_overrides={("Message", "_recordTypes"): dict(reg)}, helpers={"nativeString": lambda b: b.decode("ascii") if isinstance(b, bytes) else b})
        ev.fuel = budget
        ctl = Stub("controller")
        proto = Inst(cls, liveMessages={}, controller=ctl, transport=Stub("transport"))
        kind, val = "value", None
        try:
            for ch in chunks:
                ev.method(proto, "dataReceived", [ch])
        except BudgetExhausted:
            kind = "budget"
        except Raised as ex:
            kind, val = "raised", ex.name
        except Unsupported as ex:
            _fail(f"DNSProtocol.dataReceived uses a construct outside the interpreted subset: {ex}")
        except RecursionError:
            _fail("DNSProtocol.dataReceived: recursion limit of the analyser")
        return kind, val, len(ctl.called("messageReceived")), budget - ev.fuel

    k, v, n, cost = run([frame(good)], 100000)
    ctx.check(k == "value" and n == 1, "framing/evaluated", q + " | one well-formed frame",
              f"dataReceived {'returns' if k == 'value' else ('does not finish within 100000 interpreter steps' if k == 'budget' else 'raises ' + str(v))} and dispatches {n} message(s); expected 1")
    if k == "budget":
        return      # every further stream would spin in the same way
    budget = min(120000, max(20000, 40 * cost))
    ctx.extra["framing_step_budget"] = {"cost_of_a_well_formed_frame": cost, "budget": budget}
    two = frame(good) + frame(good)
    for label, chunks, want in (("two frames in one chunk", [two], 2), ("two frames cut after the length prefix and inside each message", [two[:2], two[2:20], two[20:len(frame(good)) + 2], two[len(frame(good)) + 2:]], 2)):
        k, v, n, _ = run(chunks, budget)
        ctx.check(k == "value" and n == want, "framing/evaluated", q + f" | {label}", f"{label}: dataReceived {'returns' if k == 'value' else ('does not finish within the step budget' if k == 'budget' else 'raises ' + str(v))} "
                  f"and dispatches {n} message(s); expected {want}")
    for label, data in (("a frame that is not a DNS message, then a well-formed frame", frame(b"\x00\x01\x02\x03\x04") + frame(good)),
                        ("a frame whose name points to itself, then a well-formed frame", frame(good[:12] + b"\xc0\x0c\x00\x01\x00\x01") + frame(good)),
                        ("an empty frame, then a well-formed frame", frame(b"") + frame(good))):
        k, v, n, _ = run([data], budget)
        # the connection may be given up (an exception reaches the transport) or the bad frame skipped - but the call must end, and a skipped frame must not take the next one with it
        ok = k == "raised" or (k == "value" and n == 1)
        ctx.check(ok, "framing/evaluated", q + f" | {label}",
                  f"{label}: dataReceived " + ("does not finish within {0} interpreter steps ({1}x the cost of a well-formed frame): the same frame is decoded over and over".format(budget, budget // max(cost, 1))
                                               if k == "budget" else f"returns after dispatching {n} message(s); expected the following frame to be dispatched exactly once"))


def check(ctx):
    mod = ctx.mod(DNS)
    consts = module_consts(mod)
    fam = Family(ctx, mod, consts).build()
    ctx.floor("family", len(fam.funcs), 30, "decode family members")
    for key in fam.funcs:
        ctx.functions.add(f"{DNS}:{fam.owner(*key) + '.' if key[0] else ''}{key[1]}")
    check_escape(ctx, fam)          # one section per family member inside
    with ctx.section("length-supplied"):
        check_length_supplied(ctx, fam)
    with ctx.section("readPrecisely"):
        check_read_precisely(ctx, fam)
    check_termination(ctx, fam)     # one section per family member inside
    with ctx.section("protocol handlers"):
        check_protocol_handlers(ctx, mod, consts)
    with ctx.section("TCP framing"):
        check_stream_framing(ctx, mod, consts)


MUTANTS = [
    Mutant("sentinel-iterator-pointer-walk-without-the-visited-test", DNS, "        visited = set()\n        self.name = b\"\"\n        off = 0\n        while 1:\n            l = ord(readPrecisely(strio, 1))\n            if l == 0:\n                if off > 0:\n                    strio.seek(off)\n                return\n            if (l >> 6) == 3:\n                new_off = (l & 63) << 8 | ord(readPrecisely(strio, 1))\n                if new_off in visited:\n                    raise ValueError(\"Compression loop in encoded name\")\n                visited.add(new_off)\n                if off == 0:\n                    off = strio.tell()\n                strio.seek(new_off)\n                continue\n            label = readPrecisely(strio, l)\n            if self.name == b\"\":\n                self.name = label\n            else:\n                self.name = self.name + b\".\" + label\n", "        seen = set()\n        self.name = b\"\"\n        resume = 0\n\n        def octet():\n            return ord(readPrecisely(strio, 1))\n\n        for n in iter(octet, 0):\n            if (n >> 6) != 3:\n                piece = readPrecisely(strio, n)\n                self.name = piece if self.name == b\"\" else self.name + b\".\" + piece\n                continue\n            where = (n & 63) << 8 | octet()\n            seen.add(where)\n            if resume == 0:\n                resume = strio.tell()\n            strio.seek(where)\n        if resume > 0:\n            strio.seek(resume)\n", expect_rule="termination/pointer-visited-test"),
    Mutant("payload-decoded-through-a-helper-without-its-length", DNS, "            t = self.lookupRecordType(header.type)\n            if not t:\n                continue\n            header.payload = t(ttl=header.ttl)\n            try:\n                header.payload.decode(strio, header.rdlength)\n            except EOFError:\n                return\n            list.append(header)\n", "            t = self.lookupRecordType(header.type)\n            if not t:\n                continue\n            header.payload = t(ttl=header.ttl)\n            if _cutShort(header.payload, strio):\n                return\n            list.append(header)\n", more=[(DNS, "def readPrecisely(file, l):\n", "def _cutShort(thing, stream, *more):\n    try:\n        thing.decode(stream, *more)\n    except EOFError:\n        return True\n    else:\n        return False\n\n\ndef readPrecisely(file, l):\n")], expect_rule="escape/length-supplied"),
    Mutant("label-generator-never-tests-the-visited-set", DNS, "        visited = set()\n        self.name = b\"\"\n        off = 0\n        while 1:\n            l = ord(readPrecisely(strio, 1))\n            if l == 0:\n                if off > 0:\n                    strio.seek(off)\n                return\n            if (l >> 6) == 3:\n                new_off = (l & 63) << 8 | ord(readPrecisely(strio, 1))\n                if new_off in visited:\n                    raise ValueError(\"Compression loop in encoded name\")\n                visited.add(new_off)\n                if off == 0:\n                    off = strio.tell()\n                strio.seek(new_off)\n                continue\n            label = readPrecisely(strio, l)\n            if self.name == b\"\":\n                self.name = label\n            else:\n                self.name = self.name + b\".\" + label\n", "        parts = list(_walkLabels(strio))\n        self.name = b\".\".join(parts)\n", more=[(DNS, "def readPrecisely(file, l):\n", "def _walkLabels(stream):\n    back = 0\n    seen = set()\n    while True:\n        n = ord(readPrecisely(stream, 1))\n        if n == 0:\n            if back > 0:\n                stream.seek(back)\n            return\n        if n & 0xC0 != 0xC0:\n            yield readPrecisely(stream, n)\n            continue\n        where = (n & 0x3F) << 8 | ord(readPrecisely(stream, 1))\n        seen.add(where)\n        if back == 0:\n            back = stream.tell()\n        stream.seek(where)\n\n\ndef readPrecisely(file, l):\n")], expect_rule="termination/pointer-visited-test"),
    Mutant("sections-parsed-in-an-endless-cycle", DNS, "        items = ((self.answers, nans), (self.authority, nns), (self.additional, nadd))\n\n        for l, n in items:\n            self.parseRecords(l, n, strio)\n",
           "        for l in cycle((self.answers, self.authority, self.additional)):\n            self.parseRecords(l, nans, strio)\n", more=[(DNS, "from itertools import chain\n", "from itertools import chain, cycle\n")],
           expect_rule="termination/for-finite"),
    # the dispatch to the registered decoders found by role (a local holding the record, nested under `if recordType:`, break instead of return)
    Mutant("payload-through-a-local-decoded-without-its-length", DNS, "            t = self.lookupRecordType(header.type)\n            if not t:\n                continue\n            header.payload = t(ttl=header.ttl)\n            try:\n                header.payload.decode(strio, header.rdlength)\n            except EOFError:\n                return\n            list.append(header)\n", "            recordType = self.lookupRecordType(header.type)\n            if recordType:\n                payload = header.payload = recordType(ttl=header.ttl)\n                try:\n                    payload.decode(strio)\n                except EOFError:\n                    break\n                list.append(header)\n", expect_rule="escape/length-supplied"),
    Mutant("payload-through-a-local-given-the-message-length", DNS, "            t = self.lookupRecordType(header.type)\n            if not t:\n                continue\n            header.payload = t(ttl=header.ttl)\n            try:\n                header.payload.decode(strio, header.rdlength)\n            except EOFError:\n                return\n            list.append(header)\n", "            recordType = self.lookupRecordType(header.type)\n            if recordType:\n                payload = header.payload = recordType(ttl=header.ttl)\n                try:\n                    payload.decode(strio, num)\n                except EOFError:\n                    break\n                list.append(header)\n", expect_rule="escape/length-supplied"),
    # the TCP framing loop: every way back to the loop head removes the frame from the buffer
    Mutant("tcp-unsolicited-message-dispatched-then-continue", DNS, "                except KeyError:\n                    self.controller.messageReceived(m, self)\n                else:\n                    del self.liveMessages[m.id]\n",
           "                except KeyError:\n                    self.controller.messageReceived(m, self)\n                    continue\n                else:\n                    del self.liveMessages[m.id]\n",
           expect_rule="framing/frame-consumed"),
    Mutant("tcp-length-forgotten-before-the-strip", DNS, "                self.buffer = self.buffer[self.length :]\n                self.length = None\n", "                self.length = None\n                self.buffer = self.buffer[self.length :]\n",
           expect_rule="framing/evaluated"),
    Mutant("tcp-strip-keeps-the-frame", DNS, "                self.buffer = self.buffer[self.length :]\n                self.length = None\n", "                self.buffer = self.buffer[0:]\n                self.length = None\n",
           expect_rule="framing/frame-consumed"),
    # every unpack consumes bytes from a length-checked read (readPrecisely or an explicit length test) - also through precompiled Struct objects
    Mutant("query-unpacks-a-plain-read", DNS, "        buff = readPrecisely(strio, 4)\n        self.type, self.cls = struct.unpack(\"!HH\", buff)\n", "        buff = strio.read(4)\n        self.type, self.cls = struct.unpack(\"!HH\", buff)\n", expect_rule="escape/unpack-size"),
    Mutant("query-length-test-one-byte-short", DNS, "        buff = readPrecisely(strio, 4)\n        self.type, self.cls = struct.unpack(\"!HH\", buff)\n", "        buff = strio.read(4)\n        if len(buff) < 3:\n            raise EOFError\n        self.type, self.cls = struct.unpack(\"!HH\", buff)\n",
           expect_rule="escape/unpack-size"),
    Mutant("soa-module-level-struct-object-plain-read", DNS, '        r = struct.unpack("!LlllL", readPrecisely(strio, 20))\n', '        r = _SOA_TIMERS.unpack(strio.read(_SOA_TIMERS.size))\n',
           more=[(DNS, "def readPrecisely(file, l):\n", "_SOA_TIMERS = struct.Struct(\"!LlllL\")\n\n\ndef readPrecisely(file, l):\n")], expect_rule="escape/unpack-size"),
    Mutant("unknown-record-raise-after-inverted-guard", DNS, "        if length is None:\n            raise Exception(\"must know length for unknown record types\")\n        self.data = readPrecisely(strio, length)\n",
           "        if length is None:\n            self.data = b\"\"\n            return\n        raise Exception(\"must know length for unknown record types\")\n", expect_rule="escape/explicit-raise"),
    Mutant("query-reads-three-bytes", DNS, "        buff = readPrecisely(strio, 4)\n        self.type, self.cls = struct.unpack(\"!HH\", buff)\n",
           "        buff = readPrecisely(strio, 3)\n        self.type, self.cls = struct.unpack(\"!HH\", buff)\n", expect_rule="escape/unpack-size"),
    Mutant("soa-format-grown", DNS, '        r = struct.unpack("!LlllL", readPrecisely(strio, 20))\n', '        r = struct.unpack("!LlllLL", readPrecisely(strio, 20))\n', expect_rule="escape/unpack-size"),
    Mutant("wks-single-unpack-with-computed-count", DNS, "        self.address = readPrecisely(strio, 4)\n        self.protocol = struct.unpack(\"!B\", readPrecisely(strio, 1))[0]\n        self.map = readPrecisely(strio, length - 5)\n",
           "        fields = struct.unpack(\"!4sB%ds\" % (length - 5), readPrecisely(strio, length))\n        self.address, self.protocol, self.map = fields\n", expect_rule="escape/computed-format"),
    Mutant("sshfp-fstring-format-unguarded", DNS, "        r = struct.unpack(\"!BB\", readPrecisely(strio, 2))\n        (self.algorithm, self.fingerprintType) = r\n        self.fingerprint = readPrecisely(strio, length - 2)\n",
           "        r = struct.unpack(f\"!BB{length - 2}s\", readPrecisely(strio, length))\n        (self.algorithm, self.fingerprintType, self.fingerprint) = r\n", expect_rule="escape/computed-format"),
    Mutant("wks-computed-format-size-off-by-one", DNS, "        self.address = readPrecisely(strio, 4)\n        self.protocol = struct.unpack(\"!B\", readPrecisely(strio, 1))[0]\n        self.map = readPrecisely(strio, length - 5)\n",
           "        if length < 5:\n            raise EOFError\n        fields = struct.unpack(\"!4sB%ds\" % (length - 5), readPrecisely(strio, length - 1))\n        self.address, self.protocol, self.map = fields\n",
           expect_rule="escape/unpack-size"),
    Mutant("hop-counter-reset-on-label", DNS, "        visited = set()\n        self.name = b\"\"\n", "        hops = 0\n        self.name = b\"\"\n",
           more=[(DNS, "                if new_off in visited:\n                    raise ValueError(\"Compression loop in encoded name\")\n                visited.add(new_off)\n",
                  "                hops += 1\n                if hops > 16:\n                    raise ValueError(\"Compression loop in encoded name\")\n"),
                 (DNS, "            label = readPrecisely(strio, l)\n            if self.name == b\"\":\n", "            label = readPrecisely(strio, l)\n            hops = 0\n            if self.name == b\"\":\n")],
           expect_rule="termination/pointer-visited-test"),
    Mutant("txt-log-operands-reordered", DNS, "                % (soFar, self.fancybasename, length)\n", "                % (self.fancybasename, soFar, length)\n", expect_rule="escape/format-types"),
    Mutant("txt-log-counts-strings-list", DNS, "                % (soFar, self.fancybasename, length)\n", "                % (self.data, self.fancybasename, length)\n".replace("self.data", "b\"\".join(self.data)"),
           expect_rule="escape/format-types"),
    Mutant("name-labels-decoded-recursively", DNS, "                strio.seek(new_off)\n                continue\n            label = readPrecisely(strio, l)\n",
           "                strio.seek(new_off)\n                rest = Name()\n                rest.decode(strio)\n                self.name = b\".\".join([x for x in (self.name, rest.name) if x])\n                strio.seek(off)\n                return\n            label = readPrecisely(strio, l)\n",
           expect_rule="termination/no-recursion"),
    Mutant("txt-strings-popped-unguarded", DNS, "        if soFar != length:\n            log.msg(\n", "        if soFar != length:\n            self.data.pop()\n            log.msg(\n", expect_rule="escape/raising-callee"),
    Mutant("visited-test-dropped", DNS, "                if new_off in visited:\n                    raise ValueError(\"Compression loop in encoded name\")\n                visited.add(new_off)\n",
           "                visited.add(new_off)\n", expect_rule="termination/pointer-visited-test"),
    Mutant("visited-never-recorded", DNS, "                visited.add(new_off)\n                if off == 0:\n", "                if off == 0:\n", expect_rule="termination/pointer-recorded"),
    Mutant("visited-reset-per-label", DNS, "            l = ord(readPrecisely(strio, 1))\n            if l == 0:\n                if off > 0:\n", "            l = ord(readPrecisely(strio, 1))\n            if l < 64:\n                visited = set()\n            if l == 0:\n                if off > 0:\n",
           expect_rule="termination/visited-monotone"),
    Mutant("compression-loop-raises-runtime-error", DNS, '                    raise ValueError("Compression loop in encoded name")\n', '                    raise RuntimeError("Compression loop in encoded name")\n',
           expect_rule="escape/explicit-raise"),
    Mutant("short-read-tolerated", DNS, "    buff = file.read(l)\n    if len(buff) < l:\n        raise EOFError\n    return buff\n", "    buff = file.read(l)\n    if not buff and l:\n        raise EOFError\n    return buff\n",
           expect_rule="read/contract"),
    Mutant("record-type-table-indexed", DNS, "        return self._recordTypes.get(type, UnknownRecord)\n", "        return self._recordTypes[type]\n", expect_rule="escape/table-lookup"),
    Mutant("charstr-peeks-first-byte", DNS, "        l = ord(readPrecisely(strio, 1))\n        self.string = readPrecisely(strio, l)\n", "        l = ord(strio.read(1))\n        self.string = readPrecisely(strio, l)\n",
           expect_rule="escape/ord-single-byte"),
    Mutant("opt-first-of-possibly-none", DNS, "        if len(optRecords) == 1:\n", "        if optRecords is not None:\n", expect_rule="escape/constant-index"),
    Mutant("visited-recorded-only-on-first-jump", DNS, "                visited.add(new_off)\n                if off == 0:\n                    off = strio.tell()\n",
           "                if off == 0:\n                    visited.add(new_off)\n                    off = strio.tell()\n", expect_rule="termination/pointer-recorded"),
    Mutant("options-loop-skips-unknown-codes", DNS, "                o = _OPTVariableOption()\n                o.decode(optionsBytes)\n                options.append(o)\n",
           "                o = _OPTVariableOption()\n                if optionsBytesLength >= 4:\n                    o.decode(optionsBytes)\n                options.append(o)\n",
           expect_rule="termination/while-progress"),
    Mutant("pointer-followed-recursively", DNS, "                strio.seek(new_off)\n                continue\n", "                strio.seek(new_off)\n                self.decode(strio)\n                return\n",
           expect_rule="termination/no-recursion"),
    Mutant("datagram-eof-handler-removed", DNS, "        except EOFError:\n            log.msg(\"Truncated packet (%d bytes) from %s\" % (len(data), addr))\n            return\n        except ValueError as ex:\n",
           "        except ValueError as ex:\n", more=[(DNS, "        except BaseException:\n            # Nothing should trigger this, but since we're potentially\n", "        except KeyError:\n            # Nothing should trigger this, but since we're potentially\n")],
           expect_rule="protocol/handles-malformed"),
    Mutant("a6-address-rendered-while-decoding", DNS, "        if self.prefixLen:\n            self.prefix.decode(strio)\n", "        if self.prefixLen:\n            self.prefix.decode(strio)\n        self._text = socket.inet_ntop(AF_INET6, self.suffix)\n",
           expect_rule="escape/raising-callee"),
    Mutant("mx-decodes-without-length-into-txt", DNS, "        self.name = Name()\n        self.name.decode(strio)\n\n    def __hash__(self):\n        return hash((self.preference, self.name))\n",
           "        self.name = Name()\n        self.name.decode(strio)\n        self.note = Record_TXT()\n        self.note.decode(strio)\n\n    def __hash__(self):\n        return hash((self.preference, self.name))\n",
           expect_rule="escape/length-supplied"),
]

SILENT = [
    Silent("pointer-walk-as-a-sentinel-iterator-loop-with-a-local-reader", DNS, "        visited = set()\n        self.name = b\"\"\n        off = 0\n        while 1:\n            l = ord(readPrecisely(strio, 1))\n            if l == 0:\n                if off > 0:\n                    strio.seek(off)\n                return\n            if (l >> 6) == 3:\n                new_off = (l & 63) << 8 | ord(readPrecisely(strio, 1))\n                if new_off in visited:\n                    raise ValueError(\"Compression loop in encoded name\")\n                visited.add(new_off)\n                if off == 0:\n                    off = strio.tell()\n                strio.seek(new_off)\n                continue\n            label = readPrecisely(strio, l)\n            if self.name == b\"\":\n                self.name = label\n            else:\n                self.name = self.name + b\".\" + label\n", "        seen = set()\n        self.name = b\"\"\n        resume = 0\n\n        def octet():\n            return ord(readPrecisely(strio, 1))\n\n        for n in iter(octet, 0):\n            if (n >> 6) != 3:\n                piece = readPrecisely(strio, n)\n                self.name = piece if self.name == b\"\" else self.name + b\".\" + piece\n                continue\n            where = (n & 63) << 8 | octet()\n            if where in seen:\n                raise ValueError(\"Compression loop in encoded name\")\n            seen.add(where)\n            if resume == 0:\n                resume = strio.tell()\n            strio.seek(where)\n        if resume > 0:\n            strio.seek(resume)\n"),
    # a helper taking the decodable as a parameter is read at its call sites; the pointer walk as a private generator
    Silent("payload-decoded-through-a-helper-that-reports-truncation", DNS, "            t = self.lookupRecordType(header.type)\n            if not t:\n                continue\n            header.payload = t(ttl=header.ttl)\n            try:\n                header.payload.decode(strio, header.rdlength)\n            except EOFError:\n                return\n            list.append(header)\n", "            t = self.lookupRecordType(header.type)\n            if not t:\n                continue\n            header.payload = t(ttl=header.ttl)\n            if _cutShort(header.payload, strio, header.rdlength):\n                return\n            list.append(header)\n", more=[(DNS, "def readPrecisely(file, l):\n", "def _cutShort(thing, stream, *more):\n    try:\n        thing.decode(stream, *more)\n    except EOFError:\n        return True\n    else:\n        return False\n\n\ndef readPrecisely(file, l):\n")]),
    Silent("name-labels-from-a-private-generator", DNS, "        visited = set()\n        self.name = b\"\"\n        off = 0\n        while 1:\n            l = ord(readPrecisely(strio, 1))\n            if l == 0:\n                if off > 0:\n                    strio.seek(off)\n                return\n            if (l >> 6) == 3:\n                new_off = (l & 63) << 8 | ord(readPrecisely(strio, 1))\n                if new_off in visited:\n                    raise ValueError(\"Compression loop in encoded name\")\n                visited.add(new_off)\n                if off == 0:\n                    off = strio.tell()\n                strio.seek(new_off)\n                continue\n            label = readPrecisely(strio, l)\n            if self.name == b\"\":\n                self.name = label\n            else:\n                self.name = self.name + b\".\" + label\n", "        parts = list(_walkLabels(strio))\n        self.name = b\".\".join(parts)\n", more=[(DNS, "def readPrecisely(file, l):\n", "def _walkLabels(stream):\n    back = 0\n    seen = set()\n    while True:\n        n = ord(readPrecisely(stream, 1))\n        if n == 0:\n            if back > 0:\n                stream.seek(back)\n            return\n        if n & 0xC0 != 0xC0:\n            yield readPrecisely(stream, n)\n            continue\n        where = (n & 0x3F) << 8 | ord(readPrecisely(stream, 1))\n        if where in seen:\n            raise ValueError(\"Compression loop in encoded name\")\n        seen.add(where)\n        if back == 0:\n            back = stream.tell()\n        stream.seek(where)\n\n\ndef readPrecisely(file, l):\n")]),
    # a module-level helper driven by a table of (attribute, factory) rows that every caller passes as a literal; zip()/enumerate() loops
    Silent("rp-decoded-by-a-table-driven-helper", DNS, "        self.mbox = Name()\n        self.txt = Name()\n        self.mbox.decode(strio)\n        self.txt.decode(strio)\n",
           "        _decodeFresh(self, strio, ((\"mbox\", Name), (\"txt\", Name)))\n",
           more=[(DNS, "def readPrecisely(file, l):\n", "def _decodeFresh(owner, strio, fields):\n    for attribute, factory in fields:\n        setattr(owner, attribute, factory())\n"
                  "    for attribute, factory in fields:\n        getattr(owner, attribute).decode(strio)\n\n\ndef readPrecisely(file, l):\n")]),
    Silent("sections-parsed-in-a-zip-loop", DNS, "        items = ((self.answers, nans), (self.authority, nns), (self.additional, nadd))\n\n        for l, n in items:\n            self.parseRecords(l, n, strio)\n",
           "        recordLists = (self.answers, self.authority, self.additional)\n        for records, expected in zip(recordLists, (nans, nns, nadd)):\n            self.parseRecords(records, expected, strio)\n"),
    Silent("payload-through-a-local-nested-break", DNS, "            t = self.lookupRecordType(header.type)\n            if not t:\n                continue\n            header.payload = t(ttl=header.ttl)\n            try:\n                header.payload.decode(strio, header.rdlength)\n            except EOFError:\n                return\n            list.append(header)\n", "            recordType = self.lookupRecordType(header.type)\n            if recordType:\n                payload = header.payload = recordType(ttl=header.ttl)\n                try:\n                    payload.decode(strio, header.rdlength)\n                except EOFError:\n                    break\n                list.append(header)\n"),
    Silent("tcp-malformed-frame-skipped-after-removing-it", DNS, "                m.fromStr(myChunk)\n\n                try:\n                    d, canceller = self.liveMessages[m.id]\n",
           "                try:\n                    m.fromStr(myChunk)\n                except (EOFError, ValueError):\n                    self.buffer = self.buffer[self.length :]\n                    self.length = None\n"
           "                    continue\n\n                try:\n                    d, canceller = self.liveMessages[m.id]\n"),
    Silent("tcp-strip-through-a-local", DNS, "                self.buffer = self.buffer[self.length :]\n                self.length = None\n",
           "                remaining = self.buffer[self.length :]\n                self.length = None\n                self.buffer = remaining\n"),
    Silent("query-plain-read-with-explicit-length-test", DNS, "        buff = readPrecisely(strio, 4)\n        self.type, self.cls = struct.unpack(\"!HH\", buff)\n",
           "        buff = strio.read(4)\n        if len(buff) != 4:\n            raise EOFError\n        self.type, self.cls = struct.unpack(\"!HH\", buff)\n"),
    Silent("rrheader-precompiled-struct-object-length-checked", DNS, "        l = struct.calcsize(self.fmt)\n        buff = readPrecisely(strio, l)\n        r = struct.unpack(self.fmt, buff)\n",
           "        r = self._struct.unpack(readPrecisely(strio, self._struct.size))\n",
           more=[(DNS, "    fmt = \"!HHIH\"\n\n    rdlength = None\n", "    fmt = \"!HHIH\"\n    _struct = struct.Struct(fmt)\n\n    rdlength = None\n")]),
    # shapes of the behaviour-preserving refactors C32r3 / C32r4 (cross sweep): guard clause before the length-less raise, objects decoded in a loop
    # over a literal tuple, attributes named by a loop over literal strings, a classmethod handing the option loop to a static helper
    Silent("unknown-record-raise-after-guard-clause", DNS, "        if length is None:\n            raise Exception(\"must know length for unknown record types\")\n        self.data = readPrecisely(strio, length)\n",
           "        if length is not None:\n            self.data = readPrecisely(strio, length)\n            return\n        raise Exception(\"must know length for unknown record types\")\n"),
    Silent("soa-names-decoded-in-a-loop", DNS, "        self.mname.decode(strio)\n        self.rname.decode(strio)\n", "        for domainName in (self.mname, self.rname):\n            domainName.decode(strio)\n"),
    Silent("naptr-fields-decoded-by-name", DNS, "        self.flags.decode(strio)\n        self.service.decode(strio)\n        self.regexp.decode(strio)\n        self.replacement.decode(strio)\n",
           "        for fieldName in (\"flags\", \"service\", \"regexp\", \"replacement\"):\n            getattr(self, fieldName).decode(strio)\n"),
    Silent("opt-options-decoded-by-static-helper", DNS,
           "            options = []\n            optionsBytes = BytesIO(rrHeader.payload.data)\n            optionsBytesLength = len(rrHeader.payload.data)\n            while optionsBytes.tell() < optionsBytesLength:\n"
           "                o = _OPTVariableOption()\n                o.decode(optionsBytes)\n                options.append(o)\n\n        # Decode variable options if present\n",
           "            options = cls._decodeOptions(rrHeader.payload.data)\n\n        # Decode variable options if present\n",
           more=[(DNS, "            options=options,\n        )\n\n\n@implementer(IEncodable)\nclass _OPTVariableOption(",
                  "            options=options,\n        )\n\n    @staticmethod\n    def _decodeOptions(optionBytes):\n        options = []\n        optionBuffer = BytesIO(optionBytes)\n        end = len(optionBytes)\n"
                  "        while optionBuffer.tell() < end:\n            option = _OPTVariableOption()\n            option.decode(optionBuffer)\n            options.append(option)\n        return options\n\n\n"
                  "@implementer(IEncodable)\nclass _OPTVariableOption(")]),
    Silent("read-and-unpack-helper", DNS, "def readPrecisely(file, l):\n", "def _readFields(file, fmt):\n    return struct.unpack(fmt, readPrecisely(file, struct.calcsize(fmt)))\n\n\ndef readPrecisely(file, l):\n",
           more=[(DNS, "        buff = readPrecisely(strio, 4)\n        self.type, self.cls = struct.unpack(\"!HH\", buff)\n", "        self.type, self.cls = _readFields(strio, \"!HH\")\n"),
                 (DNS, "            L = struct.unpack(\"!B\", readPrecisely(strio, 1))[0]\n", "            (L,) = _readFields(strio, \"!B\")\n"),
                 (DNS, "        self.preference = struct.unpack(\"!H\", readPrecisely(strio, 2))[0]\n", "        self.preference = _readFields(strio, \"!H\")[0]\n")]),
    Silent("record-class-local-renamed-and-branch-inverted", DNS, "            t = self.lookupRecordType(header.type)\n            if not t:\n                continue\n            header.payload = t(ttl=header.ttl)\n            try:\n                header.payload.decode(strio, header.rdlength)\n            except EOFError:\n                return\n            list.append(header)\n",
           "            recordClass = self.lookupRecordType(header.type)\n            if recordClass:\n                header.payload = recordClass(ttl=header.ttl)\n                try:\n                    header.payload.decode(strio, header.rdlength)\n                except EOFError:\n                    return\n                list.append(header)\n"),
    Silent("datagram-decoding-in-helper", DNS, "        m = Message()\n        try:\n            m.fromStr(data)\n        except EOFError:\n            log.msg(\"Truncated packet (%d bytes) from %s\" % (len(data), addr))\n            return\n        except ValueError as ex:\n            log.msg(f\"Invalid packet ({ex}) from {addr}\")\n            return\n        except BaseException:\n",
           "        m = self._parse(data, addr)\n        if m is None:\n            return\n        self._deliver(m, addr)\n\n    def _parse(self, data, addr):\n        m = Message()\n        try:\n            m.fromStr(data)\n        except (EOFError, ValueError) as ex:\n            log.msg(f\"Bad packet ({ex!r}) from {addr}\")\n            return None\n        return m\n\n    def _deliver(self, m, addr):\n        try:\n            pass\n        except BaseException:\n"),
    Silent("name-decode-not-in", DNS, "                if new_off in visited:\n                    raise ValueError(\"Compression loop in encoded name\")\n                visited.add(new_off)\n",
           "                if new_off not in visited:\n                    visited.add(new_off)\n                else:\n                    raise ValueError(\"Compression loop in encoded name\")\n"),
    Silent("visited-as-list-renamed", DNS, "        visited = set()\n        self.name = b\"\"\n", "        seenOffsets = []\n        self.name = b\"\"\n",
           more=[(DNS, "                if new_off in visited:\n                    raise ValueError(\"Compression loop in encoded name\")\n                visited.add(new_off)\n",
                  "                if new_off in seenOffsets:\n                    raise ValueError(\"Compression loop in encoded name\")\n                seenOffsets.append(new_off)\n")]),
    Silent("hop-counter-terminates", DNS, "        visited = set()\n        self.name = b\"\"\n", "        hops = 0\n        self.name = b\"\"\n",
           more=[(DNS, "                if new_off in visited:\n                    raise ValueError(\"Compression loop in encoded name\")\n                visited.add(new_off)\n",
                  "                hops += 1\n                if hops > 16:\n                    raise ValueError(\"Compression loop in encoded name\")\n")]),
    Silent("wks-single-unpack-guarded", DNS, "        self.address = readPrecisely(strio, 4)\n        self.protocol = struct.unpack(\"!B\", readPrecisely(strio, 1))[0]\n        self.map = readPrecisely(strio, length - 5)\n",
           "        if length < 5:\n            raise EOFError\n        fields = struct.unpack(\"!4sB%ds\" % (length - 5), readPrecisely(strio, length))\n        self.address, self.protocol, self.map = fields\n"),
    Silent("wks-single-unpack-struct-error-converted", DNS, "        self.address = readPrecisely(strio, 4)\n        self.protocol = struct.unpack(\"!B\", readPrecisely(strio, 1))[0]\n        self.map = readPrecisely(strio, length - 5)\n",
           "        try:\n            fields = struct.unpack(\"!4sB%ds\" % (length - 5), readPrecisely(strio, length))\n        except struct.error:\n            raise ValueError(\"short WKS record\")\n        self.address, self.protocol, self.map = fields\n"),
    Silent("txt-log-reworded-consistently", DNS, '                "Decoded %d bytes in %s record, but rdlength is %d"\n                % (soFar, self.fancybasename, length)\n',
           '                "%s record: decoded %d bytes, but rdlength is %d"\n                % (self.fancybasename, soFar, length)\n'),
    Silent("name-joined-from-label-list", DNS, "        visited = set()\n        self.name = b\"\"\n        off = 0\n", "        visited = set()\n        labels = []\n        self.name = b\"\"\n        off = 0\n",
           more=[(DNS, "            label = readPrecisely(strio, l)\n            if self.name == b\"\":\n                self.name = label\n            else:\n                self.name = self.name + b\".\" + label\n",
                  "            labels.append(readPrecisely(strio, l))\n            self.name = b\".\".join(labels)\n")]),
    Silent("query-calcsize", DNS, "        buff = readPrecisely(strio, 4)\n", "        buff = readPrecisely(strio, struct.calcsize(\"!HH\"))\n"),
    Silent("read-precisely-flipped", DNS, "    if len(buff) < l:\n        raise EOFError\n", "    if l > len(buff):\n        raise EOFError()\n"),
    Silent("loop-error-subclass", DNS, '                    raise ValueError("Compression loop in encoded name")\n', '                    raise UnicodeError("Compression loop in encoded name")\n'),
    Silent("datagram-single-handler", DNS, "        except EOFError:\n            log.msg(\"Truncated packet (%d bytes) from %s\" % (len(data), addr))\n            return\n        except ValueError as ex:\n",
           "        except (EOFError, ValueError) as ex:\n"),
]
