"""Helpers shared by C10-C13 (task.py / base.py rules).  Stdlib only; never imports twisted.

* small AST predicates (self attributes, assignment pairs with tuple-swap unpacking, parents)
* ``swallowing_names``: which module-level context managers of a module swallow exceptions,
  *derived* from logger/_logger.py (``Logger.failureHandler`` -> class whose ``__exit__`` returns
  True on every normal path)
* ``Interp``: a whitelisted interpreter for loop-free pure arithmetic code (finite-domain
  evaluation of repository *expressions*; anything outside the whitelist is an AnalysisError,
  never a verdict)
* ``may_mutate``: name-based call graph over a set of classes: can calling method m mutate
  attribute X (through the methods of those classes)?
"""
from __future__ import annotations

import ast
import math
from typing import Callable, Dict, Iterable, List, Optional, Sequence, Set, Tuple

from sa.astx import FUNC_TYPES, body_walk, call_attr, call_name, dotted, src, walk_local
from sa.cfg import CFG
from sa.effects import accesses
from sa.source import AnalysisError, methods


# ---- rule-group isolation ---------------------------------------------------------------------------

import contextlib


@contextlib.contextmanager
def section(ctx, name: str):
    """``with section(ctx, "group"):`` = ``with ctx.section("group"):`` plus: a NameError caused by a
    variable that an earlier, unreadable section failed to bind is an analysis error of this group
    (recorded, run continues), not a crash of the analyser."""
    _install_touch(ctx)
    t0, f0, o0 = len(ctx._touched), len(ctx.findings), len(ctx.obligations)
    with ctx.section(name):
        try:
            yield
        except NameError as e:
            raise AnalysisError(f"depends on a rule group that could not be analysed ({e})")
        new = [f for f in ctx.findings[f0:] if f.known is None]
        residual = sorted({nm for fn in ctx._touched[t0:] for nm in getattr(fn, "_residual", []) if nm not in ctx.__dict__.get("_reviewed_helpers", ())})
        if new and residual:
            # a rule may only say VIOLATION when everything the function calls was followed: withhold, never guess
            for f in new:
                ctx.findings.remove(f)
            for o in ctx.obligations[o0:]:
                if o.get("verdict") == "VIOLATED":
                    o["verdict"] = "withheld"
            raise AnalysisError(f"{len(new)} verdict(s) withheld: the code analysed calls private helper(s) {residual} that could not be inlined "
                                f"(first: {new[0].rule} | {new[0].construct})")


def _install_touch(ctx):
    """Record which functions a rule group builds a CFG for (instance-level wrapper, the engine is not modified)."""
    if "_touched" in ctx.__dict__:
        return
    ctx._touched = []
    orig = ctx.cfg

    def cfg(func, *a, **k):
        ctx._touched.append(func)
        return orig(func, *a, **k)
    ctx.cfg = cfg


def reviewed_helpers(ctx, *names):
    """Private helpers that stay un-inlined on purpose (mentioned in other modules / overridable) and whose effects were reviewed by
    hand as irrelevant to the rules: they do not clear the 'fully understood' bit."""
    ctx.__dict__.setdefault("_reviewed_helpers", set()).update(names)


class Missing:
    """Stand-in for a vanished anchor: any use raises AnalysisError, which the enclosing section
    records; the other rule groups still run."""

    def __init__(self, what: str):
        object.__setattr__(self, "_what", what)

    def __getattr__(self, name):
        raise AnalysisError(f"anchor vanished: {object.__getattribute__(self, '_what')}")

    def __bool__(self):
        return False


def anchor(ctx, rel: str, qual: str):
    """ctx.func that does not abort the run: a vanished function becomes a Missing stand-in."""
    try:
        return ctx.func(rel, qual)
    except AnalysisError as e:
        ctx.errors.append(f"[anchor] {e}")
        return Missing(f"{rel}:{qual}")


def anchor_methods(ctx, rel: str, cls: ast.ClassDef, names: Sequence[str]) -> Dict[str, ast.AST]:
    """methods(cls) where each required-but-missing name maps to a Missing stand-in."""
    m = dict(methods(cls))
    for n in names:
        if n not in m:
            ctx.errors.append(f"[anchor] anchor vanished: function {rel}:{cls.name}.{n}")
            m[n] = Missing(f"{rel}:{cls.name}.{n}")
        else:
            ctx.functions.add(f"{rel}:{cls.name}.{n}")
    return m


# ---- AST predicates -------------------------------------------------------------------------

def self_attr(node: ast.AST, name: Optional[str] = None, recv: str = "self") -> bool:
    return (isinstance(node, ast.Attribute) and isinstance(node.value, ast.Name) and node.value.id == recv
            and (name is None or node.attr == name))


def assign_pairs(st: ast.AST) -> List[Tuple[ast.expr, ast.expr]]:
    """(target, value) pairs of an assignment; ``a, b = x, y`` is unpacked element-wise,
    ``a = b = v`` yields both."""
    out: List[Tuple[ast.expr, ast.expr]] = []
    if isinstance(st, ast.Assign):
        for t in st.targets:
            if isinstance(t, (ast.Tuple, ast.List)) and isinstance(st.value, (ast.Tuple, ast.List)) and len(t.elts) == len(st.value.elts):
                out.extend(zip(t.elts, st.value.elts))
            else:
                out.append((t, st.value))
    elif isinstance(st, ast.AnnAssign) and st.value is not None:
        out.append((st.target, st.value))
    return out


def is_const(node: ast.AST, value) -> bool:
    return isinstance(node, ast.Constant) and node.value is value


def assigns_self(st: ast.AST, attr: str, pred: Optional[Callable[[ast.expr], bool]] = None, recv: str = "self") -> bool:
    """Statement assigns ``recv.attr`` (a value satisfying pred)."""
    for t, v in assign_pairs(st):
        if self_attr(t, attr, recv) and (pred is None or pred(v)):
            return True
    return False


def parents(node: ast.AST):
    n = getattr(node, "_parent", None)
    while n is not None:
        yield n
        n = getattr(n, "_parent", None)


def enclosing(node: ast.AST, types, stop=FUNC_TYPES) -> Optional[ast.AST]:
    """Nearest ancestor of one of ``types`` inside the same function."""
    for p in parents(node):
        if isinstance(p, types):
            return p
        if isinstance(p, stop):
            return None
    return None


def nested_defs(func: ast.AST) -> Dict[str, ast.AST]:
    """Functions defined directly inside ``func`` (any block depth, not inside further defs)."""
    out: Dict[str, ast.AST] = {}
    for n in body_walk(func):
        if isinstance(n, (ast.FunctionDef, ast.AsyncFunctionDef)):
            out[n.name] = n
    return out


def all_funcs_of_class(cls: ast.ClassDef, prefix: Optional[str] = None):
    """(qualname, function) for every method and every nested def/lambda of a class."""
    out = []

    def rec(node, pre):
        for ch in ast.iter_child_nodes(node):
            if isinstance(ch, (ast.FunctionDef, ast.AsyncFunctionDef)):
                out.append((pre + ch.name, ch))
                rec(ch, pre + ch.name + ".")
            elif isinstance(ch, ast.Lambda):
                out.append((pre + "<lambda>", ch))
                rec(ch, pre + "<lambda>.")
            elif isinstance(ch, ast.ClassDef):
                continue
            else:
                rec(ch, pre)

    rec(cls, (prefix if prefix is not None else cls.name) + ".")
    return out


def calls_of(func: ast.AST, pred: Callable[[ast.Call], bool]) -> List[ast.Call]:
    return [n for n in body_walk(func) if isinstance(n, ast.Call) and pred(n)]


def node_has_call(g: CFG, pred: Callable[[ast.Call], bool], kinds=("stmt", "test", "for", "with")) -> List[int]:
    return gfind(g, lambda x: isinstance(x, ast.Call) and pred(x), kinds=kinds)


def gfind(g: CFG, pred: Callable[[ast.AST], bool], kinds=("stmt", "test", "for", "with")) -> List[int]:
    """Like CFG.find but does not look inside nested ``def`` / ``class`` statements (CFG.find walks
    into the body of a nested def because the def statement is the walk root)."""
    out = []
    for n in g.find(pred, kinds=kinds):
        a = g.node(n).ast
        if isinstance(a, (ast.FunctionDef, ast.AsyncFunctionDef, ast.ClassDef)):
            continue
        out.append(n)
    return out


def must_pass(g: CFG, srcs, via, to=None, exc: bool = False):
    """CFG.must_pass with the two corner cases closed: a source that is itself a ``via`` node is
    satisfied (CFG.path never filters sources), and a source that is a target counts as reached."""
    via = set(via)
    srcs = [s for s in srcs if s not in via]
    if not srcs:
        return None
    return g.must_pass(srcs, via, to=to, exc=exc, strict=False)


def test_is(expr: ast.AST, *texts: str) -> bool:
    return src(expr) in texts


def is_none_test(expr: ast.AST, what: str) -> Optional[bool]:
    """``<what> is None`` -> True, ``<what> is not None`` -> False, bare ``<what>`` -> False
    (truthy == not None for the objects concerned), else None.  Polarity of the *test being true*
    meaning "is None"."""
    if isinstance(expr, ast.Compare) and len(expr.ops) == 1 and src(expr.left) == what and is_const(expr.comparators[0], None):
        if isinstance(expr.ops[0], (ast.Is, ast.Eq)):
            return True
        if isinstance(expr.ops[0], (ast.IsNot, ast.NotEq)):
            return False
    if src(expr) == what:
        return False
    return None


def guarded_not_none(g: CFG, n: int, what: str) -> bool:
    """Node n runs only when ``what`` is not None / truthy."""
    for t, lab in g.edge_guards(n):
        k = is_none_test(g.node(t).ast, what)
        if k is None:
            continue
        if (k and lab == "F") or ((not k) and lab == "T"):
            return True
    return False


def guarded_none(g: CFG, n: int, what: str) -> bool:
    for t, lab in g.edge_guards(n):
        k = is_none_test(g.node(t).ast, what)
        if k is None:
            continue
        if (k and lab == "T") or ((not k) and lab == "F"):
            return True
    return False


def eq_test(expr: ast.AST, left: str, value) -> Optional[bool]:
    """``left == value`` -> True; ``left != value`` -> False; (for value 0: ``not left`` handled by
    the CFG polarity, bare ``left`` -> False) else None."""
    if isinstance(expr, ast.Compare) and len(expr.ops) == 1:
        l, r = expr.left, expr.comparators[0]
        if src(r) == left and isinstance(l, ast.Constant):
            l, r = r, l
        if src(l) == left and isinstance(r, ast.Constant) and r.value == value and type(r.value) is type(value):
            if isinstance(expr.ops[0], ast.Eq):
                return True
            if isinstance(expr.ops[0], ast.NotEq):
                return False
    if value == 0 and src(expr) == left:
        return False
    return None


def guarded_eq(g: CFG, n: int, left: str, value) -> bool:
    for t, lab in g.edge_guards(n):
        k = eq_test(g.node(t).ast, left, value)
        if k is None:
            continue
        if (k and lab == "T") or ((not k) and lab == "F"):
            return True
    return False


def guarded_ne(g: CFG, n: int, left: str, value) -> bool:
    for t, lab in g.edge_guards(n):
        k = eq_test(g.node(t).ast, left, value)
        if k is None:
            continue
        if (k and lab == "F") or ((not k) and lab == "T"):
            return True
    return False


def no_exc(a, b, l):
    return l != "exc"


# ---- swallowing context managers, derived from logger/_logger.py ---------------------------------

LOGGER = "logger/_logger.py"


def _exit_always_true(ctx, cls: ast.ClassDef) -> bool:
    ex = methods(cls).get("__exit__")
    if ex is None:
        return False
    g = ctx.cfg(ex)
    rets = g.ids(lambda n: n.kind == "stmt" and isinstance(n.ast, ast.Return))
    if not rets:
        return False
    for r in rets:
        v = g.node(r).ast.value
        if not (isinstance(v, ast.Constant) and v.value is True):
            return False
    # no path falls off the end without a return
    fall = g.path([g.entry], [g.exit], avoid=set(rets), edge_ok=no_exc)
    return fall is None


def swallowing_factories(ctx) -> Set[str]:
    """Names of ``Logger`` methods that return a context manager whose ``__exit__`` returns True on
    every path (so the ``with`` body's exceptions never propagate)."""
    mod = ctx.mod(LOGGER)
    logger = ctx.cls(LOGGER, "Logger")
    out: Set[str] = set()
    for name, m in methods(logger).items():
        rets = [n for n in body_walk(m) if isinstance(n, ast.Return) and n.value is not None]
        if not rets:
            continue
        ok = True
        for r in rets:
            v = r.value
            c = mod.find(dotted(v.func) or "") if isinstance(v, ast.Call) else None
            if not (isinstance(c, ast.ClassDef) and _exit_always_true(ctx, c)):
                ok = False
        if ok:
            out.add(name)
    return out


def swallowing_names(ctx, rel: str) -> Set[str]:
    """Module-level names of ``rel`` bound to ``<Logger instance>.<swallowing factory>(...)``."""
    facts = swallowing_factories(ctx)
    mod = ctx.mod(rel)
    loggers = set()
    for st in mod.tree.body:
        if isinstance(st, ast.Assign) and isinstance(st.value, ast.Call) and dotted(st.value.func) in ("Logger", "_log.Logger", "logger.Logger"):
            loggers.update(t.id for t in st.targets if isinstance(t, ast.Name))
    out: Set[str] = set()
    for st in mod.tree.body:
        if isinstance(st, ast.Assign) and isinstance(st.value, ast.Call) and isinstance(st.value.func, ast.Attribute):
            f = st.value.func
            if f.attr in facts and isinstance(f.value, ast.Name) and f.value.id in loggers:
                out.update(t.id for t in st.targets if isinstance(t, ast.Name))
    return out


def swallowing_predicate(ctx, rel: str):
    """(names, predicate for ctx.cfg(..., swallowing=predicate)).  The predicate object is kept on
    the ctx itself so that ctx.cfg's cache key (id of the predicate) is stable within one run and
    never shared between runs (overlays differ)."""
    cache = ctx.__dict__.setdefault("_swallow_cache", {})
    if rel not in cache:
        names = swallowing_names(ctx, rel)

        def pred(e: ast.expr, names=names) -> bool:
            return isinstance(e, ast.Name) and e.id in names

        cache[rel] = (names, pred)
    return cache[rel]


def isolating_try(node: ast.AST):
    """(try statement, narrow) for the nearest enclosing ``try`` inside the nearest loop whose handlers catch the exceptions of ``node``
    without re-raising: narrow=False when a bare / BaseException handler is present, True when only narrower handlers are."""
    prev = node
    for p in parents(node):
        if isinstance(p, ast.Try) and any(prev is x or any(prev is y for y in ast.walk(x)) for x in p.body):
            if p.handlers and not any(isinstance(x, ast.Raise) for h in p.handlers for x in ast.walk(h)):
                wide = any(h.type is None or dotted(h.type) == "BaseException" or
                           (isinstance(h.type, ast.Tuple) and any(dotted(e) == "BaseException" for e in h.type.elts)) for h in p.handlers)
                return p, not wide
        if isinstance(p, (ast.For, ast.While, ast.AsyncFor) + FUNC_TYPES):
            return None, False
        prev = p
    return None, False


def isolating_with(node: ast.AST, names: Set[str]) -> Optional[ast.With]:
    """The nearest enclosing swallowing ``with`` of ``node`` that lies *inside* the nearest enclosing
    loop (i.e. one failure is confined to one iteration); None otherwise."""
    for p in parents(node):
        if isinstance(p, (ast.With, ast.AsyncWith)) and any(isinstance(i.context_expr, ast.Name) and i.context_expr.id in names for i in p.items):
            return p
        if isinstance(p, (ast.For, ast.While, ast.AsyncFor) + FUNC_TYPES):
            return None
        if isinstance(p, ast.Try):
            # a try/except catching everything and not re-raising would also isolate; not an idiom
            # used here - treat as not isolating
            continue
    return None


# ---- name-based may-mutate over a set of classes -----------------------------------------------------

def may_mutate(classes: Sequence[ast.ClassDef], start_calls: Iterable[ast.Call], attr: str,
               kinds: Optional[Set[str]] = None) -> Optional[List[str]]:
    """Can one of ``start_calls`` (resolved by method *name* among ``classes``) reach, through
    further calls resolved the same way, a mutation of ``<anything>.attr``?  Returns the call
    chain (method names ... mutation text) or None.  Calls that do not resolve to a method of
    the classes are ignored (opaque user code is the caller's concern)."""
    table: Dict[str, List[ast.AST]] = {}
    for c in classes:
        for name, m in methods(c).items():
            table.setdefault(name, []).append(m)
    seen: Set[str] = set()
    work: List[Tuple[str, List[str]]] = []
    for c in start_calls:
        a = call_attr(c)
        if a in table:
            work.append((a, [a]))
    while work:
        name, chain = work.pop(0)
        if name in seen:
            continue
        seen.add(name)
        for m in table[name]:
            for acc in accesses(m, name, {attr}, None, into_nested=False):
                if acc.kind in ("assign", "rebind-empty") and kinds is None:
                    continue  # rebinding does not disturb an iteration over the old object
                if kinds is None or acc.kind in kinds:
                    return chain + [f"{acc.kind}: {src(acc.node)}"]
            for n in body_walk(m):
                if isinstance(n, ast.Call):
                    a = call_attr(n)
                    if a in table and a not in seen:
                        work.append((a, chain + [a]))
    return None


# ---- whitelisted interpreter for loop-free arithmetic code ---------------------------------------------

class EvalUnsupported(Exception):
    """Construct outside the whitelist: the caller turns this into an AnalysisError."""


class EvalAssert(Exception):
    """An ``assert`` of the interpreted code evaluated to false."""


class _Return(Exception):
    def __init__(self, value):
        self.value = value


class Closure:
    def __init__(self, func, env):
        self.func = func
        self.env = env


class SelfRef:
    """The receiver object: attributes live in a plain dict."""

    def __init__(self, attrs: Dict[str, object]):
        self.attrs = attrs

    def __repr__(self):
        return "<self>"


_BUILTINS = {"int": int, "float": float, "abs": abs, "min": min, "max": max, "round": round, "divmod": divmod,
             "bool": bool, "math.floor": math.floor, "math.ceil": math.ceil, "math.fmod": math.fmod, "floor": math.floor,
             "ceil": math.ceil, "fmod": math.fmod, "math.trunc": math.trunc}

_BINOPS = {ast.Add: lambda a, b: a + b, ast.Sub: lambda a, b: a - b, ast.Mult: lambda a, b: a * b,
           ast.Div: lambda a, b: a / b, ast.FloorDiv: lambda a, b: a // b, ast.Mod: lambda a, b: a % b,
           ast.Pow: lambda a, b: a ** b}
_CMPOPS = {ast.Eq: lambda a, b: a == b, ast.NotEq: lambda a, b: a != b, ast.Lt: lambda a, b: a < b,
           ast.LtE: lambda a, b: a <= b, ast.Gt: lambda a, b: a > b, ast.GtE: lambda a, b: a >= b,
           ast.Is: lambda a, b: a is b, ast.IsNot: lambda a, b: a is not b}


class Interp:
    """Interprets loop-free functions made of assignments / if / assert / return over numbers,
    None, booleans and the attributes of one receiver.  Calls are resolved, in this order, to:
    ``hooks`` (dotted callee text -> Python callable supplied by the rule: the opaque world, e.g.
    the clock), nested closures, methods of the receiver's class (``self.m(...)``), a few numeric
    builtins.  Everything else raises EvalUnsupported."""

    def __init__(self, selfref: SelfRef, class_methods: Dict[str, ast.AST], hooks: Dict[str, Callable],
                 self_names: Sequence[str] = ("self",), budget: int = 4000):
        self.selfref = selfref
        self.methods = class_methods
        self.hooks = hooks
        self.self_names = set(self_names)
        self.budget = budget
        self.module_funcs: Dict[str, ast.AST] = {}   # module-level pure helper functions the interpreted code may call by bare name

    # -- functions
    def call_function(self, func: ast.AST, args: Sequence[object], outer: Optional[dict] = None, bind_self: bool = False):
        params = [a.arg for a in func.args.args]
        if func.args.vararg or func.args.kwarg or func.args.kwonlyargs or func.args.posonlyargs:
            raise EvalUnsupported("parameter kinds")
        env: Dict[str, object] = {"__outer__": outer}
        vals = list(args)
        if bind_self:
            if not params:
                raise EvalUnsupported("method without self")
            env[params[0]] = self.selfref
            params = params[1:]
        defaults = func.args.defaults
        if len(vals) > len(params) or len(vals) < len(params) - len(defaults):
            raise EvalUnsupported("arity")
        for i, p in enumerate(params):
            if i < len(vals):
                env[p] = vals[i]
            else:
                env[p] = self.expr(defaults[i - (len(params) - len(defaults))], env)
        try:
            self.block(func.body, env)
        except _Return as r:
            return r.value
        return None

    def lookup(self, name: str, env: Optional[dict]):
        e = env
        while e is not None:
            if name in e:
                return e[name]
            e = e.get("__outer__")
        if name in self.self_names:
            return self.selfref
        raise EvalUnsupported(f"unbound name {name}")

    # -- statements
    def block(self, stmts, env):
        for st in stmts:
            self.budget -= 1
            if self.budget < 0:
                raise EvalUnsupported("budget exhausted")
            self.stmt(st, env)

    def stmt(self, st, env):
        if isinstance(st, (ast.FunctionDef,)):
            env[st.name] = Closure(st, env)
        elif isinstance(st, ast.Assign):
            v = self.expr(st.value, env)
            for t in st.targets:
                self.store(t, v, env)
        elif isinstance(st, ast.AnnAssign):
            if st.value is not None:
                self.store(st.target, self.expr(st.value, env), env)
        elif isinstance(st, ast.AugAssign):
            op = _BINOPS.get(type(st.op))
            if op is None:
                raise EvalUnsupported("augassign op")
            load = ast.copy_location(ast.Name(id=st.target.id, ctx=ast.Load()), st.target) if isinstance(st.target, ast.Name) else st.target
            cur = self.expr(load, env)
            self.store(st.target, self.arith(op, cur, self.expr(st.value, env)), env)
        elif isinstance(st, ast.If):
            self.block(st.body if self.truth(self.expr(st.test, env)) else st.orelse, env)
        elif isinstance(st, ast.Assert):
            if not self.truth(self.expr(st.test, env)):
                raise EvalAssert(src(st.test))
        elif isinstance(st, ast.Return):
            raise _Return(self.expr(st.value, env) if st.value is not None else None)
        elif isinstance(st, ast.Expr):
            if isinstance(st.value, ast.Constant):
                return  # docstring
            self.expr(st.value, env)
        elif isinstance(st, ast.Pass):
            return
        else:
            raise EvalUnsupported(f"statement {type(st).__name__}")

    def store(self, t, v, env):
        if isinstance(t, ast.Name):
            env[t.id] = v
        elif isinstance(t, ast.Attribute) and isinstance(t.value, ast.Name) and self._is_self(t.value.id, env):
            self.selfref.attrs[t.attr] = v
        elif isinstance(t, (ast.Tuple, ast.List)):
            vs = list(v) if isinstance(v, (tuple, list)) else None
            if vs is None or len(vs) != len(t.elts):
                raise EvalUnsupported("unpack")
            for e, x in zip(t.elts, vs):
                self.store(e, x, env)
        else:
            raise EvalUnsupported(f"store target {src(t)}")

    def _is_self(self, name, env):
        try:
            return self.lookup(name, env) is self.selfref
        except EvalUnsupported:
            return False

    @staticmethod
    def truth(v):
        if v is None or isinstance(v, (bool, int, float)):
            return bool(v)
        if isinstance(v, (SelfRef, Closure)):
            return True
        raise EvalUnsupported("truth of opaque value")

    @staticmethod
    def arith(op, a, b):
        if not all(isinstance(x, (int, float)) and not isinstance(x, bool) for x in (a, b)):
            raise EvalUnsupported("arithmetic on non-number")
        try:
            return op(a, b)
        except (ZeroDivisionError, OverflowError, ValueError) as e:
            raise EvalUnsupported(f"arithmetic error {e}")

    # -- expressions
    def expr(self, e, env):
        self.budget -= 1
        if self.budget < 0:
            raise EvalUnsupported("budget exhausted")
        if isinstance(e, ast.Constant):
            if e.value is None or isinstance(e.value, (bool, int, float, str)):
                return e.value
            raise EvalUnsupported("constant kind")
        if isinstance(e, ast.Name):
            return self.lookup(e.id, env)
        if isinstance(e, ast.Attribute):
            base = self.expr(e.value, env)
            if base is self.selfref:
                if e.attr not in self.selfref.attrs:
                    raise EvalUnsupported(f"receiver attribute {e.attr} not modelled")
                return self.selfref.attrs[e.attr]
            raise EvalUnsupported(f"attribute {src(e)}")
        if isinstance(e, ast.BinOp):
            op = _BINOPS.get(type(e.op))
            if op is None:
                raise EvalUnsupported("binop")
            return self.arith(op, self.expr(e.left, env), self.expr(e.right, env))
        if isinstance(e, ast.UnaryOp):
            v = self.expr(e.operand, env)
            if isinstance(e.op, ast.Not):
                return not self.truth(v)
            if isinstance(e.op, ast.USub) and isinstance(v, (int, float)):
                return -v
            if isinstance(e.op, ast.UAdd) and isinstance(v, (int, float)):
                return +v
            raise EvalUnsupported("unary")
        if isinstance(e, ast.BoolOp):
            v = None
            for sub in e.values:
                v = self.expr(sub, env)
                t = self.truth(v)
                if isinstance(e.op, ast.And) and not t:
                    return v
                if isinstance(e.op, ast.Or) and t:
                    return v
            return v
        if isinstance(e, ast.IfExp):
            return self.expr(e.body if self.truth(self.expr(e.test, env)) else e.orelse, env)
        if isinstance(e, ast.Compare):
            left = self.expr(e.left, env)
            for op, right in zip(e.ops, e.comparators):
                r = self.expr(right, env)
                f = _CMPOPS.get(type(op))
                if f is None:
                    raise EvalUnsupported("compare op")
                if type(op) in (ast.Lt, ast.LtE, ast.Gt, ast.GtE) and not all(isinstance(x, (int, float)) for x in (left, r)):
                    raise EvalUnsupported("ordering of non-numbers")
                if not f(left, r):
                    return False
                left = r
            return True
        if isinstance(e, ast.Tuple):
            return tuple(self.expr(x, env) for x in e.elts)
        if isinstance(e, ast.Call):
            return self.call(e, env)
        raise EvalUnsupported(f"expression {type(e).__name__}")

    def call(self, e: ast.Call, env):
        name = dotted(e.func)
        if any(isinstance(a, ast.Starred) for a in e.args) or any(k.arg is None for k in e.keywords):
            raise EvalUnsupported("star-args")
        # normalise the receiver spelling: a local alias of the receiver reads as "self"
        if name and "." in name:
            head, rest = name.split(".", 1)
            if self._is_self(head, env):
                name = "self." + rest
        if name in ("cast", "typing.cast") and len(e.args) == 2 and not e.keywords:
            return self.expr(e.args[1], env)
        args = [self.expr(a, env) for a in e.args]
        kwargs = {k.arg: self.expr(k.value, env) for k in e.keywords}
        if name in self.hooks:
            return self.hooks[name](*args, **kwargs)
        if isinstance(e.func, ast.Name):
            try:
                target = self.lookup(e.func.id, env)
            except EvalUnsupported:
                target = None
            if isinstance(target, Closure):
                if kwargs:
                    raise EvalUnsupported("kwargs to closure")
                return self.call_function(target.func, args, outer=target.env)
        if name and name.startswith("self.") and name.count(".") == 1 and name[5:] in self.methods:
            if kwargs:
                raise EvalUnsupported("kwargs to method")
            return self.call_function(self.methods[name[5:]], args, outer=None, bind_self=True)
        if isinstance(e.func, ast.Name) and e.func.id in self.module_funcs and not kwargs:
            shadow = None
            try:
                shadow = self.lookup(e.func.id, env)
            except EvalUnsupported:
                pass
            if shadow is None:
                return self.call_function(self.module_funcs[e.func.id], args, outer=None)
        if name in _BUILTINS and not kwargs:
            if not all(isinstance(a, (int, float)) for a in args):
                raise EvalUnsupported("builtin on non-number")
            try:
                return _BUILTINS[name](*args)
            except Exception as ex:
                raise EvalUnsupported(f"builtin error {ex}")
        raise EvalUnsupported(f"call {name or src(e.func)}")


# ---- normalised view of a class: private helpers inlined, pure temporaries substituted ----------------------
#
# Rules are written against one canonical shape of each anchored method.  Maintainers' clean-ups move code
# into private helpers and name intermediate values; ``norm_class`` undoes both on a *copy* of the class so
# that every rule judges the same meaning regardless of those spellings:
#   * a private, non-generator method that is not itself an anchor (``keep``) and is only ever *called* as
#     ``self._h(args)`` from statement positions is inlined at its call sites (continuation-passing: the
#     calling statement is placed at each ``return`` of the helper, guard clauses become if/else);
#   * a local that is assigned once and only names a value (``x = E``) is replaced by E where that provably
#     cannot change what is computed (E pure and nothing E reads is written / no call runs in between; or E
#     arbitrary but used exactly once by the directly following statement, temporaries in evaluation order).

import copy as _copy

_PURE_CALLS = {"isinstance", "len", "getattr"}


def clone(n):
    if isinstance(n, ast.AST):
        new = n.__class__()
        for f in n._fields:
            if hasattr(n, f):
                setattr(new, f, clone(getattr(n, f)))
        for a in n._attributes:
            if hasattr(n, a):
                setattr(new, a, getattr(n, a))
        return new
    if isinstance(n, list):
        return [clone(x) for x in n]
    return n


def set_parents(root: ast.AST, parent=None):
    root._parent = parent  # type: ignore[attr-defined]
    for p in ast.walk(root):
        for ch in ast.iter_child_nodes(p):
            ch._parent = p  # type: ignore[attr-defined]


class _NotInlinable(Exception):
    pass


def _own_nodes(func):
    """Nodes of a function body not inside nested scopes (the nested def/lambda node itself included)."""
    for st in func.body:
        yield from walk_local_stmt_(st)


def walk_local_stmt_(st):
    stack = [st]
    while stack:
        n = stack.pop()
        yield n
        if isinstance(n, FUNC_TYPES + (ast.ClassDef,)) and n is not st:
            continue
        if isinstance(n, FUNC_TYPES + (ast.ClassDef,)) and n is st:
            continue
        stack.extend(reversed(list(ast.iter_child_nodes(n))))


def _is_generator(func) -> bool:
    return any(isinstance(n, (ast.Yield, ast.YieldFrom)) for n in _own_nodes(func))


def _contains_return(st) -> bool:
    return any(isinstance(n, ast.Return) for n in walk_local_stmt_(st)) if not isinstance(st, ast.Return) else True


def _always_exits(block) -> bool:
    """Every path through the block ends in return / raise (conservative)."""
    for st in block:
        if isinstance(st, (ast.Return, ast.Raise)):
            return True
        if isinstance(st, ast.If) and st.orelse and _always_exits(st.body) and _always_exits(st.orelse):
            return True
        if isinstance(st, ast.Try) and not st.finalbody and st.handlers and _always_exits(st.body + st.orelse) and all(_always_exits(h.body) for h in st.handlers):
            return True
        if isinstance(st, (ast.With, ast.AsyncWith)) and False:
            return True
    return False


def _seq(stmts, k, simple_k=False):
    """Return-free version of a statement list; ``k(E)`` yields (fresh) continuation statements for
    ``return E`` (E may be None) and for falling off the end.  ``simple_k``: the continuation only binds / discards / returns the value
    (it cannot raise by itself), so it may be placed inside a ``try`` of the helper."""
    out = []
    for i, st in enumerate(stmts):
        rest = stmts[i + 1:]
        if isinstance(st, ast.Return):
            return out + k(st.value)
        if isinstance(st, ast.Raise):
            return out + [st]
        if isinstance(st, ast.If) and _contains_return(st):
            b_exit, o_exit = _always_exits(st.body), _always_exits(st.orelse)
            body = _seq(st.body + ([] if b_exit else clone(rest)), k, simple_k)
            orelse = _seq(st.orelse + ([] if o_exit else clone(rest)), k, simple_k)
            new = ast.If(test=st.test, body=body or [ast.Pass()], orelse=orelse)
            ast.copy_location(new, st)
            return out + [new]
        if isinstance(st, (ast.With, ast.AsyncWith)) and _always_exits(st.body) and not any(
                isinstance(x, (ast.For, ast.While, ast.Try, ast.With)) and _contains_return(x) for b in st.body for x in ast.walk(b)):
            # `with cm: ...; return E` followed by R: the statements after the with only run when cm swallowed an exception.  When R merely
            # produces the fallback value (plain assignments of constants / names through the continuation), "R first, then the with body
            # overriding it" computes the same thing: this is the `x = default; with cm: x = E` idiom.
            fallback = _seq(clone(rest), k, simple_k)
            def plain(s_):
                return isinstance(s_, ast.Pass) or (isinstance(s_, (ast.Assign, ast.AnnAssign)) and isinstance(getattr(s_, "value", None), (ast.Constant, ast.Name))
                                                    and all(isinstance(t, ast.Name) for t in (s_.targets if isinstance(s_, ast.Assign) else [s_.target])))
            if not all(plain(s_) for s_ in fallback):
                raise _NotInlinable("code after a returning with-block has effects")
            new = st.__class__(items=st.items, body=_seq(st.body, k, simple_k) or [ast.Pass()])
            ast.copy_location(new, st)
            return out + fallback + [new]
        if isinstance(st, ast.Try) and simple_k and not st.finalbody and _always_exits([st]) and not any(
                isinstance(x, (ast.For, ast.While, ast.With)) and _contains_return(x) for x in ast.walk(st) if x is not st):
            # try: ... return E / except X: ...; return F  - every path leaves through a return (or raise): the value-binding continuation
            # replaces each return in place, the statements after the try are dead
            new = ast.Try(body=_seq(st.body + st.orelse, k, simple_k) or [ast.Pass()],
                          handlers=[ast.copy_location(ast.ExceptHandler(type=h.type, name=h.name, body=_seq(h.body, k, simple_k) or [ast.Pass()]), h) for h in st.handlers],
                          orelse=[], finalbody=[])
            ast.copy_location(new, st)
            return out + [new]
        if _contains_return(st):
            raise _NotInlinable("return inside loop/try/with")
        out.append(st)
    return out + k(None)


class _Subst(ast.NodeTransformer):
    def __init__(self, mapping):
        self.mapping = mapping

    def visit_Name(self, node):
        if node.id in self.mapping and isinstance(node.ctx, ast.Load):
            return clone(self.mapping[node.id])
        return node


class _ReplaceNode(ast.NodeTransformer):
    def __init__(self, target, repl):
        self.target, self.repl = target, repl

    def generic_visit(self, node):
        if node is self.target:
            return self.repl
        return super().generic_visit(node)

    def visit(self, node):
        if node is self.target:
            return self.repl
        return super().visit(node)


def _simple_arg(e) -> bool:
    if isinstance(e, (ast.Name, ast.Constant)):
        return True
    if isinstance(e, ast.Attribute):
        return _simple_arg(e.value)
    return False


def _assigned_names(func) -> Set[str]:
    out = set()
    for n in ast.walk(func):
        if isinstance(n, ast.Name) and isinstance(n.ctx, (ast.Store, ast.Del)):
            out.add(n.id)
        elif isinstance(n, (ast.FunctionDef, ast.AsyncFunctionDef)) and n is not func:
            out.add(n.name)
            out.update(a.arg for a in n.args.args)
        elif isinstance(n, ast.Lambda):
            out.update(a.arg for a in n.args.args)
        elif isinstance(n, ast.ExceptHandler) and n.name:
            out.add(n.name)
    return out


def _helper_call(e, helpers) -> Optional[str]:
    if isinstance(e, ast.Call) and isinstance(e.func, ast.Attribute) and isinstance(e.func.value, ast.Name) and e.func.value.id == "self" \
            and e.func.attr in helpers and not e.keywords and not any(isinstance(a, ast.Starred) for a in e.args):
        return e.func.attr
    return None


def _inline_if_test(st, helpers, caller_names, counter):
    """``if self._h(args): A else: B`` (or ``if not self._h(args)``) with a helper that answers a question: the helper's body is
    inlined with every ``return E`` replaced by the branch E selects (both branches under ``if E`` when E is not a constant)."""
    test, neg = st.test, False
    if isinstance(test, ast.UnaryOp) and isinstance(test.op, ast.Not):
        test, neg = test.operand, True
    if not _helper_call(test, helpers):
        return None
    fake = ast.copy_location(ast.Expr(value=test), st)
    body, orelse = (st.orelse, st.body) if neg else (st.body, st.orelse)

    def k(E):
        if E is None or (isinstance(E, ast.Constant) and not E.value):
            return clone(orelse)
        if isinstance(E, ast.Constant) and E.value:
            return clone(body)
        return [ast.copy_location(ast.If(test=E, body=clone(body) or [ast.Pass()], orelse=clone(orelse)), st)]
    return _inline_call(fake, test, helpers, caller_names, counter, k, simple_k=False)


def _inline_stmt(st, helpers, caller_names, counter):
    """If the simple statement ``st`` contains exactly one inlinable helper call in a position that is
    evaluated before any other call of the statement, return the replacement statement list, else None."""
    if isinstance(st, ast.If):
        return _inline_if_test(st, helpers, caller_names, counter)
    if not isinstance(st, (ast.Expr, ast.Assign, ast.AnnAssign, ast.AugAssign, ast.Return)):
        return None
    calls = [n for n in walk_local_stmt_(st) if _helper_call(n, helpers)]
    calls = [c for c in calls if not any(isinstance(p, FUNC_TYPES) for p in _ancestors_within(st, c))]
    if len(calls) != 1:
        return None
    K = calls[0]
    h = helpers[K.func.attr]
    anc = _ancestors_within(st, K)
    for n in walk_local_stmt_(st):
        if isinstance(n, ast.Call) and n is not K and n not in anc and not any(x is n for x in ast.walk(K)):
            # another call in the statement that is not an ancestor of K: only allowed in argument positions of
            # ancestors (evaluated after K)
            ok = False
            for a in anc:
                if isinstance(a, ast.Call) and any(any(y is n for y in ast.walk(arg)) for arg in list(a.args) + [kw.value for kw in a.keywords]):
                    ok = True
            if isinstance(st, (ast.Assign, ast.AnnAssign)) and any(y is n for t in (st.targets if isinstance(st, ast.Assign) else [st.target]) for y in ast.walk(t)):
                ok = True
            if not ok:
                return None
    def k(E):
        if isinstance(st, ast.Expr) and st.value is K:
            if E is not None and any(isinstance(x, ast.Call) for x in ast.walk(E)):
                return [ast.copy_location(ast.Expr(value=E), st)]
            return []
        s2 = clone_except(st, K, E if E is not None else ast.Constant(value=None))
        return [s2]
    simple_k = (isinstance(st, ast.Expr) and st.value is K) or (isinstance(st, ast.Return) and st.value is K) or \
        (isinstance(st, ast.Assign) and st.value is K and len(st.targets) == 1 and isinstance(st.targets[0], ast.Name)) or \
        (isinstance(st, ast.AnnAssign) and st.value is K and isinstance(st.target, ast.Name))
    return _inline_call(st, K, helpers, caller_names, counter, k, simple_k)


def _inline_call(st, K, helpers, caller_names, counter, k, simple_k):
    """Body of the helper called by ``K`` with parameters substituted and returns replaced through ``k``; None when not inlinable."""
    h = helpers[K.func.attr]
    params = [a.arg for a in h.args.args]
    static = any(dotted(d) == "staticmethod" for d in h.decorator_list)
    if not static:
        if not params:
            return None
        params = params[1:]
    if h.args.vararg or h.args.kwarg or h.args.kwonlyargs or h.args.posonlyargs or h.args.defaults or len(K.args) != len(params):
        return None
    hbody = clone([s for s in h.body if not (isinstance(s, ast.Expr) and isinstance(s.value, ast.Constant) and isinstance(s.value.value, str))])
    tmp = ast.Module(body=hbody, type_ignores=[])
    assigned = _assigned_names(tmp)
    # nested scopes of the helper must not shadow a parameter
    mapping, prologue = {}, []
    for p, a in zip(params, K.args):
        if _simple_arg(a) and p not in {n.id for n in ast.walk(tmp) if isinstance(n, ast.Name) and isinstance(n.ctx, (ast.Store, ast.Del))}:
            mapping[p] = a
        else:
            prologue.append(ast.copy_location(ast.Assign(targets=[ast.Name(id=p, ctx=ast.Store())], value=clone(a), lineno=st.lineno), st))
    for n in ast.walk(tmp):
        if isinstance(n, (ast.FunctionDef, ast.AsyncFunctionDef, ast.Lambda)) and any(a.arg in mapping for a in n.args.args):
            return None
    # locals of the helper that collide with names of the caller are renamed
    collide = {n for n in assigned if n in caller_names and n not in mapping}
    if collide:
        counter[0] += 1
        ren = {n: f"{n}_{K.func.attr.strip('_')}{counter[0]}" for n in collide}
        for n in ast.walk(tmp):
            if isinstance(n, ast.Name) and n.id in ren:
                n.id = ren[n.id]
            elif isinstance(n, (ast.FunctionDef, ast.AsyncFunctionDef)) and n.name in ren:
                n.name = ren[n.name]
    tmp = _Subst(mapping).visit(tmp)
    try:
        body = _seq(tmp.body, k, simple_k)
    except _NotInlinable:
        return None
    out = prologue + body
    for s in out:
        ast.fix_missing_locations(s) if hasattr(s, "lineno") else None
    return out or [ast.copy_location(ast.Pass(), st)]


def clone_except(root, target, repl):
    """Clone ``root`` replacing the sub-node ``target`` (by identity) with ``repl``."""
    def rec(n):
        if n is target:
            return clone(repl)
        if isinstance(n, ast.AST):
            new = n.__class__()
            for f in n._fields:
                if hasattr(n, f):
                    setattr(new, f, rec(getattr(n, f)))
            for a in n._attributes:
                if hasattr(n, a):
                    setattr(new, a, getattr(n, a))
            return new
        if isinstance(n, list):
            return [rec(x) for x in n]
        return n
    return rec(root)


def _ancestors_within(root, node):
    """Ancestors of ``node`` inside ``root`` (root included), innermost first; [] if not found."""
    path = []

    def rec(n, trail):
        if n is node:
            path.extend(reversed(trail))
            return True
        for ch in ast.iter_child_nodes(n):
            if rec(ch, trail + [n]):
                return True
        return False
    rec(root, [])
    return path


def _inline_block(stmts, helpers, caller_names, counter):
    changed = False
    out = []
    for st in stmts:
        rep = _inline_stmt(st, helpers, caller_names, counter) if helpers else None
        if rep is not None:
            out.extend(rep)
            changed = True
            continue
        for fld in ("body", "orelse", "finalbody"):
            blk = getattr(st, fld, None)
            if isinstance(blk, list) and blk and isinstance(blk[0], ast.stmt):
                nb, ch = _inline_block(blk, helpers, caller_names, counter)
                if ch:
                    setattr(st, fld, nb)
                    changed = True
        for hd in getattr(st, "handlers", []) or []:
            nb, ch = _inline_block(hd.body, helpers, caller_names, counter)
            if ch:
                hd.body = nb
                changed = True
        out.append(st)
    return out, changed


# ---- temporaries -----------------------------------------------------------------------------------------------

def _is_pure(e, bound=()) -> bool:
    for n in ast.walk(e):
        if isinstance(n, ast.Call):
            if dotted(n.func) not in _PURE_CALLS or dotted(n.func) in bound:
                return False
        elif isinstance(n, (ast.Lambda, ast.Await, ast.Yield, ast.YieldFrom, ast.NamedExpr, ast.ListComp, ast.SetComp, ast.DictComp, ast.GeneratorExp,
                            ast.List, ast.Dict, ast.Set)):
            return False
    return True


def _reads(e):
    attrs, names = set(), set()
    for n in ast.walk(e):
        if isinstance(n, ast.Attribute):
            attrs.add(n.attr)
        elif isinstance(n, ast.Name):
            names.add(n.id)
    return attrs, names


def _header_exprs(st):
    if isinstance(st, (ast.If, ast.While)):
        return [st.test]
    if isinstance(st, (ast.For, ast.AsyncFor)):
        return [st.iter]
    if isinstance(st, (ast.With, ast.AsyncWith)):
        return [i.context_expr for i in st.items]
    if isinstance(st, (ast.Expr, ast.Assign, ast.AnnAssign, ast.AugAssign, ast.Return, ast.Raise, ast.Assert, ast.Delete)):
        return [st]
    return []


def _evaluated_first(headers, use, run_names) -> bool:
    """The Name ``use`` inside one of the header expressions is evaluated unconditionally (not in a short-circuited operand, a
    conditional-expression branch, a comprehension or a lambda) and no call outside the temporaries of the same run is evaluated before it."""
    for h in headers:
        anc = _ancestors_within(h, use)
        if not anc and h is not use:
            continue
        child = use
        for a in anc:
            if isinstance(a, ast.BoolOp) and a.values[0] is not child:
                return False
            if isinstance(a, ast.IfExp) and a.test is not child:
                return False
            if isinstance(a, ast.Compare) and not (a.left is child or (a.comparators and a.comparators[0] is child)):
                return False
            if isinstance(a, (ast.Lambda, ast.ListComp, ast.SetComp, ast.DictComp, ast.GeneratorExp)):
                return False
            child = a
        # calls evaluated before the use: those that precede it in evaluation order and are not its ancestors
        before = []
        for n in (walk_local_stmt_(h) if isinstance(h, ast.stmt) else walk_local(h)):
            if n is use:
                break
            before.append(n)
        for n in before:
            if isinstance(n, ast.Call) and n not in anc and dotted(n.func) not in _PURE_CALLS:
                return False
            if isinstance(n, ast.Name) and n.id in run_names and n is not use:
                continue
        return True
    return False


def _subst_temps(func) -> bool:
    """One round of temporary elimination on ``func`` (own statements only); True when something changed."""
    own = list(_own_nodes(func))
    params = {a.arg for a in func.args.args} | ({func.args.vararg.arg} if func.args.vararg else set()) | ({func.args.kwarg.arg} if func.args.kwarg else set())
    stores: Dict[str, int] = {}
    for n in own:
        if isinstance(n, ast.Name) and isinstance(n.ctx, (ast.Store, ast.Del)):
            stores[n.id] = stores.get(n.id, 0) + 1
        elif isinstance(n, (ast.FunctionDef, ast.AsyncFunctionDef)):
            stores[n.name] = stores.get(n.name, 0) + 2
        elif isinstance(n, ast.ExceptHandler) and n.name:
            stores[n.name] = stores.get(n.name, 0) + 2
        elif isinstance(n, (ast.Global, ast.Nonlocal)):
            for nm in n.names:
                stores[nm] = stores.get(nm, 0) + 2
    nested_uses = set()
    for n in own:
        if isinstance(n, FUNC_TYPES):
            nested_uses.update(x.id for x in ast.walk(n) if isinstance(x, ast.Name))
    order = {id(n): i for i, n in enumerate(own)}

    def defs_in(block):
        for i, st in enumerate(block):
            tgt = val = None
            if isinstance(st, ast.Assign) and len(st.targets) == 1 and isinstance(st.targets[0], ast.Name):
                tgt, val = st.targets[0].id, st.value
            elif isinstance(st, ast.AnnAssign) and isinstance(st.target, ast.Name) and st.value is not None:
                tgt, val = st.target.id, st.value
            if tgt and stores.get(tgt) == 1 and tgt not in params and tgt not in nested_uses:
                yield i, st, tgt, val

    def blocks(node):
        for fld in ("body", "orelse", "finalbody"):
            blk = getattr(node, fld, None)
            if isinstance(blk, list) and blk and isinstance(blk[0], ast.stmt):
                yield blk
                for st in blk:
                    if not isinstance(st, FUNC_TYPES + (ast.ClassDef,)):
                        yield from blocks(st)
        for hd in getattr(node, "handlers", []) or []:
            yield hd.body
            for st in hd.body:
                if not isinstance(st, FUNC_TYPES + (ast.ClassDef,)):
                    yield from blocks(st)

    for blk in blocks(func):
        for i, st, tgt, val in list(defs_in(blk)):
            uses = [n for n in own if isinstance(n, ast.Name) and n.id == tgt and isinstance(n.ctx, ast.Load)]
            if not uses:
                continue
            # (1) adjacent run: T1 = E1; ...; Tn = En; S   with each Ti used exactly once, in S's header, in order
            j = i + 1
            run = [(st, tgt, val)]
            while j < len(blk):
                nxt = next(((s2, t2, v2) for (i2, s2, t2, v2) in defs_in(blk) if i2 == j), None)
                if nxt is None:
                    break
                run.append(nxt)
                j += 1
            if j < len(blk):
                S = blk[j]
                hdr = _header_exprs(S)
                hdr_nodes = [n for h in hdr for n in (walk_local_stmt_(h) if isinstance(h, ast.stmt) else walk_local(h))]
                ok = bool(hdr)
                pos = []
                for (s_, t_, v_) in run:
                    us = [n for n in own if isinstance(n, ast.Name) and n.id == t_ and isinstance(n.ctx, ast.Load)]
                    inh = [n for n in hdr_nodes if isinstance(n, ast.Name) and n.id == t_ and isinstance(n.ctx, ast.Load)]
                    if len(us) != 1 or len(inh) != 1 or us[0] is not inh[0]:
                        ok = False
                        break
                    if not _is_pure(v_, set(stores) | params) and not _evaluated_first(hdr, us[0], {t2 for (_, t2, _) in run}):
                        ok = False   # a value with effects may only move to a place that is evaluated unconditionally and before any other call
                        break
                    pos.append(order.get(id(us[0]), -1))
                if ok and pos == sorted(pos):
                    # a constructor / call result must not be moved past another call of S evaluated before its use:
                    # accept only when S evaluates nothing with effects before the first use (receiver chains are reads)
                    for (s_, t_, v_) in run:
                        _replace_name(S, t_, v_)
                        blk.remove(s_)
                    return True
            # (2) pure expression, any number of uses: nothing E reads is written and no call runs between def and each use
            if not _is_pure(val, set(stores) | params):
                continue
            attrs, names = _reads(val)
            d_end = max(order[id(n)] for n in walk_local_stmt_(st))
            good = True
            for u in uses:
                ui = order.get(id(u))
                if ui is None or ui < d_end:
                    good = False
                    break
                between = [n for n in own if d_end < order[id(n)] < ui]
                # a use inside a loop that does not contain the definition sees the whole loop body as "between"
                for anc in _ancestors_within(func, u):
                    if isinstance(anc, (ast.For, ast.While, ast.AsyncFor)) and not any(x is st for x in ast.walk(anc)):
                        between += [n for n in walk_local_stmt_(anc)]
                in_assert = set()
                for n in between:
                    if isinstance(n, ast.Assert):
                        in_assert.update(id(x) for x in ast.walk(n))
                for n in between:
                    if isinstance(n, ast.Call) and dotted(n.func) not in _PURE_CALLS and id(n) not in in_assert:
                        # the call that *contains* the use as receiver/argument is evaluated after the use
                        if any(x is u for x in ast.walk(n)):
                            continue
                        good = False
                    elif isinstance(n, ast.Attribute) and isinstance(n.ctx, (ast.Store, ast.Del)) and n.attr in attrs:
                        good = False
                    elif isinstance(n, ast.Name) and isinstance(n.ctx, (ast.Store, ast.Del)) and n.id in names:
                        good = False
                    elif isinstance(n, (ast.Yield, ast.YieldFrom, ast.Await)):
                        good = False
                if not good:
                    break
            if good:
                for blk2 in [func]:
                    _replace_name(func, tgt, val, own_only=True)
                blk.remove(st)
                if not blk:
                    blk.append(ast.copy_location(ast.Pass(), st))
                return True
    return False


def _replace_name(root, name, expr, own_only=False):
    class R(ast.NodeTransformer):
        def visit_FunctionDef(self, node):
            return node if (own_only and node is not root) else self.generic_visit(node)
        visit_AsyncFunctionDef = visit_FunctionDef

        def visit_Lambda(self, node):
            return node if own_only else self.generic_visit(node)

        def visit_Name(self, node):
            if node.id == name and isinstance(node.ctx, ast.Load):
                return clone(expr)
            return node
    R().visit(root)


# ---- generators -> drivers -------------------------------------------------------------------------------------------

def _gen_call(e, gens):
    if isinstance(e, ast.Call) and isinstance(e.func, ast.Attribute) and isinstance(e.func.value, ast.Name) and e.func.value.id == "self" \
            and e.func.attr in gens and not e.keywords and not any(isinstance(a, ast.Starred) for a in e.args):
        return e.func.attr
    return None


def _unfold_comprehensions(block, gens):
    """``X = [E for v in self._gen(...) if C]``  ->  ``X = []; for v in self._gen(...): if C: X.append(E)`` (same evaluation order; the
    comprehension's variable becomes a local, which is only done when that name is not otherwise used in the block's function)."""
    changed = False
    out = []
    for st in block:
        tgt = val = None
        if isinstance(st, ast.Assign) and len(st.targets) == 1 and isinstance(st.targets[0], ast.Name):
            tgt, val = st.targets[0], st.value
        elif isinstance(st, ast.AnnAssign) and isinstance(st.target, ast.Name) and st.value is not None:
            tgt, val = st.target, st.value
        if tgt is not None and isinstance(val, ast.ListComp) and len(val.generators) == 1 and not val.generators[0].is_async \
                and _gen_call(val.generators[0].iter, gens) and isinstance(val.generators[0].target, ast.Name):
            gen = val.generators[0]
            init = ast.copy_location(ast.Assign(targets=[ast.Name(id=tgt.id, ctx=ast.Store())], value=ast.List(elts=[], ctx=ast.Load())), st)
            app = ast.copy_location(ast.Expr(value=ast.Call(func=ast.Attribute(value=ast.Name(id=tgt.id, ctx=ast.Load()), attr="append", ctx=ast.Load()),
                                                            args=[val.elt], keywords=[])), st)
            body = [app]
            for c in reversed(gen.ifs):
                body = [ast.copy_location(ast.If(test=c, body=body, orelse=[]), st)]
            loop = ast.copy_location(ast.For(target=gen.target, iter=gen.iter, body=body, orelse=[]), st)
            out += [init, loop]
            changed = True
            continue
        for fld in ("body", "orelse", "finalbody"):
            blk = getattr(st, fld, None)
            if isinstance(blk, list) and blk and isinstance(blk[0], ast.stmt) and not isinstance(st, FUNC_TYPES + (ast.ClassDef,)):
                nb, ch = _unfold_comprehensions(blk, gens)
                if ch:
                    setattr(st, fld, nb)
                    changed = True
        out.append(st)
    return out, changed


def _drive_generators(block, gens, caller_names, counter):
    """``for v in self._gen(args): BODY`` with a private generator method -> the generator's body with every ``yield E`` replaced by
    ``v = E; BODY`` (the consumer runs between the yields exactly as before).  Only when this is exact: the generator never returns, every
    yield is a statement outside try/with, BODY neither breaks out of nor `continue`s the consumer loop, no for-else."""
    changed = False
    out = []
    for st in block:
        name = _gen_call(st.iter, gens) if isinstance(st, ast.For) else None
        if name and not st.orelse and isinstance(st.target, (ast.Name, ast.Tuple)):
            gfn = gens[name]
            def loop_exits(b):
                for x in b:
                    if isinstance(x, (ast.Break, ast.Continue)):
                        return True
                    if isinstance(x, (ast.For, ast.While, ast.AsyncFor) + FUNC_TYPES + (ast.ClassDef,)):
                        continue
                    for fld in ("body", "orelse", "finalbody"):
                        if loop_exits(getattr(x, fld, []) or []):
                            return True
                    if any(loop_exits(h.body) for h in getattr(x, "handlers", []) or []):
                        return True
                return False
            yields = [n for n in _own_nodes(gfn) if isinstance(n, (ast.Yield, ast.YieldFrom))]
            stmt_yields = [n for n in _own_nodes(gfn) if isinstance(n, ast.Expr) and isinstance(n.value, ast.Yield)]
            guarded = any(isinstance(a, (ast.Try, ast.With, ast.AsyncWith)) for y in stmt_yields for a in _ancestors_within(gfn, y))
            params = [a.arg for a in gfn.args.args][1:]
            ok = (len(yields) == len(stmt_yields) and yields and not guarded and not any(isinstance(n, ast.Return) for n in _own_nodes(gfn))
                  and not loop_exits(st.body) and len(st.iter.args) == len(params) and all(_simple_arg(a) for a in st.iter.args)
                  and not (gfn.args.vararg or gfn.args.kwarg or gfn.args.kwonlyargs or gfn.args.defaults))
            if ok:
                gbody = clone([s_ for s_ in gfn.body if not (isinstance(s_, ast.Expr) and isinstance(s_.value, ast.Constant) and isinstance(s_.value.value, str))])
                tmp = ast.Module(body=gbody, type_ignores=[])
                assigned = _assigned_names(tmp)
                if any(p_ in {n.id for n in ast.walk(tmp) if isinstance(n, ast.Name) and isinstance(n.ctx, (ast.Store, ast.Del))} for p_ in params):
                    ok = False
            if ok:
                consumer_names = {n.id for n in ast.walk(st) if isinstance(n, ast.Name)} | set(caller_names)
                collide = {n for n in assigned if n in consumer_names}
                if collide:
                    counter[0] += 1
                    ren = {n: f"{n}_{name.strip('_')}{counter[0]}" for n in collide}
                    for n in ast.walk(tmp):
                        if isinstance(n, ast.Name) and n.id in ren:
                            n.id = ren[n.id]
                tmp = _Subst(dict(zip(params, st.iter.args))).visit(tmp)

                class _Y(ast.NodeTransformer):
                    def visit_FunctionDef(self, node):
                        return node
                    visit_AsyncFunctionDef = visit_Lambda = visit_FunctionDef

                    def visit_Expr(self, node):
                        if isinstance(node.value, ast.Yield):
                            val = node.value.value if node.value.value is not None else ast.Constant(value=None)
                            bind = ast.copy_location(ast.Assign(targets=[clone(st.target)], value=val), node)
                            for t_ in ast.walk(bind.targets[0]):
                                if isinstance(t_, ast.Name):
                                    t_.ctx = ast.Store()
                            return [bind] + clone(st.body)
                        return node
                tmp = _Y().visit(tmp)
                for s_ in tmp.body:
                    ast.fix_missing_locations(s_)
                out += tmp.body
                changed = True
                continue
        for fld in ("body", "orelse", "finalbody"):
            blk = getattr(st, fld, None)
            if isinstance(blk, list) and blk and isinstance(blk[0], ast.stmt) and not isinstance(st, FUNC_TYPES + (ast.ClassDef,)):
                nb, ch = _drive_generators(blk, gens, caller_names, counter)
                if ch:
                    setattr(st, fld, nb)
                    changed = True
        for hd in getattr(st, "handlers", []) or []:
            nb, ch = _drive_generators(hd.body, gens, caller_names, counter)
            if ch:
                hd.body = nb
                changed = True
        out.append(st)
    return out, changed


def _class_functions(cls: ast.ClassDef):
    """(container list, function) for every def directly owned by the class (through if/try blocks)."""
    out = []

    def rec(blk):
        for st in blk:
            if isinstance(st, (ast.FunctionDef, ast.AsyncFunctionDef)):
                out.append((blk, st))
            elif isinstance(st, (ast.If, ast.Try)):
                rec(st.body)
                rec(getattr(st, "orelse", []) or [])
                rec(getattr(st, "finalbody", []) or [])
                for h in getattr(st, "handlers", []) or []:
                    rec(h.body)
    rec(cls.body)
    return out


def norm_class(ctx, rel: str, clsname: str, keep: Iterable[str] = ()) -> ast.ClassDef:
    """Normalised copy of a class (see the comment block above); cached per ctx.  ``keep``: anchor methods
    that are never inlined away.  ``result._inlined`` lists the helpers that were dissolved."""
    cache = ctx.__dict__.setdefault("_norm_cache", {})
    key = (rel, clsname)
    if key in cache:
        return cache[key]
    orig = ctx.cls(rel, clsname)
    mod = ctx.mod(rel)
    cls = clone(orig)
    keep = set(keep)
    counter = [0]
    # a private read-only property that merely names a pure test of the instance (`return self._x is not None`) is replaced by that test
    for blk, f in list(_class_functions(cls)):
        body = [st for st in f.body if not (isinstance(st, ast.Expr) and isinstance(st.value, ast.Constant) and isinstance(st.value.value, str))]
        if (f.name not in keep and f.name.startswith("_") and not f.name.startswith("__") and len(f.decorator_list) == 1 and dotted(f.decorator_list[0]) == "property"
                and len(f.args.args) == 1 and len(body) == 1 and isinstance(body[0], ast.Return) and body[0].value is not None and _is_pure(body[0].value)
                and not any(isinstance(x, ast.Name) and x.id != f.args.args[0].arg for x in ast.walk(body[0].value) if isinstance(x, ast.Name) and x.id not in ("None", "True", "False"))
                and sum(1 for _, g_ in _class_functions(cls) if g_.name == f.name) == 1
                and not any(isinstance(c_, ast.ClassDef) and c_ is not orig and any(dotted(b_) == clsname for b_ in c_.bases) for c_ in ast.walk(mod.tree))):
            me = f.args.args[0].arg
            stores = [n for n in ast.walk(mod.tree) if isinstance(n, ast.Attribute) and n.attr == f.name and not isinstance(n.ctx, ast.Load)]
            outside = [n for n in ast.walk(mod.tree) if isinstance(n, ast.Attribute) and n.attr == f.name and mod.qualname(n).split(".")[0] != clsname]
            if stores or outside:
                continue
            expr = body[0].value

            class _P(ast.NodeTransformer):
                def visit_Attribute(self, node):
                    self.generic_visit(node)
                    if node.attr == f.name and isinstance(node.ctx, ast.Load):
                        recv = node.value
                        return _Subst({me: recv}).visit(clone(expr)) if not (isinstance(recv, ast.Name) and recv.id == me) else clone(expr)
                    return node
            blk.remove(f)
            if not blk:
                blk.append(ast.Pass())
            _P().visit(cls)
    mod_refs: Dict[str, list] = {}
    for n in ast.walk(mod.tree):
        if isinstance(n, ast.Attribute):
            mod_refs.setdefault(n.attr, []).append(n)
    # generators -> drivers: private generator methods (not anchors, only ever called as self._g(...) in this class, not mentioned elsewhere)
    gens = {}
    for blk, f in _class_functions(cls):
        if f.name in keep or not f.name.startswith("_") or f.name.startswith("__") or f.decorator_list or not _is_generator(f) or isinstance(f, ast.AsyncFunctionDef):
            continue
        refs = mod_refs.get(f.name, [])
        if refs and all(isinstance(getattr(r, "_parent", None), ast.Call) and getattr(r, "_parent").func is r and isinstance(r.value, ast.Name) and r.value.id == "self"
                        and mod.qualname(r).split(".")[0] == clsname for r in refs) and not _mentioned_elsewhere(ctx, rel, f.name):
            gens[f.name] = f
    if gens:
        for blk, f in _class_functions(cls):
            if f.name in gens:
                continue
            nb, ch = _unfold_comprehensions(f.body, gens)
            if ch:
                f.body = nb
            nb, ch = _drive_generators(f.body, gens, _assigned_names(f) | {a.arg for a in f.args.args}, counter)
            if ch:
                f.body = nb
    for _round in range(4):
        funcs = _class_functions(cls)
        helpers = {}
        for blk, f in funcs:
            static = len(f.decorator_list) == 1 and dotted(f.decorator_list[0]) == "staticmethod"
            if f.name in keep or not f.name.startswith("_") or (f.name.startswith("__") and f.name.endswith("__")) or (f.decorator_list and not static) \
                    or _is_generator(f) or isinstance(f, ast.AsyncFunctionDef):
                continue
            if sum(1 for _, g in funcs if g.name == f.name) != 1:
                continue
            # only inlinable when every reference in the module is a plain call  self._h(...)
            refs = mod_refs.get(f.name, [])
            if not refs or not all(isinstance(getattr(r, "_parent", None), ast.Call) and getattr(r, "_parent").func is r and isinstance(r.value, ast.Name) and r.value.id == "self"
                                   for r in refs):
                continue
            if not all(mod.qualname(r).split(".")[0] == clsname for r in refs):
                continue
            if any(_helper_self_recursive(f)):
                continue
            if _mentioned_elsewhere(ctx, rel, f.name):
                continue  # may be overridden / called from another module: not a private detail of this class
            helpers[f.name] = f
        any_change = False
        for blk, f in funcs:
            hs = {k: v for k, v in helpers.items() if k != f.name}
            for fn in [f] + [n for n in ast.walk(f) if isinstance(n, (ast.FunctionDef, ast.AsyncFunctionDef)) and n is not f]:
                nb, ch = _inline_block(fn.body, hs, _assigned_names(fn) | {a.arg for a in fn.args.args}, counter)
                if ch:
                    fn.body = nb
                    any_change = True
        if not any_change:
            break
    # dissolve helpers that are no longer referenced
    inlined = []
    for blk, f in _class_functions(cls):
        if f.name in keep or not f.name.startswith("_") or (f.name.startswith("__") and f.name.endswith("__")):
            continue
        refs_in_cls = [n for n in ast.walk(cls) if isinstance(n, ast.Attribute) and n.attr == f.name]
        refs_in_mod = mod_refs.get(f.name, [])
        orig_in_cls = [n for n in ast.walk(orig) if isinstance(n, ast.Attribute) and n.attr == f.name]
        if not refs_in_cls and orig_in_cls and len(refs_in_mod) == len(orig_in_cls):
            blk.remove(f)
            if not blk:
                blk.append(ast.Pass())
            inlined.append(f.name)
    for blk, f in _class_functions(cls):
        for fn in [f] + [n for n in ast.walk(f) if isinstance(n, (ast.FunctionDef, ast.AsyncFunctionDef)) and n is not f]:
            for _ in range(12):
                if not _subst_temps(fn):
                    break
    ast.fix_missing_locations(cls)
    set_parents(cls, getattr(orig, "_parent", None))
    # "fully understood" bit: private methods of this class (not anchors) that are still called after normalisation - a helper that
    # could not be inlined, a generator helper, ... - are recorded on every function that calls them
    left = {f.name for _, f in _class_functions(cls) if f.name not in keep and f.name.startswith("_") and not (f.name.startswith("__") and f.name.endswith("__"))}
    for _, f in _class_functions(cls):
        for fn in [f] + [n for n in ast.walk(f) if isinstance(n, (ast.FunctionDef, ast.AsyncFunctionDef)) and n is not f]:
            fn._residual = sorted({n.func.attr for n in ast.walk(fn) if isinstance(n, ast.Call) and isinstance(n.func, ast.Attribute) and n.func.attr in left
                                   and isinstance(n.func.value, ast.Name) and n.func.value.id in ("self", "cls", clsname)})  # type: ignore[attr-defined]
    cls._inlined = inlined  # type: ignore[attr-defined]
    cls._orig = orig  # type: ignore[attr-defined]
    cache[key] = cls
    return cls


def _mentioned_elsewhere(ctx, rel: str, name: str) -> bool:
    texts = ctx.__dict__.get("_all_texts")
    if texts is None:
        texts = {}
        for r in ctx.tree.all_modules():
            try:
                texts[r] = ctx.tree.text(r)
            except AnalysisError:
                pass
        ctx.__dict__["_all_texts"] = texts
    import re as _re
    pat = _re.compile(r"(?<![A-Za-z0-9_])" + _re.escape(name) + r"(?![A-Za-z0-9_])")
    return any(name in t and pat.search(t) for r, t in texts.items() if r != rel)


def _helper_self_recursive(f):
    for n in ast.walk(f):
        if isinstance(n, ast.Attribute) and n.attr == f.name:
            yield n


def norm_func(ctx, rel: str, clsname: str, name: str, keep: Iterable[str] = (), which: int = 0):
    """The normalised version of ``clsname.name`` (Missing stand-in when it vanished)."""
    cls = norm_class(ctx, rel, clsname, keep)
    fs = [f for _, f in _class_functions(cls) if f.name == name]
    if len(fs) > which:
        ctx.functions.add(f"{rel}:{clsname}.{name}")
        return fs[which]
    ctx.errors.append(f"[anchor] anchor vanished: function {rel}:{clsname}.{name}")
    return Missing(f"{rel}:{clsname}.{name}")


def resolve_name_test(func, expr):
    """A test that is a bare local Name assigned exactly once in ``func`` -> (defining expression, defining
    statement); otherwise (expr, None)."""
    if isinstance(expr, ast.Name):
        defs = [st for st in body_walk(func) if isinstance(st, (ast.Assign, ast.AnnAssign))
                and any(isinstance(t, ast.Name) and t.id == expr.id for t, v in assign_pairs(st))]
        stores = [n for n in body_walk(func) if isinstance(n, ast.Name) and n.id == expr.id and isinstance(n.ctx, ast.Store)]
        if len(defs) == 1 and len(stores) == 1:
            return next(v for t, v in assign_pairs(defs[0]) if isinstance(t, ast.Name) and t.id == expr.id), defs[0]
    return expr, None


# ---- symbolic times: exact (real-number) evaluation of interval arithmetic over a complete abstract domain ---------
#
# Every time >= start is  start + interval*(k + rho)  with k a non-negative integer and 0 <= rho < 1, so evaluating
# the repository's arithmetic on such symbolic values, once per case of the finitely many case distinctions the
# code can make (interval == 0 / > 0, no boundary crossed / at least one crossed, first call / later call), is a
# for-all argument over the reals.  (Floating-point rounding is outside this domain; it is sampled by the grid rules.)

from fractions import Fraction as _Fr


class SymEnv:
    """Ranges of the symbols: 'i' > 0; integer symbols >= 0 (``ints``), optionally n = m + delta with delta fixed 0
    or >= 1 expressed by substituting before deciding; fraction symbols in [0, 1)."""

    def __init__(self, ints=(), fracs=(), subst=None, pfracs=()):
        self.ints = set(ints)
        self.pfracs = set(pfracs)              # fractions in the open interval (0, 1)
        self.fracs = set(fracs) | self.pfracs  # fractions in [0, 1)
        self.subst = subst or {}     # int symbol -> {symbol: coef, 1: const}  (e.g. n -> m + 1 + d)


class Lin:
    """a0 + sum(c_x * x) + start*cs + interval * (b0 + sum(d_x * x)): ``pure`` part and ``time`` part."""

    __slots__ = ("pure", "time", "s", "env")

    def __init__(self, env, pure=None, time=None, s=0):
        self.env = env
        self.pure = {k: _Fr(v) for k, v in (pure or {}).items() if v != 0}
        self.time = {k: _Fr(v) for k, v in (time or {}).items() if v != 0}
        self.s = _Fr(s)

    # -- helpers
    @staticmethod
    def lift(env, v):
        if isinstance(v, Lin):
            return v
        if isinstance(v, bool) or not isinstance(v, (int, float, _Fr)):
            raise EvalUnsupported("symbolic arithmetic with a non-number")
        if isinstance(v, float) and v != int(v):
            v = _Fr(v)
        return Lin(env, {1: _Fr(v)})

    def _comb(self, o, sign):
        o = Lin.lift(self.env, o)
        p = dict(self.pure)
        for k, v in o.pure.items():
            p[k] = p.get(k, 0) + sign * v
        t = dict(self.time)
        for k, v in o.time.items():
            t[k] = t.get(k, 0) + sign * v
        return Lin(self.env, p, t, self.s + sign * o.s)

    def __add__(self, o):
        return self._comb(o, 1)
    __radd__ = __add__

    def __sub__(self, o):
        return self._comb(o, -1)

    def __rsub__(self, o):
        return Lin.lift(self.env, o)._comb(self, -1)

    def __neg__(self):
        return Lin(self.env, {k: -v for k, v in self.pure.items()}, {k: -v for k, v in self.time.items()}, -self.s)

    def __pos__(self):
        return self

    def _const(self):
        if not self.time and self.s == 0 and set(self.pure) <= {1}:
            return self.pure.get(1, _Fr(0))
        return None

    def __mul__(self, o):
        o = Lin.lift(self.env, o)
        for a, b in ((self, o), (o, self)):
            c = b._const()
            if c is not None:
                return Lin(self.env, {k: v * c for k, v in a.pure.items()}, {k: v * c for k, v in a.time.items()}, a.s * c)
        raise EvalUnsupported("product of two symbolic values")
    __rmul__ = __mul__

    def _is_interval(self):
        return not self.pure and self.s == 0 and self.time == {1: _Fr(1)}

    def __truediv__(self, o):
        o = Lin.lift(self.env, o)
        c = o._const()
        if c is not None and c != 0:
            return self * (1 / c)
        if o._is_interval() and not self.pure and self.s == 0:
            return Lin(self.env, dict(self.time))
        raise EvalUnsupported("division not by the interval / a constant")

    def __mod__(self, o):
        o = Lin.lift(self.env, o)
        if not (o._is_interval() and not self.pure and self.s == 0):
            raise EvalUnsupported("modulo not by the interval")
        ints = {k: v for k, v in self.time.items() if k == 1 or k in self.env.ints}
        fr = {k: v for k, v in self.time.items() if k in self.env.fracs}
        if any(v.denominator != 1 for v in ints.values()) or set(self.time) - set(ints) - set(fr):
            raise EvalUnsupported("modulo of a non-integral multiple")
        if not fr:
            return Lin(self.env, {})
        if len(fr) == 1 and list(fr.values())[0] == 1:
            return Lin(self.env, None, dict(fr))
        raise EvalUnsupported("modulo with several fractional parts")

    def __rmod__(self, o):
        raise EvalUnsupported("modulo by a symbolic value")

    def _int_frac(self):
        """(integer part as Lin, fraction symbol or None, its coefficient +1/-1) of a pure value, else EvalUnsupported."""
        if self.time or self.s != 0:
            raise EvalUnsupported("rounding of a time")
        ints = {k: v for k, v in self.pure.items() if k == 1 or k in self.env.ints}
        fr = {k: v for k, v in self.pure.items() if k in self.env.fracs}
        if any(v.denominator != 1 for v in ints.values()) or set(self.pure) - set(ints) - set(fr):
            raise EvalUnsupported("rounding of a non-integral form")
        if not fr:
            return Lin(self.env, ints), None, 0
        if len(fr) == 1 and abs(list(fr.values())[0]) == 1:
            k = list(fr)[0]
            return Lin(self.env, ints), k, int(fr[k])
        raise EvalUnsupported("rounding with several fractional parts")

    def floor(self):
        """math.floor(x) / x // 1 for a pure value."""
        ip, k, c = self._int_frac()
        if k is None or c == 1:
            return ip                      # ip + rho, 0 <= rho < 1
        if k in self.env.pfracs:
            return ip - 1                  # ip - rho, 0 < rho < 1
        raise EvalUnsupported("floor of ip - rho with rho possibly 0")

    def trunc(self):
        """int(x) (truncation toward zero) for a pure value."""
        ip, k, c = self._int_frac()
        if k is None:
            return ip
        lo, hi, _ = ip._bounds()
        if c == 1:
            if lo is not None and lo >= 0:
                return ip                  # non-negative: truncation == floor
            if hi is not None and hi <= -1 and k in self.env.pfracs:
                return ip + 1              # ip + rho with ip <= -1, 0 < rho < 1: toward zero
        else:
            if hi is not None and hi <= 0:
                return ip                  # -(|ip| + rho): toward zero drops rho
            if lo is not None and lo >= 1 and k in self.env.pfracs:
                return ip - 1
        raise EvalUnsupported("int() of a value whose sign is not decided")

    def __floordiv__(self, o):
        return (self / o).floor()

    # -- deciding signs
    def _bounds(self):
        """(inf, sup, strict_low) of the value over the ranges of the symbols; None = unbounded.  Only for values
        whose sign does not depend on start; a time part contributes the sign of its bracket (interval > 0)."""
        if self.s != 0:
            raise EvalUnsupported("sign depends on the start time")
        if self.pure and self.time:
            raise EvalUnsupported("mixed pure/time value")
        form = dict(self.time or self.pure)
        # substitute related integer symbols
        changed = True
        while changed:
            changed = False
            for k in list(form):
                if k in self.env.subst:
                    c = form.pop(k)
                    for k2, v2 in self.env.subst[k].items():
                        form[k2] = form.get(k2, 0) + c * _Fr(v2)
                    changed = True
        lo = hi = form.pop(1, _Fr(0))
        strict_lo = strict_hi = False
        for k, c in form.items():
            if c == 0:
                continue
            if k in self.env.fracs:       # [0, 1)  (or (0, 1) for pfracs)
                if c > 0:
                    hi = None if hi is None else hi + c
                    strict_hi = True
                    if k in self.env.pfracs:
                        strict_lo = True
                else:
                    lo = None if lo is None else lo + c
                    strict_lo = True
                    if k in self.env.pfracs:
                        strict_hi = True
            else:                          # integer >= 0, unbounded above
                if c > 0:
                    hi = None
                else:
                    lo = None
        return lo, hi, (strict_lo, strict_hi)

    def sign(self):
        """+1 / -1 / 0 when decided for every value of the symbols, else EvalUnsupported."""
        lo, hi, (sl, sh) = self._bounds()
        if lo is not None and (lo > 0 or (lo == 0 and sl)):
            return 1
        if hi is not None and (hi < 0 or (hi == 0 and sh)):
            return -1
        if lo == 0 and hi == 0:
            return 0
        raise EvalUnsupported(f"sign of {self!r} not decided in this case")

    def nonneg(self):
        lo, hi, _ = self._bounds()
        if lo is not None and lo >= 0:
            return True
        if hi is not None and (hi < 0):
            return False
        raise EvalUnsupported(f"sign of {self!r} not decided in this case")

    def same(self, o):
        o = Lin.lift(self.env, o)
        return self.pure == o.pure and self.time == o.time and self.s == o.s

    def __eq__(self, o):
        if o is None:
            return False
        d = self - o
        if not d.pure and not d.time and d.s == 0:
            return True
        return d.sign() == 0

    def __ne__(self, o):
        return not self.__eq__(o)

    def __gt__(self, o):
        return (self - o).sign() > 0

    def __lt__(self, o):
        return (self - o).sign() < 0

    def __ge__(self, o):
        return (self - o).nonneg()

    def __le__(self, o):
        return (Lin.lift(self.env, o) - self).nonneg()

    __hash__ = None

    def __repr__(self):
        def f(d):
            return " + ".join(f"{v}*{k}" if k != 1 else str(v) for k, v in d.items()) or "0"
        return f"<{f(self.pure)} + start*{self.s} + interval*({f(self.time)})>"


class SymInterp(Interp):
    """Interp whose numbers may be ``Lin`` values."""

    @staticmethod
    def arith(op, a, b):
        if isinstance(a, Lin) or isinstance(b, Lin):
            return op(a, b)
        return Interp.arith(op, a, b)

    @staticmethod
    def truth(v):
        if isinstance(v, Lin):
            c = v._const()
            if c is None:
                raise EvalUnsupported("truth of a symbolic value")
            return c != 0
        return Interp.truth(v)

    def expr(self, e, env):
        if isinstance(e, ast.Compare):
            left = self.expr(e.left, env)
            for op, right in zip(e.ops, e.comparators):
                r = self.expr(right, env)
                f = _CMPOPS.get(type(op))
                if f is None:
                    raise EvalUnsupported("compare op")
                if not (isinstance(left, Lin) or isinstance(r, Lin)) and type(op) in (ast.Lt, ast.LtE, ast.Gt, ast.GtE) \
                        and not all(isinstance(x, (int, float)) for x in (left, r)):
                    raise EvalUnsupported("ordering of non-numbers")
                if not f(left, r):
                    return False
                left = r
            return True
        if isinstance(e, ast.UnaryOp) and isinstance(e.op, (ast.USub, ast.UAdd)):
            v = self.expr(e.operand, env)
            if isinstance(v, Lin):
                return -v if isinstance(e.op, ast.USub) else v
        return super().expr(e, env)

    def call(self, e, env):
        if dotted(e.func) in ("math.floor", "floor", "math.trunc", "trunc") and len(e.args) == 1 and not e.keywords:
            v = self.expr(e.args[0], env)
            if isinstance(v, Lin):
                return v.floor() if "floor" in dotted(e.func) else v.trunc()
            if isinstance(v, (int, float)) and not isinstance(v, bool):
                return math.floor(v) if "floor" in dotted(e.func) else math.trunc(v)
            raise EvalUnsupported("rounding of a non-number")
        if dotted(e.func) == "int" and len(e.args) == 1 and not e.keywords:
            try:
                bound = self.lookup("int", env)
            except EvalUnsupported:
                bound = None
            if bound is None:
                v = self.expr(e.args[0], env)
                if isinstance(v, Lin):
                    return v.trunc()
                if isinstance(v, (int, float)) and not isinstance(v, bool):
                    return int(v)
                raise EvalUnsupported("int() of a non-number")
        return super().call(e, env)
