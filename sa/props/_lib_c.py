"""Helpers shared by C10-C13 (task.py / base.py rules).  Stdlib only; never imports twisted.

* small AST predicates (self attributes, assignment pairs with tuple-swap unpacking, parents)
* ``swallowing_names``: which module-level context managers of a module swallow exceptions,
  *derived* from logger/_logger.py (``Logger.failureHandler`` -> class whose ``__exit__`` returns
  True on every normal path)
* ``Interp``: a whitelisted interpreter for loop-free pure arithmetic code (finite-domain
  evaluation of repository *expressions*; anything outside the whitelist is an AnalysisError,
  never a verdict)
* ``may_mutate``: name-based call graph over a set of classes: can calling method m mutate
  attribute X (through the methods of those classes)?
"""
from __future__ import annotations

import ast
import math
from typing import Callable, Dict, Iterable, List, Optional, Sequence, Set, Tuple

from sa.astx import FUNC_TYPES, body_walk, call_attr, call_name, dotted, src, walk_local
from sa.cfg import CFG
from sa.effects import accesses
from sa.source import AnalysisError, methods


# ---- rule-group isolation ---------------------------------------------------------------------------

import contextlib


@contextlib.contextmanager
def section(ctx, name: str):
    """``with section(ctx, "group"):`` = ``with ctx.section("group"):`` plus: a NameError caused by a
    variable that an earlier, unreadable section failed to bind is an analysis error of this group
    (recorded, run continues), not a crash of the analyser."""
    with ctx.section(name):
        try:
            yield
        except NameError as e:
            raise AnalysisError(f"depends on a rule group that could not be analysed ({e})")


class Missing:
    """Stand-in for a vanished anchor: any use raises AnalysisError, which the enclosing section
    records; the other rule groups still run."""

    def __init__(self, what: str):
        object.__setattr__(self, "_what", what)

    def __getattr__(self, name):
        raise AnalysisError(f"anchor vanished: {object.__getattribute__(self, '_what')}")

    def __bool__(self):
        return False


def anchor(ctx, rel: str, qual: str):
    """ctx.func that does not abort the run: a vanished function becomes a Missing stand-in."""
    try:
        return ctx.func(rel, qual)
    except AnalysisError as e:
        ctx.errors.append(f"[anchor] {e}")
        return Missing(f"{rel}:{qual}")


def anchor_methods(ctx, rel: str, cls: ast.ClassDef, names: Sequence[str]) -> Dict[str, ast.AST]:
    """methods(cls) where each required-but-missing name maps to a Missing stand-in."""
    m = dict(methods(cls))
    for n in names:
        if n not in m:
            ctx.errors.append(f"[anchor] anchor vanished: function {rel}:{cls.name}.{n}")
            m[n] = Missing(f"{rel}:{cls.name}.{n}")
        else:
            ctx.functions.add(f"{rel}:{cls.name}.{n}")
    return m


# ---- AST predicates -------------------------------------------------------------------------

def self_attr(node: ast.AST, name: Optional[str] = None, recv: str = "self") -> bool:
    return (isinstance(node, ast.Attribute) and isinstance(node.value, ast.Name) and node.value.id == recv
            and (name is None or node.attr == name))


def assign_pairs(st: ast.AST) -> List[Tuple[ast.expr, ast.expr]]:
    """(target, value) pairs of an assignment; ``a, b = x, y`` is unpacked element-wise,
    ``a = b = v`` yields both."""
    out: List[Tuple[ast.expr, ast.expr]] = []
    if isinstance(st, ast.Assign):
        for t in st.targets:
            if isinstance(t, (ast.Tuple, ast.List)) and isinstance(st.value, (ast.Tuple, ast.List)) and len(t.elts) == len(st.value.elts):
                out.extend(zip(t.elts, st.value.elts))
            else:
                out.append((t, st.value))
    elif isinstance(st, ast.AnnAssign) and st.value is not None:
        out.append((st.target, st.value))
    return out


def is_const(node: ast.AST, value) -> bool:
    return isinstance(node, ast.Constant) and node.value is value


def assigns_self(st: ast.AST, attr: str, pred: Optional[Callable[[ast.expr], bool]] = None, recv: str = "self") -> bool:
    """Statement assigns ``recv.attr`` (a value satisfying pred)."""
    for t, v in assign_pairs(st):
        if self_attr(t, attr, recv) and (pred is None or pred(v)):
            return True
    return False


def parents(node: ast.AST):
    n = getattr(node, "_parent", None)
    while n is not None:
        yield n
        n = getattr(n, "_parent", None)


def enclosing(node: ast.AST, types, stop=FUNC_TYPES) -> Optional[ast.AST]:
    """Nearest ancestor of one of ``types`` inside the same function."""
    for p in parents(node):
        if isinstance(p, types):
            return p
        if isinstance(p, stop):
            return None
    return None


def nested_defs(func: ast.AST) -> Dict[str, ast.AST]:
    """Functions defined directly inside ``func`` (any block depth, not inside further defs)."""
    out: Dict[str, ast.AST] = {}
    for n in body_walk(func):
        if isinstance(n, (ast.FunctionDef, ast.AsyncFunctionDef)):
            out[n.name] = n
    return out


def all_funcs_of_class(cls: ast.ClassDef, prefix: Optional[str] = None):
    """(qualname, function) for every method and every nested def/lambda of a class."""
    out = []

    def rec(node, pre):
        for ch in ast.iter_child_nodes(node):
            if isinstance(ch, (ast.FunctionDef, ast.AsyncFunctionDef)):
                out.append((pre + ch.name, ch))
                rec(ch, pre + ch.name + ".")
            elif isinstance(ch, ast.Lambda):
                out.append((pre + "<lambda>", ch))
                rec(ch, pre + "<lambda>.")
            elif isinstance(ch, ast.ClassDef):
                continue
            else:
                rec(ch, pre)

    rec(cls, (prefix if prefix is not None else cls.name) + ".")
    return out


def calls_of(func: ast.AST, pred: Callable[[ast.Call], bool]) -> List[ast.Call]:
    return [n for n in body_walk(func) if isinstance(n, ast.Call) and pred(n)]


def node_has_call(g: CFG, pred: Callable[[ast.Call], bool], kinds=("stmt", "test", "for", "with")) -> List[int]:
    return gfind(g, lambda x: isinstance(x, ast.Call) and pred(x), kinds=kinds)


def gfind(g: CFG, pred: Callable[[ast.AST], bool], kinds=("stmt", "test", "for", "with")) -> List[int]:
    """Like CFG.find but does not look inside nested ``def`` / ``class`` statements (CFG.find walks
    into the body of a nested def because the def statement is the walk root)."""
    out = []
    for n in g.find(pred, kinds=kinds):
        a = g.node(n).ast
        if isinstance(a, (ast.FunctionDef, ast.AsyncFunctionDef, ast.ClassDef)):
            continue
        out.append(n)
    return out


def must_pass(g: CFG, srcs, via, to=None, exc: bool = False):
    """CFG.must_pass with the two corner cases closed: a source that is itself a ``via`` node is
    satisfied (CFG.path never filters sources), and a source that is a target counts as reached."""
    via = set(via)
    srcs = [s for s in srcs if s not in via]
    if not srcs:
        return None
    return g.must_pass(srcs, via, to=to, exc=exc, strict=False)


def test_is(expr: ast.AST, *texts: str) -> bool:
    return src(expr) in texts


def is_none_test(expr: ast.AST, what: str) -> Optional[bool]:
    """``<what> is None`` -> True, ``<what> is not None`` -> False, bare ``<what>`` -> False
    (truthy == not None for the objects concerned), else None.  Polarity of the *test being true*
    meaning "is None"."""
    if isinstance(expr, ast.Compare) and len(expr.ops) == 1 and src(expr.left) == what and is_const(expr.comparators[0], None):
        if isinstance(expr.ops[0], (ast.Is, ast.Eq)):
            return True
        if isinstance(expr.ops[0], (ast.IsNot, ast.NotEq)):
            return False
    if src(expr) == what:
        return False
    return None


def guarded_not_none(g: CFG, n: int, what: str) -> bool:
    """Node n runs only when ``what`` is not None / truthy."""
    for t, lab in g.edge_guards(n):
        k = is_none_test(g.node(t).ast, what)
        if k is None:
            continue
        if (k and lab == "F") or ((not k) and lab == "T"):
            return True
    return False


def guarded_none(g: CFG, n: int, what: str) -> bool:
    for t, lab in g.edge_guards(n):
        k = is_none_test(g.node(t).ast, what)
        if k is None:
            continue
        if (k and lab == "T") or ((not k) and lab == "F"):
            return True
    return False


def eq_test(expr: ast.AST, left: str, value) -> Optional[bool]:
    """``left == value`` -> True; ``left != value`` -> False; (for value 0: ``not left`` handled by
    the CFG polarity, bare ``left`` -> False) else None."""
    if isinstance(expr, ast.Compare) and len(expr.ops) == 1:
        l, r = expr.left, expr.comparators[0]
        if src(r) == left and isinstance(l, ast.Constant):
            l, r = r, l
        if src(l) == left and isinstance(r, ast.Constant) and r.value == value and type(r.value) is type(value):
            if isinstance(expr.ops[0], ast.Eq):
                return True
            if isinstance(expr.ops[0], ast.NotEq):
                return False
    if value == 0 and src(expr) == left:
        return False
    return None


def guarded_eq(g: CFG, n: int, left: str, value) -> bool:
    for t, lab in g.edge_guards(n):
        k = eq_test(g.node(t).ast, left, value)
        if k is None:
            continue
        if (k and lab == "T") or ((not k) and lab == "F"):
            return True
    return False


def guarded_ne(g: CFG, n: int, left: str, value) -> bool:
    for t, lab in g.edge_guards(n):
        k = eq_test(g.node(t).ast, left, value)
        if k is None:
            continue
        if (k and lab == "F") or ((not k) and lab == "T"):
            return True
    return False


def no_exc(a, b, l):
    return l != "exc"


# ---- swallowing context managers, derived from logger/_logger.py ---------------------------------

LOGGER = "logger/_logger.py"


def _exit_always_true(ctx, cls: ast.ClassDef) -> bool:
    ex = methods(cls).get("__exit__")
    if ex is None:
        return False
    g = ctx.cfg(ex)
    rets = g.ids(lambda n: n.kind == "stmt" and isinstance(n.ast, ast.Return))
    if not rets:
        return False
    for r in rets:
        v = g.node(r).ast.value
        if not (isinstance(v, ast.Constant) and v.value is True):
            return False
    # no path falls off the end without a return
    fall = g.path([g.entry], [g.exit], avoid=set(rets), edge_ok=no_exc)
    return fall is None


def swallowing_factories(ctx) -> Set[str]:
    """Names of ``Logger`` methods that return a context manager whose ``__exit__`` returns True on
    every path (so the ``with`` body's exceptions never propagate)."""
    mod = ctx.mod(LOGGER)
    logger = ctx.cls(LOGGER, "Logger")
    out: Set[str] = set()
    for name, m in methods(logger).items():
        rets = [n for n in body_walk(m) if isinstance(n, ast.Return) and n.value is not None]
        if not rets:
            continue
        ok = True
        for r in rets:
            v = r.value
            c = mod.find(dotted(v.func) or "") if isinstance(v, ast.Call) else None
            if not (isinstance(c, ast.ClassDef) and _exit_always_true(ctx, c)):
                ok = False
        if ok:
            out.add(name)
    return out


def swallowing_names(ctx, rel: str) -> Set[str]:
    """Module-level names of ``rel`` bound to ``<Logger instance>.<swallowing factory>(...)``."""
    facts = swallowing_factories(ctx)
    mod = ctx.mod(rel)
    loggers = set()
    for st in mod.tree.body:
        if isinstance(st, ast.Assign) and isinstance(st.value, ast.Call) and dotted(st.value.func) in ("Logger", "_log.Logger", "logger.Logger"):
            loggers.update(t.id for t in st.targets if isinstance(t, ast.Name))
    out: Set[str] = set()
    for st in mod.tree.body:
        if isinstance(st, ast.Assign) and isinstance(st.value, ast.Call) and isinstance(st.value.func, ast.Attribute):
            f = st.value.func
            if f.attr in facts and isinstance(f.value, ast.Name) and f.value.id in loggers:
                out.update(t.id for t in st.targets if isinstance(t, ast.Name))
    return out


def swallowing_predicate(ctx, rel: str):
    """(names, predicate for ctx.cfg(..., swallowing=predicate)).  The predicate object is kept on
    the ctx itself so that ctx.cfg's cache key (id of the predicate) is stable within one run and
    never shared between runs (overlays differ)."""
    cache = ctx.__dict__.setdefault("_swallow_cache", {})
    if rel not in cache:
        names = swallowing_names(ctx, rel)

        def pred(e: ast.expr, names=names) -> bool:
            return isinstance(e, ast.Name) and e.id in names

        cache[rel] = (names, pred)
    return cache[rel]


def isolating_with(node: ast.AST, names: Set[str]) -> Optional[ast.With]:
    """The nearest enclosing swallowing ``with`` of ``node`` that lies *inside* the nearest enclosing
    loop (i.e. one failure is confined to one iteration); None otherwise."""
    for p in parents(node):
        if isinstance(p, (ast.With, ast.AsyncWith)) and any(isinstance(i.context_expr, ast.Name) and i.context_expr.id in names for i in p.items):
            return p
        if isinstance(p, (ast.For, ast.While, ast.AsyncFor) + FUNC_TYPES):
            return None
        if isinstance(p, ast.Try):
            # a try/except catching everything and not re-raising would also isolate; not an idiom
            # used here - treat as not isolating
            continue
    return None


# ---- name-based may-mutate over a set of classes -----------------------------------------------------

def may_mutate(classes: Sequence[ast.ClassDef], start_calls: Iterable[ast.Call], attr: str,
               kinds: Optional[Set[str]] = None) -> Optional[List[str]]:
    """Can one of ``start_calls`` (resolved by method *name* among ``classes``) reach, through
    further calls resolved the same way, a mutation of ``<anything>.attr``?  Returns the call
    chain (method names ... mutation text) or None.  Calls that do not resolve to a method of
    the classes are ignored (opaque user code is the caller's concern)."""
    table: Dict[str, List[ast.AST]] = {}
    for c in classes:
        for name, m in methods(c).items():
            table.setdefault(name, []).append(m)
    seen: Set[str] = set()
    work: List[Tuple[str, List[str]]] = []
    for c in start_calls:
        a = call_attr(c)
        if a in table:
            work.append((a, [a]))
    while work:
        name, chain = work.pop(0)
        if name in seen:
            continue
        seen.add(name)
        for m in table[name]:
            for acc in accesses(m, name, {attr}, None, into_nested=False):
                if acc.kind in ("assign", "rebind-empty") and kinds is None:
                    continue  # rebinding does not disturb an iteration over the old object
                if kinds is None or acc.kind in kinds:
                    return chain + [f"{acc.kind}: {src(acc.node)}"]
            for n in body_walk(m):
                if isinstance(n, ast.Call):
                    a = call_attr(n)
                    if a in table and a not in seen:
                        work.append((a, chain + [a]))
    return None


# ---- whitelisted interpreter for loop-free arithmetic code ---------------------------------------------

class EvalUnsupported(Exception):
    """Construct outside the whitelist: the caller turns this into an AnalysisError."""


class EvalAssert(Exception):
    """An ``assert`` of the interpreted code evaluated to false."""


class _Return(Exception):
    def __init__(self, value):
        self.value = value


class Closure:
    def __init__(self, func, env):
        self.func = func
        self.env = env


class SelfRef:
    """The receiver object: attributes live in a plain dict."""

    def __init__(self, attrs: Dict[str, object]):
        self.attrs = attrs

    def __repr__(self):
        return "<self>"


_BUILTINS = {"int": int, "float": float, "abs": abs, "min": min, "max": max, "round": round, "divmod": divmod,
             "bool": bool, "math.floor": math.floor, "math.ceil": math.ceil, "math.fmod": math.fmod, "floor": math.floor,
             "ceil": math.ceil, "fmod": math.fmod, "math.trunc": math.trunc}

_BINOPS = {ast.Add: lambda a, b: a + b, ast.Sub: lambda a, b: a - b, ast.Mult: lambda a, b: a * b,
           ast.Div: lambda a, b: a / b, ast.FloorDiv: lambda a, b: a // b, ast.Mod: lambda a, b: a % b,
           ast.Pow: lambda a, b: a ** b}
_CMPOPS = {ast.Eq: lambda a, b: a == b, ast.NotEq: lambda a, b: a != b, ast.Lt: lambda a, b: a < b,
           ast.LtE: lambda a, b: a <= b, ast.Gt: lambda a, b: a > b, ast.GtE: lambda a, b: a >= b,
           ast.Is: lambda a, b: a is b, ast.IsNot: lambda a, b: a is not b}


class Interp:
    """Interprets loop-free functions made of assignments / if / assert / return over numbers,
    None, booleans and the attributes of one receiver.  Calls are resolved, in this order, to:
    ``hooks`` (dotted callee text -> Python callable supplied by the rule: the opaque world, e.g.
    the clock), nested closures, methods of the receiver's class (``self.m(...)``), a few numeric
    builtins.  Everything else raises EvalUnsupported."""

    def __init__(self, selfref: SelfRef, class_methods: Dict[str, ast.AST], hooks: Dict[str, Callable],
                 self_names: Sequence[str] = ("self",), budget: int = 4000):
        self.selfref = selfref
        self.methods = class_methods
        self.hooks = hooks
        self.self_names = set(self_names)
        self.budget = budget

    # -- functions
    def call_function(self, func: ast.AST, args: Sequence[object], outer: Optional[dict] = None, bind_self: bool = False):
        params = [a.arg for a in func.args.args]
        if func.args.vararg or func.args.kwarg or func.args.kwonlyargs or func.args.posonlyargs:
            raise EvalUnsupported("parameter kinds")
        env: Dict[str, object] = {"__outer__": outer}
        vals = list(args)
        if bind_self:
            if not params:
                raise EvalUnsupported("method without self")
            env[params[0]] = self.selfref
            params = params[1:]
        defaults = func.args.defaults
        if len(vals) > len(params) or len(vals) < len(params) - len(defaults):
            raise EvalUnsupported("arity")
        for i, p in enumerate(params):
            if i < len(vals):
                env[p] = vals[i]
            else:
                env[p] = self.expr(defaults[i - (len(params) - len(defaults))], env)
        try:
            self.block(func.body, env)
        except _Return as r:
            return r.value
        return None

    def lookup(self, name: str, env: Optional[dict]):
        e = env
        while e is not None:
            if name in e:
                return e[name]
            e = e.get("__outer__")
        if name in self.self_names:
            return self.selfref
        raise EvalUnsupported(f"unbound name {name}")

    # -- statements
    def block(self, stmts, env):
        for st in stmts:
            self.budget -= 1
            if self.budget < 0:
                raise EvalUnsupported("budget exhausted")
            self.stmt(st, env)

    def stmt(self, st, env):
        if isinstance(st, (ast.FunctionDef,)):
            env[st.name] = Closure(st, env)
        elif isinstance(st, ast.Assign):
            v = self.expr(st.value, env)
            for t in st.targets:
                self.store(t, v, env)
        elif isinstance(st, ast.AnnAssign):
            if st.value is not None:
                self.store(st.target, self.expr(st.value, env), env)
        elif isinstance(st, ast.AugAssign):
            op = _BINOPS.get(type(st.op))
            if op is None:
                raise EvalUnsupported("augassign op")
            load = ast.copy_location(ast.Name(id=st.target.id, ctx=ast.Load()), st.target) if isinstance(st.target, ast.Name) else st.target
            cur = self.expr(load, env)
            self.store(st.target, self.arith(op, cur, self.expr(st.value, env)), env)
        elif isinstance(st, ast.If):
            self.block(st.body if self.truth(self.expr(st.test, env)) else st.orelse, env)
        elif isinstance(st, ast.Assert):
            if not self.truth(self.expr(st.test, env)):
                raise EvalAssert(src(st.test))
        elif isinstance(st, ast.Return):
            raise _Return(self.expr(st.value, env) if st.value is not None else None)
        elif isinstance(st, ast.Expr):
            if isinstance(st.value, ast.Constant):
                return  # docstring
            self.expr(st.value, env)
        elif isinstance(st, ast.Pass):
            return
        else:
            raise EvalUnsupported(f"statement {type(st).__name__}")

    def store(self, t, v, env):
        if isinstance(t, ast.Name):
            env[t.id] = v
        elif isinstance(t, ast.Attribute) and isinstance(t.value, ast.Name) and self._is_self(t.value.id, env):
            self.selfref.attrs[t.attr] = v
        elif isinstance(t, (ast.Tuple, ast.List)):
            vs = list(v) if isinstance(v, (tuple, list)) else None
            if vs is None or len(vs) != len(t.elts):
                raise EvalUnsupported("unpack")
            for e, x in zip(t.elts, vs):
                self.store(e, x, env)
        else:
            raise EvalUnsupported(f"store target {src(t)}")

    def _is_self(self, name, env):
        try:
            return self.lookup(name, env) is self.selfref
        except EvalUnsupported:
            return False

    @staticmethod
    def truth(v):
        if v is None or isinstance(v, (bool, int, float)):
            return bool(v)
        if isinstance(v, (SelfRef, Closure)):
            return True
        raise EvalUnsupported("truth of opaque value")

    @staticmethod
    def arith(op, a, b):
        if not all(isinstance(x, (int, float)) and not isinstance(x, bool) for x in (a, b)):
            raise EvalUnsupported("arithmetic on non-number")
        try:
            return op(a, b)
        except (ZeroDivisionError, OverflowError, ValueError) as e:
            raise EvalUnsupported(f"arithmetic error {e}")

    # -- expressions
    def expr(self, e, env):
        self.budget -= 1
        if self.budget < 0:
            raise EvalUnsupported("budget exhausted")
        if isinstance(e, ast.Constant):
            if e.value is None or isinstance(e.value, (bool, int, float, str)):
                return e.value
            raise EvalUnsupported("constant kind")
        if isinstance(e, ast.Name):
            return self.lookup(e.id, env)
        if isinstance(e, ast.Attribute):
            base = self.expr(e.value, env)
            if base is self.selfref:
                if e.attr not in self.selfref.attrs:
                    raise EvalUnsupported(f"receiver attribute {e.attr} not modelled")
                return self.selfref.attrs[e.attr]
            raise EvalUnsupported(f"attribute {src(e)}")
        if isinstance(e, ast.BinOp):
            op = _BINOPS.get(type(e.op))
            if op is None:
                raise EvalUnsupported("binop")
            return self.arith(op, self.expr(e.left, env), self.expr(e.right, env))
        if isinstance(e, ast.UnaryOp):
            v = self.expr(e.operand, env)
            if isinstance(e.op, ast.Not):
                return not self.truth(v)
            if isinstance(e.op, ast.USub) and isinstance(v, (int, float)):
                return -v
            if isinstance(e.op, ast.UAdd) and isinstance(v, (int, float)):
                return +v
            raise EvalUnsupported("unary")
        if isinstance(e, ast.BoolOp):
            v = None
            for sub in e.values:
                v = self.expr(sub, env)
                t = self.truth(v)
                if isinstance(e.op, ast.And) and not t:
                    return v
                if isinstance(e.op, ast.Or) and t:
                    return v
            return v
        if isinstance(e, ast.IfExp):
            return self.expr(e.body if self.truth(self.expr(e.test, env)) else e.orelse, env)
        if isinstance(e, ast.Compare):
            left = self.expr(e.left, env)
            for op, right in zip(e.ops, e.comparators):
                r = self.expr(right, env)
                f = _CMPOPS.get(type(op))
                if f is None:
                    raise EvalUnsupported("compare op")
                if type(op) in (ast.Lt, ast.LtE, ast.Gt, ast.GtE) and not all(isinstance(x, (int, float)) for x in (left, r)):
                    raise EvalUnsupported("ordering of non-numbers")
                if not f(left, r):
                    return False
                left = r
            return True
        if isinstance(e, ast.Tuple):
            return tuple(self.expr(x, env) for x in e.elts)
        if isinstance(e, ast.Call):
            return self.call(e, env)
        raise EvalUnsupported(f"expression {type(e).__name__}")

    def call(self, e: ast.Call, env):
        name = dotted(e.func)
        if any(isinstance(a, ast.Starred) for a in e.args) or any(k.arg is None for k in e.keywords):
            raise EvalUnsupported("star-args")
        # normalise the receiver spelling: a local alias of the receiver reads as "self"
        if name and "." in name:
            head, rest = name.split(".", 1)
            if self._is_self(head, env):
                name = "self." + rest
        if name in ("cast", "typing.cast") and len(e.args) == 2 and not e.keywords:
            return self.expr(e.args[1], env)
        args = [self.expr(a, env) for a in e.args]
        kwargs = {k.arg: self.expr(k.value, env) for k in e.keywords}
        if name in self.hooks:
            return self.hooks[name](*args, **kwargs)
        if isinstance(e.func, ast.Name):
            try:
                target = self.lookup(e.func.id, env)
            except EvalUnsupported:
                target = None
            if isinstance(target, Closure):
                if kwargs:
                    raise EvalUnsupported("kwargs to closure")
                return self.call_function(target.func, args, outer=target.env)
        if name and name.startswith("self.") and name.count(".") == 1 and name[5:] in self.methods:
            if kwargs:
                raise EvalUnsupported("kwargs to method")
            return self.call_function(self.methods[name[5:]], args, outer=None, bind_self=True)
        if name in _BUILTINS and not kwargs:
            if not all(isinstance(a, (int, float)) for a in args):
                raise EvalUnsupported("builtin on non-number")
            try:
                return _BUILTINS[name](*args)
            except Exception as ex:
                raise EvalUnsupported(f"builtin error {ex}")
        raise EvalUnsupported(f"call {name or src(e.func)}")
