"""C48 - HTTP Digest credentials verify exactly the right responses."""
from __future__ import annotations

import ast
import re

from sa.astx import NotConst, call_attr, call_name, const_eval, dotted, lincmp, src, walk_local
from sa.selftest import Mutant, Silent
from sa.source import AnalysisError, class_assigns
from sa.props._lib_j import (all_paths, asserted_eq, asserted_in, bind_args, catching_handler, clone, edge_asserts,
    handler_names, leaf_values, names_loaded, MiniStop, mini_call, body_always_entered, dep, normalise, run_sections, node_calls, normal_exits, params, resolve, rsrc, taint)

PROPERTY = "C48"
CRED = "cred/credentials.py"
DIGEST = "cred/_digest.py"
WEB = "web/_auth/digest.py"
QF = "twisted.cred.credentials.DigestCredentialFactory"
QC = "twisted.cred.credentials.DigestedCredentials"
TECHNIQUE = "CFG dominance, exception-escape, provenance, table agreement; exhaustive classes; bounded clock grid"
EXPLANATION = (
    "Decides on the CFG of DigestCredentialFactory._verifyOpaque/decode: every normal exit is dominated by the nonce, "
    "client-address, lifetime (exact boundary `now - when > LIFETIME`) and keyed-digest (key + privateKey) guards, every "
    "explicit raise is LoginFailed, every client-data operation that can raise (b64decode, int, nativeString, constant "
    "indexing of split results, regex-group unpacking) is converted to LoginFailed or proven in range; decode returns "
    "credentials only after _verifyOpaque(opaque, nonce, host) and the presence guards; _generateOpaque and _verifyOpaque "
    "agree on separators, field order, base64 pair and digest expression; the web wrapper uses the same client-address "
    "expression for challenge and verification; checkPassword/checkHash compare the response field with calcResponse over "
    "the right fields, and the m.update() sequences of calcHA1/calcHA2/calcResponse equal RFC 2617 on every path. "
    "Not decided: the hash arithmetic itself, conditional TypeErrors of checkPassword (md5-sess without cnonce, "
    "qop=auth-int); the unconditional ones (unknown algorithm, missing uri) are reported as known findings. "
    "The pair (issue time written by _generateOpaque, age test of _verifyOpaque) is evaluated over fractional clock phases and ages around the boundary: the stamp "
    "must be the floor of the clock and the accepted (issue, verify) instants must equal int(t') - int(t) <= LIFETIME (real age of an accepted challenge < LIFETIME + 1 s). "
    "The values stored in the field dict are the regex groups of the response verbatim (only `or` between groups and .strip()): provenance rule, no rewriting between parse and hash. "
    "Also decided: no anchor on the decode->guards path (nor the clock, nonce and opaque generators) carries a decorator, second definition or rebinding that could answer a call without executing the body (memoisation of a verdict that depends on the clock); the pure _digest helpers may be cached. "
    "Methods: all clauses are decided structurally (for every input / path) except the evaluated ones: the RFC 2617 hash inputs have a structural CFG-path rule that applies when the "
    "hashing is written as straight-line update() calls and abstains (noted) otherwise, plus rfc2617/evaluated-digests, which interprets calcHA1/calcHA2/calcResponse with a recording "
    "hash object on one value per class of arguments they can distinguish (finite-exhaustive under the side condition, checked on the code, that arguments are only compared with "
    "constants / None / by truthiness; else reported as bounded '...-sampled'); separator-vs-alphabet and client-address agreement are finite-exhaustive (whole codec alphabet; one address per class the code distinguishes, side condition checked - else the rule is reported as bounded '...-sampled'); the clock grid (lifetime/issue-time-is-floor-of-clock, lifetime/accepted-instants-equal-spec) is bounded evidence layered under the structural deciders verify/guard-lifetime (normalised boundary) and lifetime/stamp-conversion-is-floor / verifier-clock-is-floor (floor of the bare clock call). "
)
RULE_KINDS = {
    "*": "structural",                                            # CFG dominance / must-pass, exception-escape with handler families, provenance of arguments,
                                                                  # generator<->verifier table agreement, CFG-path enumeration of the m.update sequences, decorator allow-list
    "agreement/separator-outside-alphabet": "finite-exhaustive",  # the separator against EVERY byte the codec + hexlify can emit (frozen codec alphabets)
    "agreement/client-address-normalisation": "finite-exhaustive",  # one value per class the code can distinguish (side condition checked on the code)
    "agreement/client-address-normalisation-sampled": "bounded",  # same comparison when the side condition does not hold
    "rfc2617/evaluated-digests": "finite-exhaustive",             # interpreted on one value per class the functions can distinguish (side condition checked)
    "rfc2617/evaluated-digests-sampled": "bounded",
    "lifetime/issue-time-is-floor-of-clock": "bounded",           # second layer under lifetime/stamp-conversion-is-floor
    "lifetime/accepted-instants-equal-spec": "bounded",           # second layer under verify/guard-lifetime + lifetime/*-is-floor
}
ASSUMPTIONS = [
    "the rules read a normalised view of the anchored modules (sa/props/_lib_j.Normaliser): private helpers expanded at their call sites, module constants and single-assignment pure temporaries substituted, loops over constant tuples unrolled; evaluation order inside one statement is not modelled",
   
    "host / method arguments of decode come from the server side (not client-controlled)",
    "split/strip/join/findall/get/hexlify/md5 do not raise on bytes input",
    "base64.b64decode raises only binascii.Error (a ValueError) on bytes input; int() only ValueError; nativeString only UnicodeError",
]

DECODERS = {"b64decode": "b64encode", "urlsafe_b64decode": "urlsafe_b64encode", "standard_b64decode": "standard_b64encode",
            "b32decode": "b32encode", "b16decode": "b16encode", "unhexlify": "hexlify", "a2b_base64": "b2a_base64"}
ENC_ALPHABET = {
    "b64encode": b"ABCDEFGHIJKLMNOPQRSTUVWXYZabcdefghijklmnopqrstuvwxyz0123456789+/=",
    "standard_b64encode": b"ABCDEFGHIJKLMNOPQRSTUVWXYZabcdefghijklmnopqrstuvwxyz0123456789+/=",
    "b2a_base64": b"ABCDEFGHIJKLMNOPQRSTUVWXYZabcdefghijklmnopqrstuvwxyz0123456789+/=\n",
    "urlsafe_b64encode": b"ABCDEFGHIJKLMNOPQRSTUVWXYZabcdefghijklmnopqrstuvwxyz0123456789-_=",
    "b32encode": b"ABCDEFGHIJKLMNOPQRSTUVWXYZ234567=", "b16encode": b"0123456789ABCDEF", "hexlify": b"0123456789abcdef",
}
HASHES = {"md5", "sha1", "sha256", "sha512", "sha224", "sha384", "new", "HMAC"}
# callee (last component) -> exception raised on hostile bytes
RAISERS = {"b64decode": "binascii.Error", "urlsafe_b64decode": "binascii.Error", "standard_b64decode": "binascii.Error",
           "a2b_base64": "binascii.Error", "unhexlify": "binascii.Error", "b16decode": "binascii.Error", "b32decode": "binascii.Error",
           "int": "ValueError", "float": "ValueError", "nativeString": "UnicodeDecodeError", "decode": "UnicodeDecodeError",
           "networkString": "UnicodeEncodeError", "encode": "UnicodeEncodeError"}


def _last(call):
    return call_attr(call)


def _m_split(e):
    """(receiver, separator bytes) of ``recv.split(<const>)``."""
    if isinstance(e, ast.Call) and isinstance(e.func, ast.Attribute) and e.func.attr == "split" and len(e.args) == 1 \
            and not e.keywords and isinstance(e.args[0], ast.Constant):
        return e.func.value, e.args[0].value
    return None


def _m_sub(e):
    if isinstance(e, ast.Subscript) and not isinstance(e.slice, ast.Slice):
        try:
            i = const_eval(e.slice)
        except NotConst:
            return None
        if isinstance(i, int) and not isinstance(i, bool):
            return e.value, i
    return None


def _m_join(e):
    """(separator, [elements]) of ``<const>.join((a, b, ...))``."""
    if isinstance(e, ast.Call) and isinstance(e.func, ast.Attribute) and e.func.attr == "join" and len(e.args) == 1 \
            and isinstance(e.func.value, ast.Constant) and isinstance(e.args[0], (ast.Tuple, ast.List)):
        return e.func.value.value, list(e.args[0].elts)
    return None


class _Abstract(ast.NodeTransformer):
    def __init__(self, pred, name):
        self.pred = pred
        self.name = name
        self.hits = 0

    def visit(self, node):
        if isinstance(node, ast.expr) and self.pred(node):
            self.hits += 1
            return ast.Name(id=self.name, ctx=ast.Load())
        return super().visit(node)


def _template(expr, pred, name="KEY"):
    a = _Abstract(pred, name)
    out = a.visit(clone(expr))
    return src(out), a.hits


def _keyed_hash(expr_text: str) -> bool:
    """The template hashes KEY together with self.privateKey inside one hash-constructor call."""
    try:
        tree = ast.parse(expr_text, mode="eval")
    except SyntaxError:
        return False
    for c in ast.walk(tree):
        if isinstance(c, ast.Call) and call_attr(c) in HASHES:
            inner = " ".join(src(a) for a in list(c.args) + [k.value for k in c.keywords])
            if "KEY" in names_loaded(c) and "self.privateKey" in inner:
                return True
    return False


# ------------------------------------------------------------------------------------------------------

def _generator(ctx):
    """Shape of _generateOpaque: separators, positions, field order, encoder, digest template."""
    f = ctx.func(CRED, "DigestCredentialFactory._generateOpaque")
    q = QF + "._generateOpaque"
    p = params(f)
    ctx.need(len(p) == 3, "_generateOpaque(self, nonce, clientip)")
    rets = [n for n in walk_local(f) if isinstance(n, ast.Return) and n.value is not None]
    ctx.need(len(rets) == 1, "single return in _generateOpaque")
    rv = resolve(rets[0].value, f)
    j = ctx.need(_m_join(rv), "_generateOpaque returns <sep>.join((digest, encodedKey))")
    sep1, elts = j
    enc = None
    for i, e in enumerate(elts):
        for c in ast.walk(e):
            if isinstance(c, ast.Call) and _last(c) in ENC_ALPHABET and _last(c) != "hexlify" and len(c.args) >= 1 and _m_join(c.args[0]):
                enc = (i, _last(c), c.args[0])
    ctx.need(enc, "an encoded key (b64encode(<sep>.join(fields))) in the opaque built by _generateOpaque")
    pos_key, encoder, keyexpr = enc
    ctx.need(len(elts) == 2, "opaque = two parts (digest, encoded key)")
    pos_digest = 1 - pos_key
    sep2, fields = _m_join(keyexpr)
    order = []
    for e in fields:
        if isinstance(e, ast.Name) and e.id == p[1]:
            order.append("nonce")
        elif isinstance(e, ast.Name) and e.id == p[2]:
            order.append("clientip")
        elif "_getTime" in src(e):
            order.append("time")
        else:
            order.append("?" + src(e))
    ktext = src(keyexpr)
    tmpl, hits = _template(elts[pos_digest], lambda n: src(n) == ktext)
    return {"func": f, "q": q, "sep1": sep1, "sep2": sep2, "pos_key": pos_key, "pos_digest": pos_digest, "encoder": encoder,
            "order": order, "digest_template": tmpl, "digest_hits": hits, "time_expr": next((src(e) for e in fields if "_getTime" in src(e)), ""),
            "time_ast": next((e for e in fields if "_getTime" in src(e)), None)}


def _escape_rules(ctx, rel, qual, q, seeds, count):
    """K9 specialised: every operation on client data that can raise is converted to LoginFailed."""
    f = ctx.func(rel, qual)
    g = ctx.cfg(f)
    tainted = taint(f, seeds)

    def converting(h, what, site):
        hn = [n.id for n in g.nodes if n.kind == "handler" and n.ast is h and g.reachable(n.id)]
        lf = g.ids(lambda n: n.kind == "stmt" and isinstance(n.ast, ast.Raise) and n.ast.exc is not None and "LoginFailed" in src(n.ast.exc))
        wit = g.must_pass(hn, lf, to={g.exit, g.raise_exit}, exc=False, strict=False) if hn else None
        ctx.check(bool(hn) and wit is None, "escape/handler-raises-LoginFailed", ctx.construct(q, f"except {', '.join(handler_names(h))} around {what}"),
                  f"the handler that receives the error of {what} does not end in `raise error.LoginFailed`: a malformed response is not "
                  f"rejected as a login failure", witness=g.describe(wit))

    # (1) explicit raises
    for n in walk_local(f):
        if isinstance(n, ast.Raise):
            # what is raised, through every definition of a local that carries it (`failure = error.LoginFailed(...); raise failure`)
            def is_lf(v):
                return (dotted(v.func if isinstance(v, ast.Call) else v) or "").split(".")[-1] == "LoginFailed"
            ok = n.exc is not None and all(is_lf(v) for v, _, _ in leaf_values(f, n.exc))
            label = n if (n.exc is None or not isinstance(n.exc, ast.Name)) else "raise <local bound to an exception>"
            ctx.check(ok, "escape/raises-only-LoginFailed", ctx.construct(q, label),
                      "a rejection path raises something other than error.LoginFailed")
            count["raise"] += 1
    # (2) raising library calls on client data
    for n in walk_local(f):
        if not isinstance(n, ast.Call):
            continue
        name = _last(n)
        if name not in RAISERS:
            continue
        operands = list(n.args) + [k.value for k in n.keywords]
        if isinstance(n.func, ast.Attribute) and name in ("decode", "encode"):
            operands = [n.func.value]
        if not any(names_loaded(o) & tainted for o in operands):
            continue
        exc = RAISERS[name]
        h = catching_handler(n, f, exc)
        count["raiser"] += 1
        what = src(n)
        generic = f"{name}(<client data>)"
        if not ctx.check(h is not None, "escape/converted", ctx.construct(q, generic),
                         f"{what} raises {exc} on a malformed value sent by the client and no enclosing handler converts it: "
                         f"decode() lets {exc} escape instead of LoginFailed"):
            continue
        converting(h, generic, n)
    # (3) constant indexing of split results
    for n in walk_local(f):
        m = _m_sub(n)
        if not m or not isinstance(n.ctx, ast.Load):
            continue
        base, idx = m
        if not (isinstance(base, ast.Name) and base.id in tainted):
            continue
        base_r = resolve(base, f)
        if not _m_split(base_r):
            continue
        base_t = src(base_r)
        count["index"] += 1
        need = idx + 1 if idx >= 0 else -idx
        ok = True
        for cn in g.ids_of(n):
            lb = 0
            for t, lab in edge_asserts(g, cn):
                t = resolve(t, f)
                eq = asserted_eq(t, lab)
                if eq:
                    for a, b in (eq, eq[::-1]):
                        if isinstance(a, ast.Call) and call_name(a) == "len" and a.args and src(a.args[0]) == base_t:
                            try:
                                lb = max(lb, int(const_eval(b)))
                            except (NotConst, TypeError, ValueError):
                                pass
                lc = lincmp(t, negate=(lab == "F"))
                if lc:
                    terms, c = lc
                    if dict(terms) == {f"len({base_t})": 1}:
                        lb = max(lb, c)
            if lb < need:
                ok = False
        ctx.check(ok, "escape/index-in-range", ctx.construct(q, n),
                  f"{src(n)} is evaluated without a dominating test that {base.id} has at least {need} parts: a short value raises IndexError")
    # (3b) tuple unpacking of split results:  a, b = parts  needs len(parts) == 2 exactly
    for n in walk_local(f):
        if not (isinstance(n, ast.Assign) and len(n.targets) == 1 and isinstance(n.targets[0], (ast.Tuple, ast.List)) and isinstance(n.value, ast.Name)
                and n.value.id in tainted and all(isinstance(e, ast.Name) for e in n.targets[0].elts)):
            continue
        base_r = resolve(n.value, f)
        if not _m_split(base_r):
            continue
        base_t = src(base_r)
        count["index"] += 1
        arity = len(n.targets[0].elts)
        ok = True
        for cn in [x.id for x in g.nodes if x.ast is n and g.reachable(x.id)]:
            exact = False
            for t, lab in edge_asserts(g, cn):
                eq = asserted_eq(resolve(t, f), lab)
                if eq:
                    for a, b in (eq, eq[::-1]):
                        if isinstance(a, ast.Call) and call_name(a) == "len" and a.args and src(a.args[0]) == base_t:
                            try:
                                exact = exact or int(const_eval(b)) == arity
                            except (NotConst, TypeError, ValueError):
                                pass
            ok = ok and exact
        ctx.check(ok, "escape/index-in-range", ctx.construct(q, f"{arity}-way unpacking of a split result"),
                  f"{src(n)} is executed without a dominating test that {n.value.id} has exactly {arity} parts: another count raises ValueError")
    return f, g, tainted


def field_of(e):
    """'x' when the (resolved) expression reads field x of a dict: d.get('x') / d['x']."""
    if isinstance(e, ast.Call) and isinstance(e.func, ast.Attribute) and e.func.attr == "get" and len(e.args) == 1 and isinstance(e.args[0], ast.Constant):
        return src(e.func.value), e.args[0].value
    if isinstance(e, ast.Subscript) and isinstance(e.slice, ast.Constant):
        return src(e.value), e.slice.value
    return None


def _count(S):
    return S.__dict__.setdefault("count", {"raise": 0, "raiser": 0, "index": 0})


def _s_generator(ctx, S):
    S.gen = _generator(ctx)


_DEFAULT_GEN = {"order": ["nonce", "clientip", "time"], "q": QF + "._generateOpaque", "unreadable": True}


def _s_verify(ctx, S):
    # ================= _verifyOpaque =================================================================
    count = _count(S)
    cls = ctx.cls(CRED, "DigestCredentialFactory")
    gen = S.gen or _DEFAULT_GEN      # field order of today's generator when the generator itself is unreadable
    qv = QF + "._verifyOpaque"
    fv, gv, _ = _escape_rules(ctx, CRED, "DigestCredentialFactory._verifyOpaque", qv,
                               params(ctx.func(CRED, "DigestCredentialFactory._verifyOpaque"))[1:3], count)
    pv = params(fv)
    ctx.need(len(pv) == 4, "_verifyOpaque(self, opaque, nonce, clientip)")
    P_OPAQUE, P_NONCE, P_IP = pv[1:]
    seen = {}

    def is_OP(e):
        m = _m_split(e)
        if m and isinstance(m[0], ast.Name) and m[0].id == P_OPAQUE:
            seen["sep1"] = m[1]
            return True
        return False

    def is_KEY(e):
        if isinstance(e, ast.Call) and _last(e) in DECODERS and e.args:
            m = _m_sub(e.args[0])
            if m and is_OP(m[0]):
                seen["decoder"] = _last(e)
                seen["pos_key"] = m[1]
                return True
        return False

    def is_KP(e):
        m = _m_split(e)
        if m and is_KEY(m[0]):
            seen["sep2"] = m[1]
            return True
        return False

    def kp_index(e):
        m = _m_sub(e)
        return m[1] if m and is_KP(m[0]) else None

    R = lambda e: resolve(e, fv)
    exits = normal_exits(gv)
    if not exits:
        ctx.violation("verify/returns-true", qv, "_verifyOpaque has no normal exit: no response - however well-formed - can ever be accepted")
    L = None
    try:
        L = const_eval(class_assigns(cls)["CHALLENGE_LIFETIME_SECS"])
    except (KeyError, NotConst):
        pass
    idx_nonce = gen["order"].index("nonce") if "nonce" in gen["order"] else None
    idx_ip = gen["order"].index("clientip") if "clientip" in gen["order"] else None
    idx_time = gen["order"].index("time") if "time" in gen["order"] else None
    ctx.check(None not in (idx_nonce, idx_ip, idx_time) and len(gen["order"]) == 3, "agreement/opaque-fields", gen["q"] + " | key fields",
              f"the opaque key built by _generateOpaque does not consist of (nonce, client address, time): {gen['order']}")

    ver_digest_tmpl = None
    for x in exits:
        node = gv.node(x)
        asserts = [(R(t), lab, t) for t, lab in edge_asserts(gv, x)]
        found = {"nonce": False, "clientip": False, "lifetime": None, "digest": False}
        for rt, lab, orig in asserts:
            eq = asserted_eq(rt, lab)
            if eq:
                for a, b in (eq, eq[::-1]):
                    i = kp_index(a)
                    if i is not None and isinstance(b, ast.Name):
                        if b.id == P_NONCE and i == idx_nonce:
                            found["nonce"] = True
                        if b.id == P_IP and i == idx_ip:
                            found["clientip"] = True
                    m = _m_sub(b)
                    if m and is_OP(m[0]):
                        tmpl, hits = _template(a, is_KEY)
                        if hits and _keyed_hash(tmpl):
                            found["digest"] = True
                            seen["pos_digest"] = m[1]
                            ver_digest_tmpl = tmpl
            lc = lincmp(rt, negate=(lab == "T"))  # normal form of the REJECT condition
            if lc:
                terms, c = lc
                terms = dict(terms)
                now = [k for k, v in terms.items() if "_getTime" in k and v == 1]
                lim = [k for k, v in terms.items() if k.endswith("CHALLENGE_LIFETIME_SECS") and v == -1]
                whens = []
                for k, v in terms.items():
                    if v == -1 and k not in lim:
                        try:
                            e = ast.parse(k, mode="eval").body
                        except SyntaxError:
                            continue
                        if isinstance(e, ast.Call) and call_name(e) == "int" and e.args and kp_index(e.args[0]) == idx_time:
                            whens.append(k)
                if now and whens and len(terms) == len(now[:1]) + len(whens[:1]) + len(lim[:1]):
                    bound = c if lim else (c - L if L is not None else None)
                    found["lifetime"] = bound
                    a_ = _Abstract(lambda n_: kp_index(n_) == idx_time, "STAMP")
                    S.__dict__.setdefault("lifetime_tests", []).append((a_.visit(clone(rt)), lab, src(orig)))
        where = ctx.construct(qv, node.ast) if node.ast is not None else qv + " | <end of function>"
        ctx.check(found["nonce"], "verify/guard-nonce", where,
                  "verification succeeds without the nonce embedded in the opaque being compared with the nonce of the response "
                  "(an opaque issued for another challenge is accepted)")
        ctx.check(found["clientip"], "verify/guard-client-address", where,
                  "verification succeeds without the client address embedded in the opaque being compared with the requesting "
                  "address (a challenge issued to another client is accepted)")
        ctx.check(found["digest"], "verify/guard-keyed-digest", where,
                  "verification succeeds without comparing md5(key + privateKey) with the digest part of the opaque (a forged or "
                  "altered opaque is accepted)")
        if found["lifetime"] is None:
            ctx.violation("verify/guard-lifetime", where, "verification succeeds without the challenge age being tested against CHALLENGE_LIFETIME_SECS "
                          "(an expired challenge is accepted)")
        else:
            ctx.check(found["lifetime"] == 1, "verify/guard-lifetime", where,
                      f"the lifetime test rejects iff now - when >= LIFETIME + {found['lifetime']}; the property requires rejection iff "
                      f"now - when > LIFETIME (a response exactly at the lifetime is "
                      f"{'rejected' if found['lifetime'] < 1 else 'accepted beyond it'})")
        if isinstance(node.ast, ast.Return):
            try:
                truthy = node.ast.value is not None and bool(const_eval(node.ast.value))
            except NotConst:
                truthy = True
            ctx.check(truthy, "verify/returns-true", where, "_verifyOpaque returns a false value after successful verification: decode() then "
                      "returns None instead of credentials")
        else:
            ctx.violation("verify/returns-true", where, "_verifyOpaque can fall off its end (returns None): decode() then returns None")

    S.fv, S.P_IP, S.seen, S.ver_digest_tmpl = fv, P_IP, seen, ver_digest_tmpl


def _s_agreement(ctx, S):
    # ================= generator / verifier agreement =================================================
    gen, fv, P_IP, seen, ver_digest_tmpl = dep(S.gen, "_generateOpaque"), dep(S.fv, "_verifyOpaque"), S.P_IP, S.seen, S.ver_digest_tmpl
    qa = QF + "._generateOpaque/_verifyOpaque"
    if "sep1" in seen:
        ctx.check(seen["sep1"] == gen["sep1"], "agreement/opaque-separator", qa + " | digest/key separator",
                  f"_generateOpaque joins digest and key with {gen['sep1']!r} but _verifyOpaque splits on {seen.get('sep1')!r}")
    if "sep2" in seen:
        ctx.check(seen["sep2"] == gen["sep2"], "agreement/key-separator", qa + " | key field separator",
                  f"_generateOpaque joins the key fields with {gen['sep2']!r} but _verifyOpaque splits on {seen.get('sep2')!r}")
    if "pos_key" in seen:
        ctx.check(seen["pos_key"] == gen["pos_key"] and seen.get("pos_digest", gen["pos_digest"]) == gen["pos_digest"],
                  "agreement/opaque-part-order", qa + " | (digest, key) order",
                  "the verifier reads digest / encoded key from different positions of the opaque than the generator writes them")
    if "decoder" in seen:
        ctx.check(DECODERS[seen["decoder"]] == gen["encoder"], "agreement/key-codec", qa + " | key encoding",
                  f"key is encoded with {gen['encoder']} but decoded with {seen['decoder']}")
    alpha = ENC_ALPHABET[gen["encoder"]] + ENC_ALPHABET["hexlify"]
    ctx.check(isinstance(gen["sep1"], bytes) and len(gen["sep1"]) == 1 and gen["sep1"] not in alpha, "agreement/separator-outside-alphabet",
              gen["q"] + " | digest/key separator",
              f"the separator {gen['sep1']!r} can occur inside the {gen['encoder']} output: some genuine opaques split into more than two "
              f"parts and are rejected (or parsed at the wrong place)")
    if ver_digest_tmpl is not None:
        ctx.check(ver_digest_tmpl == gen["digest_template"] and gen["digest_hits"] >= 1, "agreement/digest-expression", qa + " | keyed digest",
                  f"generator computes {gen['digest_template']} but verifier compares {ver_digest_tmpl}")
    # same normalisation of the client address in both: the statements that (re)bind it are interpreted over a small domain and the OUTPUTS compared
    domain = [None, "", b"", "10.0.0.1", b"10.0.0.1"]
    try:
        ng = [_run_tracked(gen["func"], params(gen["func"])[2], v) for v in domain]
        nv = [_run_tracked(fv, P_IP, v) for v in domain]
    except NotConst as e:
        raise AnalysisError(f"client-address normalisation not evaluable: {e}")
    diff = [(v, a, b) for v, a, b in zip(domain, ng, nv) if a != b or type(a) is not type(b)]
    # domain argument, checked on the code: both functions look at the address only through its truthiness / `is None` / isinstance(., str|bytes) and rebind it
    # only to a constant, to itself or to itself.encode/decode(<const>).  Then the five values - None, "", b"", a non-empty str, a non-empty bytes - are one
    # representative of every class the code can distinguish and the comparison is exhaustive; otherwise it is a sample.
    complete = _ip_tests_are_class_tests(gen["func"], params(gen["func"])[2]) and _ip_tests_are_class_tests(fv, P_IP)
    rname = "agreement/client-address-normalisation" if complete else "agreement/client-address-normalisation-sampled"
    ctx.check(not diff, rname, qa + " | clientip normalisation",
              f"the client address is normalised differently when the opaque is generated and when it is verified: "
              f"{'; '.join(f'{v!r} -> {a!r} vs {b!r}' for v, a, b in diff[:3])} - a genuine response from such a client is refused",
              detail="finite-exhaustive: the address is inspected only by truthiness / None-ness / isinstance(str|bytes); {None, '', b'', str, bytes} has one value per class"
              if complete else "bounded: 5 sample addresses (the code inspects the address in ways not reducible to type/emptiness classes)")
    ctx.check(all(isinstance(x, bytes) for x in ng), rname, gen["q"] + " | clientip is bytes",
              f"the normalised client address is not always bytes ({ng}): joining the key fields raises TypeError")


def _s_decode(ctx, S):
    # ================= decode =========================================================================
    count = _count(S)
    cls = ctx.cls(CRED, "DigestCredentialFactory")
    qd = QF + ".decode"
    fd, gd, tainted_d = _escape_rules(ctx, CRED, "DigestCredentialFactory.decode", qd, params(ctx.func(CRED, "DigestCredentialFactory.decode"))[1:2], count)
    pd = params(fd)
    ctx.need(len(pd) == 4, "decode(self, response, method, host)")
    Rd = lambda e: resolve(e, fd)
    # the field values kept for the hash computation are the bytes the client sent: what is stored in the field dict is a regex group of the response (or the first
    # non-empty of several groups), at most stripped of surrounding whitespace - nothing is unescaped, replaced, re-coded or case-folded between parse and fields
    group_names = set()
    for n in walk_local(fd):
        if isinstance(n, ast.For) and "_parseparts" in rsrc(n.iter, fd):
            group_names |= {e.id for e in ast.walk(n.target) if isinstance(e, ast.Name)}
    stores = [n for n in walk_local(fd) if isinstance(n, ast.Assign) and any(isinstance(t, ast.Subscript) and isinstance(t.value, ast.Name) for t in n.targets)]

    def verbatim(e):
        """None when e is built from regex groups by `or` / parentheses / .strip() only, else the offending sub-expression"""
        if isinstance(e, ast.Name):
            return None if e.id in group_names else e
        if isinstance(e, ast.BoolOp) and isinstance(e.op, ast.Or):
            return next((b for b in (verbatim(v) for v in e.values) if b is not None), None)
        if isinstance(e, ast.IfExp):
            return verbatim(e.body) or verbatim(e.orelse)
        if isinstance(e, ast.Call) and isinstance(e.func, ast.Attribute) and e.func.attr == "strip" and not e.args and not e.keywords:
            return verbatim(e.func.value)
        return e
    nstores = 0
    if group_names:
        for st_ in stores:
            for v_, _, _ in leaf_values(fd, st_.value):
                nstores += 1
                bad_ = verbatim(v_)
                ctx.check(bad_ is None, "decode/field-values-verbatim", ctx.construct(qd, "<fields>[<name>] = <value>"),
                          f"the value stored for a response field is rewritten between parsing and the credentials ({src(bad_) if bad_ is not None else ''}): the server then "
                          f"hashes other bytes than the client did, so a response computed with the right password (e.g. a quoted value containing a backslash) is rejected "
                          f"- or two different field values become indistinguishable")
    if not nstores:
        ctx.note("decode/field-values-verbatim: no `<fields>[<name>] = <value>` over the regex groups recognised, clause not decided")
    # regex arity == unpack arity
    pat = class_assigns(cls).get("_parseparts")
    for n in walk_local(fd):
        if isinstance(n, ast.For) and isinstance(n.target, (ast.Tuple, ast.List)) and "_parseparts" in rsrc(n.iter, fd):
            ok = False
            groups = None
            if isinstance(pat, ast.Call) and pat.args:
                try:
                    groups = re.compile(const_eval(pat.args[0])).groups
                    ok = groups == len(n.target.elts)
                except (NotConst, re.error):
                    groups = None
            ctx.need(groups is not None, "constant pattern in DigestCredentialFactory._parseparts")
            ctx.check(ok, "escape/regex-arity", ctx.construct(qd, "for <groups> in _parseparts.findall(response)"),
                      f"_parseparts has {groups} groups but the loop unpacks {len(n.target.elts)}: every response raises ValueError")

    vcalls = node_calls(gd, lambda c: call_name(c) == "self._verifyOpaque")
    ctx.check(bool(vcalls), "decode/verifies-opaque", qd, "decode() never calls self._verifyOpaque")
    rets = [x for x in normal_exits(gd) if isinstance(gd.node(x).ast, ast.Return) and gd.node(x).ast.value is not None
            and not (isinstance(gd.node(x).ast.value, ast.Constant) and gd.node(x).ast.value.value is None)]
    ctx.check(bool(rets), "decode/returns-credentials", qd, "decode() never returns credentials: a response computed with the right password over an "
              "unaltered, fresh challenge is not accepted")
    authdict = None
    for nid, c in vcalls:
        a = [Rd(x) for x in c.args]
        fo = [field_of(x) for x in a[:2]]
        ok = len(a) == 3 and not c.keywords and fo[0] and fo[1] and fo[0][1] == "opaque" and fo[1][1] == "nonce" and fo[0][0] == fo[1][0] \
            and isinstance(c.args[2], ast.Name) and c.args[2].id == pd[3]
        if ok:
            authdict = fo[0][0]
        ctx.check(ok, "decode/verify-args", ctx.construct(qd, "self._verifyOpaque(<opaque>, <nonce>, <host>)"),
                  f"_verifyOpaque is not called with (the response's opaque, the response's nonce, the requesting host): {src(c)}")
    for x in rets:
        rn = gd.node(x)
        where = ctx.construct(qd, "return <credentials>")
        dom = [nid for nid, c in vcalls if nid != x and gd.dominates(nid, x)
               and (gd.node(nid).kind != "test" or any(t == nid and lab == "T" for t, lab in gd.edge_guards(x)))]
        ctx.check(bool(dom), "decode/returns-only-verified", where,
                  "decode() can return credentials on a path on which _verifyOpaque was not called / did not succeed")
        present = set()
        for t, lab in edge_asserts(gd, x):
            ai = asserted_in(t, lab)
            if ai and isinstance(ai[0], ast.Constant):
                present.add(ai[0].value)
            if lab == "T":
                fo = field_of(Rd(t))
                if fo:
                    present.add(fo[1])
        # what every decoded credential is guaranteed to carry (the check-never-raises rules of checkPassword/checkHash build on it):
        # fields proven present, and the (defaulted, lower-cased) algorithm proven to be a key of _digest.algorithms
        algo_checked = None
        for t, lab in edge_asserts(gd, x):
            ai = asserted_in(Rd(t), lab)
            if ai and isinstance(ai[1], ast.Name) and ai[1].id == "algorithms" and authdict:
                algo_checked = src(ai[0]).replace(authdict, "FIELDS")
        S.__dict__.setdefault("decode_present", []).append(set(present))
        S.__dict__.setdefault("decode_algorithm", []).append(algo_checked)
        for fld in ("username", "opaque", "nonce"):
            ctx.check(fld in present, "decode/requires-field", ctx.construct(qd, f"field {fld!r}"),
                      f"decode() returns credentials for a response without a (non-empty) {fld!r} field")
        # constructor arguments
        v = rn.ast.value
        ok = isinstance(v, ast.Call) and (call_attr(v) == "DigestedCredentials") and len(v.args) == 4
        if ok:
            a0 = field_of(Rd(v.args[0]))
            ok = bool(a0) and a0[1] == "username" and src(v.args[1]) == pd[2] and src(v.args[2]) == "self.authenticationRealm" \
                and (authdict is None or src(v.args[3]) == authdict or src(Rd(v.args[3])) == authdict)
        ctx.check(ok, "decode/credential-args", where,
                  "DigestedCredentials is not built from (verified username, request method, realm, the verified field dict)")



def _s_challenge(ctx, S):
    # ================= getChallenge + web wrapper ======================================================
    fc = ctx.func(CRED, "DigestCredentialFactory.getChallenge")
    qc = QF + ".getChallenge"
    pc = params(fc)
    ok = False
    for n in walk_local(fc):
        if isinstance(n, ast.Return) and isinstance(n.value, ast.Dict):
            d = {k.value: v for k, v in zip(n.value.keys, n.value.values) if isinstance(k, ast.Constant)}
            if "nonce" in d and "opaque" in d:
                o = resolve(d["opaque"], fc, keep=[src(d["nonce"])] if isinstance(d["nonce"], ast.Name) else [])
                ok = isinstance(o, ast.Call) and call_name(o) == "self._generateOpaque" and len(o.args) == 2 \
                    and src(o.args[0]) == src(d["nonce"]) and src(o.args[1]) == pc[1] \
                    and "_generateNonce" in rsrc(d["nonce"], fc)
    ctx.check(ok, "challenge/opaque-bound-to-nonce", qc,
              "the opaque of a challenge is not generated from the very nonce returned in that challenge and the client's address")
    fn = ctx.func(CRED, "DigestCredentialFactory._generateNonce")
    ctx.check("secureRandom" in src(fn), "challenge/nonce-random", QF + "._generateNonce", "the nonce is no longer drawn from secureRandom")

    wc = ctx.func(WEB, "DigestCredentialFactory.getChallenge")
    wd = ctx.func(WEB, "DigestCredentialFactory.decode")
    qw = "twisted.web._auth.digest.DigestCredentialFactory"
    addr_c = [c.args[0] for c in ast.walk(wc) if isinstance(c, ast.Call) and call_attr(c) == "getChallenge" and c.args]
    dec = [c for c in ast.walk(wd) if isinstance(c, ast.Call) and call_attr(c) == "decode" and len(c.args) == 3]
    if not (addr_c and dec):
        ctx.violation("web/address-paired", qw + " | client address", "the web wrapper does not delegate getChallenge(<client address>) / "
                      "decode(response, method, <client address>) to the cred factory: challenge and verification are not bound to one address")
        return
    pw = params(wd)
    a = rsrc(addr_c[0], wc).replace(params(wc)[1], "REQ")
    b = rsrc(dec[0].args[2], wd).replace(pw[2], "REQ")
    ctx.check(a == b and "getClientAddress" in a, "web/address-paired", qw + " | client address",
              f"the address a challenge is bound to ({a}) differs from the address used to verify the response ({b})")
    ctx.check(src(dec[0].args[0]) == pw[1] and rsrc(dec[0].args[1], wd) == pw[2] + ".method", "web/decode-args", qw + ".decode",
              "the web wrapper does not pass (response, request.method, client address) to the cred factory")



def _s_response(ctx, S):
    # ================= checkPassword / checkHash =======================================================
    dmod = ctx.mod(DIGEST)
    callees = {n: ctx.func(DIGEST, n) for n in ("calcHA1", "calcHA2", "calcResponse")}
    # fields every decoded credential carries: proven in decode() on every returning path (fallback when decode was unreadable: the three it must require)
    decode_guaranteed = set.intersection(*S.decode_present) if S.decode_present else {"username", "opaque", "nonce"}
    imported = any(isinstance(n, ast.ImportFrom) and (n.module or "").endswith("_digest") and any((a.asname or a.name) == "algorithms" and a.name == "algorithms" for a in n.names)
                   for n in ast.walk(ctx.mod(CRED).tree))
    decode_algos = set(S.decode_algorithm or [None]) if imported else {None}

    def F(name):
        return f"self.fields.get('{name}')"
    ALGO = "self.fields.get('algorithm', b'md5').lower()"
    QOP = "self.fields.get('qop', b'auth')"
    for meth, ha1_expect in (("checkPassword", None), ("checkHash", None)):
        fm = ctx.func(CRED, "DigestedCredentials." + meth)
        gm = ctx.cfg(fm)
        qm = QC + "." + meth
        secret = params(fm)[1]
        Rm = lambda e: resolve(e, fm)
        rets = [n for n in walk_local(fm) if isinstance(n, ast.Return)]
        if not rets:
            ctx.violation("response/compared-with-expected", ctx.construct(qm, "return <expected == response>"), f"{meth} returns nothing (None): no password is ever accepted")
            continue
        for r in rets:
            v = r.value
            sides = None
            if isinstance(v, ast.Compare) and len(v.ops) == 1 and isinstance(v.ops[0], ast.Eq):
                l, rr = Rm(v.left), Rm(v.comparators[0])
                for x, y in ((l, rr), (rr, l)):
                    if isinstance(x, ast.Call) and call_attr(x) == "calcResponse" and src(y) == F("response"):
                        sides = x
            if not ctx.check(sides is not None, "response/compared-with-expected", ctx.construct(qm, "return <expected == response>"),
                             f"{meth} does not return `calcResponse(...) == self.fields.get('response')`: {src(v)}"):
                continue
            b = {k: src(x) for k, x in bind_args(sides, callees["calcResponse"]).items()}
            want = {"algo": ALGO, "pszNonce": F("nonce"), "pszNonceCount": F("nc"), "pszCNonce": F("cnonce"), "pszQop": QOP}
            bad = [k for k, w in want.items() if b.get(k) != w]
            h1 = bind_args(sides, callees["calcResponse"]).get("HA1")
            h2 = bind_args(sides, callees["calcResponse"]).get("HA2")
            if isinstance(h1, ast.Call) and call_attr(h1) == "calcHA1":
                b1 = {k: src(x) for k, x in bind_args(h1, callees["calcHA1"]).items()}
                if meth == "checkPassword":
                    want1 = {"pszAlg": ALGO, "pszUserName": "self.username", "pszRealm": "self.realm", "pszPassword": secret,
                             "pszNonce": F("nonce"), "pszCNonce": F("cnonce")}
                else:
                    want1 = {"pszAlg": ALGO, "pszUserName": "None", "pszRealm": "None", "pszPassword": "None",
                             "pszNonce": F("nonce"), "pszCNonce": F("cnonce"), "preHA1": secret}
                bad += ["HA1." + k for k, w in want1.items() if b1.get(k) != w]
            else:
                bad.append("HA1")
            if isinstance(h2, ast.Call) and call_attr(h2) == "calcHA2":
                b2 = {k: src(x) for k, x in bind_args(h2, callees["calcHA2"]).items()}
                want2 = {"algo": ALGO, "pszMethod": "self.method", "pszDigestUri": F("uri"), "pszQop": QOP}
                bad += ["HA2." + k for k, w in want2.items() if b2.get(k) != w]
            else:
                bad.append("HA2")
            ctx.check(not bad, "response/field-slots", ctx.construct(qm, "calcResponse(<fields>)"),
                      f"the expected response is computed from the wrong inputs in slot(s) {bad}: a right password is refused or a "
                      f"response for other parameters is accepted")
            # ---- "never another exception": unconditional raisers on client-chosen fields (known findings)
            allcalls = [(sides, "calcResponse")] + ([(h1, "calcHA1")] if isinstance(h1, ast.Call) else []) + ([(h2, "calcHA2")] if isinstance(h2, ast.Call) else [])
            algo_sites, none_sites = [], []
            for call, cname in allcalls:
                cal = callees.get(cname)
                if cal is None:
                    continue
                gc_ = ctx.cfg(cal)
                bound = bind_args(call, cal)
                for pname, arg in bound.items():
                    client = "self.fields" in src(arg)
                    if not client:
                        continue
                    # table lookups keyed by the parameter
                    for s in walk_local(cal):
                        if isinstance(s, ast.Subscript) and isinstance(s.value, ast.Name) and dmod.module_assign(s.value.id) is not None \
                                and isinstance(dmod.module_assign(s.value.id), ast.Dict) and isinstance(s.slice, ast.Name) and s.slice.id == pname:
                            guarded = any((asserted_in(t, lab) or (None, None))[0] is not None and src(asserted_in(t, lab)[0]) == pname
                                          for cn in gc_.ids_of(s) for t, lab in edge_asserts(gc_, cn))
                            caught = catching_handler(s, cal, "KeyError") is not None
                            if not guarded and not caught:
                                algo_sites.append(f"{cname}: {src(s)}")
                    # optional fields hashed unconditionally
                    fo = field_of(arg)
                    optional = fo is not None and isinstance(arg, ast.Call) and len(arg.args) == 1 and fo[1] not in decode_guaranteed
                    if optional:
                        for nid, uc in node_calls(gc_, lambda c: call_attr(c) == "update" and len(c.args) == 1 and isinstance(c.args[0], ast.Name) and c.args[0].id == pname):
                            if not gc_.edge_guards(nid):
                                none_sites.append(f"{cname}: {src(uc)} with {pname} = {src(arg)}")
            mem = any((asserted_in(t, lab) is not None) and "algorithm" in rsrc(asserted_in(t, lab)[0], fm)
                      for x in gm.ids_of(r) for t, lab in edge_asserts(gm, x))
            caught = catching_handler(r, fm, "KeyError") is not None
            # ... or decode() has already refused every response whose (identically defaulted and lower-cased) algorithm is not a key of the table
            mem = mem or (None not in decode_algos and decode_algos == {ALGO.replace("self.fields", "FIELDS")})
            ctx.check(not algo_sites or mem or caught, "check-never-raises/unknown-algorithm", ctx.construct(qm, "algorithm lookup"),
                      f"a response with algorithm=<unknown> makes {meth} raise KeyError instead of failing the login ({'; '.join(algo_sites[:2])})")
            ctx.check(not none_sites, "check-never-raises/missing-field-hashed", ctx.construct(qm, "optional field fed to hash"),
                      f"a response without the field makes {meth} raise TypeError (update(None)) instead of failing the login: {'; '.join(none_sites[:2])}")



def _s_rfc2617(ctx, S):
    # ================= RFC 2617 hash sequences in _digest.py ===============================================
    callees = {n: ctx.func(DIGEST, n) for n in ("calcHA1", "calcHA2", "calcResponse")}
    def flatten(e):
        if isinstance(e, ast.BinOp) and isinstance(e.op, ast.Add):
            return flatten(e.left) + flatten(e.right)
        if isinstance(e, ast.Constant) and isinstance(e.value, bytes):
            return [repr(e.value)] if e.value else []
        if isinstance(e, (ast.Name, ast.Attribute)):
            return [src(e)]
        return None

    def straight(fname):
        """the structural reading below enumerates CFG paths and the update() calls on them; it understands a function only if the hashing is written as
        straight-line update() calls under if-statements: no loop, nested function, generator or comprehension feeds the hash"""
        return not any(isinstance(x, (ast.For, ast.While, ast.FunctionDef, ast.Lambda, ast.Yield, ast.YieldFrom, ast.ListComp, ast.GeneratorExp))
                       for x in walk_local(callees[fname]) if x is not callees[fname])

    def sequences(fname):
        f = callees[fname]
        g = ctx.cfg(f)
        seqs = set()
        for path in all_paths(g, g.entry, {g.exit}):
            seq = []
            for nid in path:
                n = g.node(nid)
                if n.kind != "stmt" or n.ast is None:
                    continue
                # a new hash object restarts the sequence; the previous digest (HA1) is carried by name
                if isinstance(n.ast, ast.Assign) and isinstance(n.ast.value, ast.Call) and "algorithms[" in src(n.ast.value.func):
                    seq.append("<new>")
                for c in walk_local(n.ast):
                    if isinstance(c, ast.Call) and call_attr(c) == "update" and len(c.args) == 1:
                        fl = flatten(c.args[0])
                        ctx.need(fl is not None, f"readable m.update() argument in {fname}: {src(c)}")
                        seq.extend(fl)
            seqs.add(tuple(seq))
        return seqs

    C = repr(b":")
    want_resp = {("<new>", "HA1", C, "pszNonce", C, "pszNonceCount", C, "pszCNonce", C, "pszQop", C, "HA2"),
                 ("<new>", "HA1", C, "pszNonce", C, "HA2")}
    def abstain(fname, rule):
        ctx.note(f"{rule}: {fname} feeds its hash through a loop / generator / nested function, shape not read structurally; clause decided by rfc2617/evaluated-digests")
    if straight("calcResponse"):
        got = sequences("calcResponse")
        ctx.check(got == want_resp, "rfc2617/response-sequence", "twisted.cred._digest.calcResponse",
                  f"request-digest is not H(HA1:nonce:[nc:cnonce:qop:]HA2): paths hash {sorted(got)}")
        # guards of the optional parts
        gr = ctx.cfg(callees["calcResponse"])
        for nid, uc in node_calls(gr, lambda c: call_attr(c) == "update" and c.args and src(c.args[0]) in ("pszNonceCount", "pszCNonce", "pszQop")):
            gs = {src(t) for t, lab in edge_asserts(gr, nid) if lab == "T"}
            ctx.check({"pszNonceCount", "pszCNonce"} <= gs, "rfc2617/qop-part-guard", ctx.construct("twisted.cred._digest.calcResponse", uc),
                      "the nc:cnonce:qop part is hashed without both nc and cnonce being present")
    else:
        abstain("calcResponse", "rfc2617/response-sequence")
    if straight("calcHA2"):
        got = sequences("calcHA2")
        want2 = {("<new>", "pszMethod", C, "pszDigestUri"), ("<new>", "pszMethod", C, "pszDigestUri", C, "pszHEntity")}
        ctx.check(got == want2, "rfc2617/A2-sequence", "twisted.cred._digest.calcHA2", f"A2 is not method:uri[:H(entity)]: paths hash {sorted(got)}")
    else:
        abstain("calcHA2", "rfc2617/A2-sequence")
    if straight("calcHA1"):
        got = sequences("calcHA1")
        base = ("<new>", "pszUserName", C, "pszRealm", C, "pszPassword")
        sess = ("<new>", "HA1", C, "pszNonce", C, "pszCNonce")
        want1 = {base, base + sess, sess, ()}
        ctx.check(got <= want1 and base in got and base + sess in got, "rfc2617/A1-sequence", "twisted.cred._digest.calcHA1",
                  f"A1 is not user:realm:password [then H(A1):nonce:cnonce for md5-sess]: paths hash {sorted(got)}")
    else:
        abstain("calcHA1", "rfc2617/A1-sequence")

    # ---- evaluated layer: the three functions are interpreted (checker's own interpreter, recording hash object) on one representative of every class of
    #      argument values they can distinguish, and the bytes fed to the hash are compared with RFC 2617.  Side condition for exhaustiveness, checked on the
    #      code: every test in the function compares parameters only with constants / None / by truthiness; everything else is passed to update() untouched.
    class _Rec:
        _mini_symbolic = True

        def __init__(self):
            self.fed = b""

        def update(self, x):
            if not isinstance(x, bytes):
                raise TypeError("update() needs bytes")
            self.fed += x

        def digest(self):
            return b"H(" + self.fed + b")"

        def hexdigest(self):
            return (b"H(" + self.fed + b")").decode()

    class _Algos(dict):
        def __missing__(self, k):
            raise KeyError(k)
    algos = _Algos({k: _Rec for k in (b"md5", b"md5-sess", b"sha")})
    bi = {"algorithms": algos, "hexlify": (lambda b: b), "md5": _Rec, "sha1": _Rec, "TypeError": TypeError}

    def class_tests_only(fn):
        ps_ = set(params(fn))
        for t in [x.test for x in ast.walk(fn) if isinstance(x, (ast.If, ast.IfExp, ast.While))]:
            for c in (ast.walk(t)):
                if isinstance(c, ast.Compare):
                    ok_ = len(c.ops) == 1 and isinstance(c.ops[0], (ast.Eq, ast.NotEq, ast.Is, ast.IsNot)) and \
                        all(isinstance(x, (ast.Name, ast.Constant)) for x in [c.left] + c.comparators)
                    if not ok_:
                        return False
                elif isinstance(c, (ast.Call, ast.Subscript, ast.Attribute)) and any(isinstance(x, ast.Name) and x.id in ps_ for x in ast.walk(c)):
                    return False
        return True
    complete = all(class_tests_only(callees[n]) for n in callees)
    rname = "rfc2617/evaluated-digests" if complete else "rfc2617/evaluated-digests-sampled"
    why = ("finite-exhaustive: the functions look at their arguments only by truthiness / `is None` / equality with constants and otherwise hand them to update() untouched; one value "
           "per class of (algorithm, qop, nc, cnonce, preHA1) is every case they can distinguish") if complete else "bounded: sampled argument combinations"
    T = lambda name: b"<" + name.encode() + b">"
    bad = None
    try:
        for nc in (None, b"", T("nc")):
            for cn in (None, b"", T("cnonce")):
                for alg in (b"md5", b"md5-sess", b"sha"):
                    got = mini_call(callees["calcResponse"], dict(zip(params(callees["calcResponse"]), [T("HA1"), T("HA2"), alg, T("nonce"), nc, cn, T("qop")])), builtins=bi)
                    want = b"H(" + T("HA1") + b":" + T("nonce") + b":" + ((nc + b":" + cn + b":" + T("qop") + b":") if (nc and cn) else b"") + T("HA2") + b")"
                    if got != want and bad is None:
                        bad = ("calcResponse", f"nc={nc!r} cnonce={cn!r}", got, want)
        for qop in (b"auth", b"auth-int", b"", None):
            got = mini_call(callees["calcHA2"], dict(zip(params(callees["calcHA2"]), [b"md5", T("method"), T("uri"), qop, T("hentity")])), builtins=bi)
            want = b"H(" + T("method") + b":" + T("uri") + ((b":" + T("hentity")) if qop == b"auth-int" else b"") + b")"
            if got != want and bad is None:
                bad = ("calcHA2", f"qop={qop!r}", got, want)
        p1 = params(callees["calcHA1"])
        for alg in (b"md5", b"md5-sess", b"sha"):
            for pre in (None, T("preHA1")):
                args = [alg] + ([T("user"), T("realm"), T("password")] if pre is None else [None, None, None]) + [T("nonce"), T("cnonce")]
                kw = dict(zip(p1, args))
                kw[p1[6]] = pre
                got = mini_call(callees["calcHA1"], kw, builtins=bi)
                a1 = (b"H(" + T("user") + b":" + T("realm") + b":" + T("password") + b")") if pre is None else pre
                want = (b"H(" + a1 + b":" + T("nonce") + b":" + T("cnonce") + b")") if alg == b"md5-sess" else a1
                if got != want and bad is None:
                    bad = ("calcHA1", f"algorithm={alg!r} preHA1={pre!r}", got, want)
    except MiniStop as e:
        raise AnalysisError(f"_digest functions not evaluable: {e}")
    except Exception as e:  # noqa: BLE001 - an exception escaping the interpreted function on well-formed arguments is itself a finding
        bad = bad or ("_digest", "well-formed arguments", f"raises {type(e).__name__}: {e}", "a digest")
    ctx.check(bad is None, rname, "twisted.cred._digest." + (bad[0] if bad else "calcHA1/calcHA2/calcResponse"),
              f"for {bad and bad[1]} the hash is fed {bad and bad[2]!r}, RFC 2617 requires {bad and bad[3]!r}: a response computed by a conforming client with the right password is "
              f"refused (or responses for different parameters collide)", detail=why)



def _ev(node, env):
    """Evaluate a clock / timestamp expression: arithmetic, int/round/floor/ceil/float, %-formatting, comparisons.
    ``self._getTime()`` reads env['clock']; names and ...CHALLENGE_LIFETIME_SECS come from env."""
    import math
    if isinstance(node, ast.Constant):
        return node.value
    if isinstance(node, ast.Name):
        if node.id in env:
            return env[node.id]
        raise NotConst(node.id)
    if isinstance(node, ast.Attribute):
        if node.attr == "CHALLENGE_LIFETIME_SECS":
            return env["LIFETIME"]
        raise NotConst(src(node))
    if isinstance(node, ast.Tuple):
        return tuple(_ev(e, env) for e in node.elts)
    if isinstance(node, ast.Call):
        fn = dotted(node.func) or ""
        if fn.endswith("._getTime") or fn in ("time.time", "time"):
            return env["clock"]
        if fn == "isinstance" and len(node.args) == 2:
            kinds = {"str": str, "bytes": bytes, "int": int, "bytearray": bytearray}
            k = node.args[1]
            ks = tuple(kinds[src(x)] for x in (k.elts if isinstance(k, ast.Tuple) else [k]) if src(x) in kinds)
            if not ks:
                raise NotConst("isinstance kind")
            return isinstance(_ev(node.args[0], env), ks)
        args = [_ev(a, env) for a in node.args]
        table = {"int": int, "round": round, "float": float, "abs": abs, "max": max, "min": min, "math.floor": math.floor, "floor": math.floor,
                 "math.ceil": math.ceil, "ceil": math.ceil, "math.trunc": math.trunc, "trunc": math.trunc, "divmod": divmod, "str": str, "bytes": bytes}
        if fn in table and not node.keywords:
            return table[fn](*args)
        if isinstance(node.func, ast.Attribute) and node.func.attr in ("encode", "decode") and not node.keywords:
            return getattr(_ev(node.func.value, env), node.func.attr)(*args)
        raise NotConst("call " + fn)
    if isinstance(node, ast.UnaryOp):
        v = _ev(node.operand, env)
        return {ast.USub: lambda: -v, ast.UAdd: lambda: +v, ast.Not: lambda: not v}[type(node.op)]()
    if isinstance(node, ast.BinOp):
        a, b = _ev(node.left, env), _ev(node.right, env)
        ops = {ast.Add: lambda: a + b, ast.Sub: lambda: a - b, ast.Mult: lambda: a * b, ast.FloorDiv: lambda: a // b, ast.Div: lambda: a / b, ast.Mod: lambda: a % b}
        if type(node.op) in ops:
            return ops[type(node.op)]()
        raise NotConst("binop")
    if isinstance(node, ast.BoolOp):
        vals = [_ev(v, env) for v in node.values]
        return all(vals) if isinstance(node.op, ast.And) else any(vals)
    if isinstance(node, ast.Compare):
        left = _ev(node.left, env)
        for op, r in zip(node.ops, node.comparators):
            right = _ev(r, env)
            ok = {ast.Lt: left < right, ast.LtE: left <= right, ast.Gt: left > right, ast.GtE: left >= right, ast.Eq: left == right, ast.NotEq: left != right}[type(op)]
            if not ok:
                return False
            left = right
        return True
    raise NotConst(type(node).__name__)


def _ip_tests_are_class_tests(func, name) -> bool:
    """Structural side-condition of the finite-exhaustive client-address rule (see there)."""
    def mentions(e):
        return any(isinstance(x, ast.Name) and x.id == name for x in ast.walk(e))

    def class_test(t):
        while isinstance(t, ast.UnaryOp) and isinstance(t.op, ast.Not):
            t = t.operand
        if isinstance(t, ast.BoolOp):
            return all(class_test(v) for v in t.values)
        if not mentions(t):
            return True
        if isinstance(t, ast.Name):
            return True
        if isinstance(t, ast.Call) and dotted(t.func) == "isinstance" and len(t.args) == 2 and isinstance(t.args[0], ast.Name) and \
                all(src(k) in ("str", "bytes") for k in (t.args[1].elts if isinstance(t.args[1], ast.Tuple) else [t.args[1]])):
            return True
        if isinstance(t, ast.Compare) and len(t.ops) == 1 and isinstance(t.ops[0], (ast.Is, ast.IsNot)) and isinstance(t.left, ast.Name) and src(t.comparators[0]) == "None":
            return True
        return False

    def class_value(v):
        if isinstance(v, ast.Constant) or (isinstance(v, ast.Name) and v.id == name):
            return True
        return isinstance(v, ast.Call) and isinstance(v.func, ast.Attribute) and v.func.attr in ("encode", "decode") and isinstance(v.func.value, ast.Name) \
            and v.func.value.id == name and all(isinstance(a, ast.Constant) for a in v.args) and not v.keywords
    for n in walk_local(func):
        if isinstance(n, ast.Assign) and any(isinstance(t, ast.Name) and t.id == name for t in n.targets):
            if not class_value(n.value):
                return False
            p = getattr(n, "_parent", None)
            while p is not None and p is not func:
                if isinstance(p, ast.If) and not class_test(p.test):
                    return False
                if isinstance(p, (ast.For, ast.While, ast.Try, ast.With)):
                    return False
                p = getattr(p, "_parent", None)
    return True


def _run_tracked(func, name, value):
    """Interpret the statements of ``func`` that (re)bind ``name`` - assignments and the if-statements that contain them - starting from
    ``name = value``; everything else is skipped.  Returns the final value of ``name`` before its first use in another binding."""
    env = {name: value, "str": str, "bytes": bytes, "None": None}
    tracked = {name}

    def assigns_tracked(st):
        return any(isinstance(x, ast.Assign) and any(isinstance(t, ast.Name) and t.id in tracked for t in x.targets) for x in ast.walk(st))

    def run(stmts):
        for st in stmts:
            if isinstance(st, ast.Assign) and len(st.targets) == 1 and isinstance(st.targets[0], ast.Name):
                t = st.targets[0].id
                if t in tracked or ({x.id for x in ast.walk(st.value) if isinstance(x, ast.Name)} & tracked):
                    try:
                        env[t] = _ev(st.value, env)
                        tracked.add(t)
                    except (NotConst, KeyError):
                        if t == name:
                            raise NotConst(src(st))
                        tracked.discard(t)
            elif isinstance(st, ast.If) and assigns_tracked(st):
                run(st.body if _ev(st.test, env) else st.orelse)
    run(func.body)
    return env[name]


def _clock_use(expr):
    """Conversion applied to the clock call where it is used inside ``expr`` (same verdicts as _clock_conversion): climbs from the call through
    int()/floor()/`// 1`; an offset or round()/ceil() applied to the clock BEFORE flooring (or instead of it) is 'not-floor'."""
    parent = {}
    for n in ast.walk(expr):
        for ch in ast.iter_child_nodes(n):
            parent[id(ch)] = n
    clocks = [x for x in ast.walk(expr) if isinstance(x, ast.Call) and (dotted(x.func) or "").endswith("._getTime") and not x.args]
    if len(clocks) != 1:
        return None
    x = clocks[0]
    floors = {"int", "math.floor", "floor", "math.trunc", "trunc"}
    floored = False
    while True:
        p = parent.get(id(x))
        if isinstance(p, ast.Call) and dotted(p.func) in floors and len(p.args) == 1 and p.args[0] is x:
            floored, x = True, p
        elif isinstance(p, ast.BinOp) and isinstance(p.op, ast.FloorDiv) and p.left is x and isinstance(p.right, ast.Constant) and p.right.value == 1:
            floored, x = True, p
        elif not floored and isinstance(p, ast.Call) and dotted(p.func) in ("round", "math.ceil", "ceil"):
            return "not-floor"
        elif not floored and isinstance(p, ast.BinOp) and isinstance(p.op, (ast.Add, ast.Sub)) and isinstance(p.right if p.left is x else p.left, ast.Constant):
            return "not-floor"
        else:
            break
    return "floor" if floored else None


def _s_timestamp(ctx, S):
    """K12 on the pair (issue time written by _generateOpaque, age test of _verifyOpaque): evaluated over fractional clock phases, the accepted set
    must equal  int(t_verify) - int(t_issue) <= LIFETIME  (so the real age of an accepted challenge never exceeds LIFETIME + 1 s, as today)."""
    gen = dep(S.gen, "_generateOpaque")
    tests = dep(S.lifetime_tests, "lifetime test of _verifyOpaque")
    stamp_ast = gen.get("time_ast")
    ctx.need(stamp_ast is not None, "time field of the opaque key in _generateOpaque")
    try:
        L = int(const_eval(class_assigns(ctx.cls(CRED, "DigestCredentialFactory"))["CHALLENGE_LIFETIME_SECS"]))
    except (KeyError, NotConst, TypeError, ValueError):
        L = 900
    phases = (0.0, 0.25, 0.5, 0.75)
    q = QF + "._generateOpaque/_verifyOpaque | issue time vs age test"
    # structural layer (every clock value): both sides take the FLOOR of the same non-negative clock; together with the normalised boundary
    # `now - when > LIFETIME` (rule verify/guard-lifetime) this gives  accepted  <=>  floor(t') - floor(t) <= LIFETIME
    conv = _clock_use(stamp_ast)
    if conv is None:
        ctx.note("lifetime/stamp-conversion-is-floor: conversion of the clock in _generateOpaque not recognised, clause left to the bounded rules lifetime/issue-time-is-floor-of-clock "
                 "and lifetime/accepted-instants-equal-spec")
    else:
        ctx.check(conv == "floor", "lifetime/stamp-conversion-is-floor", gen["q"] + " | time field",
                  f"the issue time is not the floor of the clock ({gen['time_expr']}): rounding up or to nearest stamps the opaque up to a second in the future, so the "
                  f"challenge is still accepted after its lifetime", detail="structural: int()/floor()/`// 1` applied to the bare clock call")
    for rt, lab, text in tests:
        side = _clock_use(rt)
        if side is None:
            ctx.note("lifetime/verifier-clock-is-floor: conversion of the clock in the age test not recognised, clause left to lifetime/accepted-instants-equal-spec")
        else:
            ctx.check(side == "floor", "lifetime/verifier-clock-is-floor", QF + "._verifyOpaque | age test",
                      f"the age test does not use the floor of the clock ({text}): the age is under-estimated and an expired challenge is accepted",
                      detail="structural: int()/floor() applied to the bare clock call")

    def stamp(t):
        v = _ev(stamp_ast, {"clock": t, "LIFETIME": L})
        return v if isinstance(v, bytes) else (b"%d" % v)
    try:
        # (1) the stamp never lies in the future of the true issue time and loses less than one second
        worst = None
        for k in (1000, 1001, 1700000000):
            for ph in phases + (0.49, 0.51, 0.99):
                t = k + ph
                st = int(stamp(t))
                if not (t - 1 < st <= t) and worst is None:
                    worst = (t, st)
        ctx.check(worst is None, "lifetime/issue-time-is-floor-of-clock", gen["q"] + " | time field",
                  f"the issue time written into the opaque is not the floor of the clock: issued at t={worst and worst[0]} it says {worst and worst[1]} - a stamp in the "
                  f"future makes _verifyOpaque accept the challenge beyond its lifetime ({gen['time_expr']})")
        # (2) the accepted set of (issue, verify) instants
        diff = None
        n = 0
        for rt, lab, text in tests:
            for ph in phases:
                t = 1000 + ph
                st = stamp(t)
                for dk in range(L - 2, L + 4):
                    for ph2 in phases:
                        t2 = 1000 + dk + ph2
                        test = bool(_ev(rt, {"clock": t2, "LIFETIME": L, "STAMP": st}))
                        rejected = test if lab == "F" else not test
                        oracle_accept = int(t2) - int(t) <= L
                        n += 1
                        if (not rejected) != oracle_accept and diff is None:
                            diff = (t, t2, not rejected, oracle_accept, text)
        ctx.extra["timestamp_pairs_evaluated"] = n
        ctx.check(diff is None, "lifetime/accepted-instants-equal-spec", q,
                  f"issued at t={diff and diff[0]}, verified at t'={diff and diff[1]} (real age {diff and round(diff[1] - diff[0], 2)} s, lifetime {L}): the code "
                  f"{'accepts' if diff and diff[2] else 'rejects'}, the specification int(t') - int(t) <= LIFETIME {'accepts' if diff and diff[3] else 'rejects'}")
    except NotConst as e:
        raise AnalysisError(f"timestamp expression not evaluable: {e}")


def _s_floors(ctx, S):
    count = _count(S)
    ctx.floor("escape/raises-only-LoginFailed", count["raise"], 6, "raise statements")
    ctx.floor("escape/converted", count["raiser"], 3, "raising operations on client data")
    ctx.floor("escape/index-in-range", count["index"], 2, "constant subscripts of split results")


def _s_memo(ctx, S):
    why = ("the verdict depends on state that is not an argument (the clock via self._getTime(), the private key, the field dict): a memoised "
           "or wrapped call answers from an earlier evaluation - e.g. a challenge verified once while fresh stays accepted after its lifetime")
    body_always_entered(ctx, CRED, ["DigestCredentialFactory." + m for m in ("_verifyOpaque", "decode", "getChallenge", "_generateOpaque", "_generateNonce", "_getTime")] +
                        ["DigestedCredentials.checkPassword", "DigestedCredentials.checkHash"], "memo/body-entered-on-every-call", "twisted.cred.credentials", why)
    body_always_entered(ctx, WEB, ["DigestCredentialFactory.decode", "DigestCredentialFactory.getChallenge"], "memo/body-entered-on-every-call", "twisted.web._auth.digest", why)
    # the pure digest helpers may be cached (their result depends on their arguments only), but not wrapped by anything else
    body_always_entered(ctx, DIGEST, ["calcHA1", "calcHA2", "calcResponse"], "memo/body-entered-on-every-call", "twisted.cred._digest", why,
                        allow={"lru_cache", "functools.lru_cache", "cache", "functools.cache"})


def check(ctx):
    normalise(ctx, {CRED: ["_verifyOpaque", "_generateOpaque", "_generateNonce", "_getTime", "_parseparts"], DIGEST: [], WEB: []},
              scopes={CRED: ["DigestCredentialFactory", "DigestedCredentials"]})
    run_sections(ctx, [("generator", _s_generator), ("verifyOpaque", _s_verify), ("agreement", _s_agreement), ("decode", _s_decode),
                       ("challenge", _s_challenge), ("response", _s_response), ("timestamp", _s_timestamp), ("rfc2617", _s_rfc2617), ("memoisation", _s_memo),
                       ("floors", _s_floors)])


_V = CRED
MUTANTS = [
    Mutant("revert-F48-b64decode", _V,
           "        try:\n            key = base64.b64decode(opaqueParts[1])\n        except ValueError:\n            raise error.LoginFailed(\"Invalid response, invalid opaque value\")\n",
           "        key = base64.b64decode(opaqueParts[1])\n", expect_rule="escape/converted"),
    Mutant("revert-F48-nativeString", _V,
           "            try:\n                auth[nativeString(key.strip())] = value\n            except UnicodeError:\n                raise error.LoginFailed(\"Invalid response, invalid parameter name\")\n",
           "            auth[nativeString(key.strip())] = value\n", expect_rule="escape/converted"),
    Mutant("drop-client-address-test", _V,
           "        if keyParts[1] != clientip:\n            raise error.LoginFailed(\n                \"Invalid response, incompatible opaque/client values\"\n            )\n", "",
           expect_rule="verify/guard-client-address"),
    Mutant("digest-without-private-key", _V, "        # Verify the digest\n        digest = hexlify(md5(key + self.privateKey).digest())",
           "        # Verify the digest\n        digest = hexlify(md5(key).digest())", expect_rule="verify/guard-keyed-digest"),
    Mutant("lifetime-ge", _V, "            int(self._getTime()) - when\n            > DigestCredentialFactory.CHALLENGE_LIFETIME_SECS",
           "            int(self._getTime()) - when\n            >= DigestCredentialFactory.CHALLENGE_LIFETIME_SECS", expect_rule="verify/guard-lifetime"),
    Mutant("time-handler-narrowed", _V, "            when = int(keyParts[2])\n        except ValueError:", "            when = int(keyParts[2])\n        except TypeError:",
           expect_rule="escape/converted"),
    Mutant("verify-without-host", _V, "auth.get(\"opaque\"), auth.get(\"nonce\"), host)", "auth.get(\"opaque\"), auth.get(\"nonce\"), None)",
           expect_rule="decode/verify-args"),
    Mutant("urlsafe-key-encoding", _V, "        ekey = base64.b64encode(key)", "        ekey = base64.urlsafe_b64encode(key)"),
    Mutant("nonce-compared-after-return-path", _V, "        if keyParts[0] != nonce:\n            raise error.LoginFailed(",
           "        if keyParts[0] != nonce and clientip:\n            raise error.LoginFailed(", expect_rule="verify/guard-nonce"),
    Mutant("web-verifies-against-server-address", WEB, "            response, request.method, request.getClientAddress().host\n",
           "            response, request.method, request.getHost().host\n", expect_rule="web/address-paired"),
    Mutant("response-not-bound-to-nonce", DIGEST, "    m.update(HA1)\n    m.update(b\":\")\n    m.update(pszNonce)\n    m.update(b\":\")\n    if pszNonceCount",
           "    m.update(HA1)\n    m.update(b\":\")\n    if pszNonceCount", expect_rule="rfc2617/response-sequence"),
    Mutant("verification-verdict-memoised", _V, "    def _verifyOpaque(self, opaque, nonce, clientip):",
           "    @functools.lru_cache(maxsize=256)\n    def _verifyOpaque(self, opaque, nonce, clientip):",
           more=[(_V, "import base64\n", "import base64\nimport functools\n")], expect_rule="memo/body-entered-on-every-call"),
    Mutant("verification-wrapped-after-definition", _V, "    def decode(self, response, method, host):",
           "    _verifyOpaque = _remember(_verifyOpaque)\n\n    def decode(self, response, method, host):",
           more=[(_V, "class DigestCredentialFactory:\n", "def _remember(f, _seen={}):\n    def wrapper(*a):\n        if a[1:] not in _seen:\n            _seen[a[1:]] = f(*a)\n        return _seen[a[1:]]\n    return wrapper\n\n\nclass DigestCredentialFactory:\n")],
           expect_rule="memo/body-entered-on-every-call"),
    Mutant("clock-cached", _V, "    def _getTime(self):", "    @functools.cache\n    def _getTime(self):",
           more=[(_V, "import base64\n", "import base64\nimport functools\n")], expect_rule="memo/body-entered-on-every-call"),
    Mutant("hand-written-verdict-cache", _V, "        # First split the digest from the key\n        opaqueParts = opaque.split(b\"-\")",
           "        if (opaque, nonce, clientip) in self._verified:\n            return True\n        opaqueParts = opaque.split(b\"-\")",
           more=[(_V, "        return True\n\n    def decode(self, response, method, host):", "        self._verified.add((opaque, nonce, clientip))\n        return True\n\n    def decode(self, response, method, host):"),
                 (_V, "        self.privateKey = secureRandom(12)\n", "        self.privateKey = secureRandom(12)\n        self._verified = set()\n")],
           expect_rule="verify/guard-lifetime"),
    Mutant("issue-time-rounded-to-nearest", _V, "        now = b\"%d\" % (int(self._getTime()),)", "        now = b\"%d\" % (int(self._getTime() + 0.5),)",
           expect_rule="lifetime/"),
    Mutant("issue-time-rounded-up", _V, "        now = b\"%d\" % (int(self._getTime()),)", "        now = b\"%d\" % (math.ceil(self._getTime()),)",
           more=[(_V, "import base64\n", "import base64\nimport math\n")], expect_rule="lifetime/"),
    Mutant("age-computed-from-rounded-down-clock-minus-one", _V, "            int(self._getTime()) - when\n            > DigestCredentialFactory", "            int(self._getTime() - 0.5) - when\n            > DigestCredentialFactory",
           expect_rule="lifetime/accepted-instants-equal-spec"),
    # reverts of the fix: commits 291fee8 (F48c) and d0fbfb0 (F48d)
    Mutant("revert-F48c-unsupported-algorithm", _V,
           "        # The response can only be checked with an algorithm we know\n        if auth.get(\"algorithm\", b\"md5\").lower() not in algorithms:\n            raise error.LoginFailed(\"Invalid response, unsupported algorithm.\")\n\n",
           "", expect_rule="check-never-raises/unknown-algorithm"),
    Mutant("revert-F48d-missing-uri", _V, "        if \"uri\" not in auth:\n            raise error.LoginFailed(\"Invalid response, no uri given.\")\n\n", "",
           expect_rule="check-never-raises/missing-field-hashed"),
    Mutant("quoted-values-unescaped-before-hashing", _V, "            value = (quoted or bare).strip()", "            value = (quoted or bare).strip().replace(b\"\\\\\\\"\", b\"\\\"\")",
           expect_rule="decode/field-values-verbatim"),
    Mutant("field-values-case-folded", _V, "            value = (quoted or bare).strip()", "            value = (quoted or bare).strip().lower()", expect_rule="decode/field-values-verbatim"),
    Mutant("short-key-index", _V, "        if len(keyParts) != 3:\n", "        if len(keyParts) < 2:\n", expect_rule="escape/index-in-range"),
    Mutant("checkHash-uses-cnonce-as-nonce", _V,
           "            calcHA2(algo, self.method, uri, qop, None),\n            algo,\n            nonce,\n            nc,\n            cnonce,\n            qop,\n        )\n\n        return expected == response\n\n\nclass DigestCredentialFactory",
           "            calcHA2(algo, self.method, uri, qop, None),\n            algo,\n            cnonce,\n            nc,\n            cnonce,\n            qop,\n        )\n\n        return expected == response\n\n\nclass DigestCredentialFactory",
           expect_rule="response/field-slots"),
    # ---- round-3 shapes: the key decoded by a private classmethod that returns a pair; the rejection message as a private class constant
    Mutant("classmethod-key-decoder-converts-the-wrong-exception", CRED, '        try:\n            key = base64.b64decode(opaqueParts[1])\n        except ValueError:\n            raise error.LoginFailed("Invalid response, invalid opaque value")\n        keyParts = key.split(b",")\n', '        key, keyParts = self._splitKey(opaqueParts[1])\n', more=[(CRED, "    def _verifyOpaque(", '    _BAD_OPAQUE = "Invalid response, invalid opaque value"\n\n    @classmethod\n    def _splitKey(cls, encoded):\n        try:\n            raw = base64.b64decode(encoded)\n        except TypeError:\n            raise error.LoginFailed(cls._BAD_OPAQUE)\n        return raw, raw.split(b",")\n\n    def _verifyOpaque(')]),
]
SILENT = [
    Silent("rename-locals", _V, "        keyParts = key.split(b\",\")\n\n        if len(keyParts) != 3:", "        fields = key.split(b\",\")\n        keyParts = fields\n\n        if len(fields) != 3:"),
    Silent("not-equal-as-not-eq", _V, "        if keyParts[1] != clientip:", "        if not keyParts[1] == clientip:"),
    Silent("lifetime-rewritten", _V, "            int(self._getTime()) - when\n            > DigestCredentialFactory.CHALLENGE_LIFETIME_SECS",
           "            when + DigestCredentialFactory.CHALLENGE_LIFETIME_SECS < int(self._getTime())"),
    Silent("wider-handler", _V, "            key = base64.b64decode(opaqueParts[1])\n        except ValueError:", "            key = base64.b64decode(opaqueParts[1])\n        except (binascii.Error, ValueError):"),
    Silent("presence-checks-reordered", _V,
           "        if \"opaque\" not in auth:\n            raise error.LoginFailed(\"Invalid response, no opaque given.\")\n\n        if \"nonce\" not in auth:\n            raise error.LoginFailed(\"Invalid response, no nonce given.\")\n",
           "        if not \"nonce\" in auth:\n            raise error.LoginFailed(\"Invalid response, no nonce given.\")\n\n        if \"opaque\" not in auth:\n            raise error.LoginFailed(\"Invalid response, no opaque given.\")\n"),
    Silent("pure-digest-helper-cached", DIGEST, "def calcHA2(algo, pszMethod, pszDigestUri, pszQop, pszHEntity):",
           "@lru_cache(maxsize=64)\ndef calcHA2(algo, pszMethod, pszDigestUri, pszQop, pszHEntity):",
           more=[(DIGEST, "from binascii import hexlify\n", "from binascii import hexlify\nfrom functools import lru_cache\n")]),
    Silent("issue-time-math-floor", _V, "        now = b\"%d\" % (int(self._getTime()),)", "        now = b\"%d\" % (math.floor(self._getTime()),)",
           more=[(_V, "import base64\n", "import base64\nimport math\n")]),
    Silent("issue-time-floor-division", _V, "        now = b\"%d\" % (int(self._getTime()),)", "        now = b\"%d\" % (int(self._getTime() // 1),)"),
    Silent("update-concatenated", DIGEST, "    m.update(pszMethod)\n    m.update(b\":\")\n    m.update(pszDigestUri)\n", "    m.update(pszMethod + b\":\")\n    m.update(pszDigestUri)\n"),
    Silent("opaque-parts-unpacked-and-checks-table-driven", _V,
           "        if keyParts[0] != nonce:\n            raise error.LoginFailed(\n                \"Invalid response, incompatible opaque/nonce values\"\n            )\n\n        if keyParts[1] != clientip:\n            raise error.LoginFailed(\n                \"Invalid response, incompatible opaque/client values\"\n            )\n\n        try:\n            when = int(keyParts[2])",
           "        boundNonce, boundAddress, stamp = keyParts\n        for bound, given, label in ((boundNonce, nonce, \"nonce\"), (boundAddress, clientip, \"client\")):\n            if bound != given:\n                raise error.LoginFailed(\"Invalid response, incompatible opaque/%s values\" % (label,))\n\n        try:\n            when = int(stamp)"),
    Silent("signature-and-address-in-private-helpers", _V,
           "        key = b\",\".join((nonce, clientip, now))\n        digest = hexlify(md5(key + self.privateKey).digest())\n",
           "        key = b\",\".join((nonce, clientip, now))\n        digest = self._seal(key)\n",
           more=[(_V, "        # Verify the digest\n        digest = hexlify(md5(key + self.privateKey).digest())\n        if digest != opaqueParts[0]:", "        if self._seal(key) != opaqueParts[0]:"),
                 (_V, "    def _verifyOpaque(self, opaque, nonce, clientip):", "    def _seal(self, key):\n        keyed = md5(key + self.privateKey)\n        return hexlify(keyed.digest())\n\n    def _verifyOpaque(self, opaque, nonce, clientip):")]),
    Silent("lifetime-test-through-named-age", _V, "        if (\n            int(self._getTime()) - when\n            > DigestCredentialFactory.CHALLENGE_LIFETIME_SECS\n        ):",
           "        age = int(self._getTime()) - when\n        if DigestCredentialFactory.CHALLENGE_LIFETIME_SECS < age:"),
    Silent("response-check-shared-with-closure", _V,
           "        expected = calcResponse(\n            calcHA1(algo, self.username, self.realm, password, nonce, cnonce),\n            calcHA2(algo, self.method, uri, qop, None),\n            algo,\n            nonce,\n            nc,\n            cnonce,\n            qop,\n        )\n\n        return expected == response\n\n    def checkHash",
           "        def ha1():\n            return calcHA1(algo, self.username, self.realm, password, nonce, cnonce)\n\n        return self._agrees(ha1(), algo, uri, qop, nonce, nc, cnonce, response)\n\n"
           "    def _agrees(self, ha1, algo, uri, qop, nonce, nc, cnonce, response):\n        ha2 = calcHA2(algo, self.method, uri, qop, None)\n        wanted = calcResponse(ha1, ha2, algo, nonce, nc, cnonce, qop)\n        return wanted == response\n\n    def checkHash"),
    Silent("digest-updates-through-feed-helper", DIGEST, "    m = algorithms[algo]()\n    m.update(pszMethod)\n    m.update(b\":\")\n    m.update(pszDigestUri)\n", "    m = algorithms[algo]()\n    _absorb(m, pszMethod, b\":\", pszDigestUri)\n",
           more=[(DIGEST, "def calcHA2(algo, pszMethod, pszDigestUri, pszQop, pszHEntity):", "def _absorb(h, *pieces):\n    for piece in pieces:\n        h.update(piece)\n\n\ndef calcHA2(algo, pszMethod, pszDigestUri, pszQop, pszHEntity):")]),
    Silent("rejections-built-by-module-helper", _V, "        if \"opaque\" not in auth:\n            raise error.LoginFailed(\"Invalid response, no opaque given.\")\n\n        if \"nonce\" not in auth:\n            raise error.LoginFailed(\"Invalid response, no nonce given.\")\n",
           "        for needed in (\"opaque\", \"nonce\"):\n            if needed not in auth:\n                failure = _refusal(\"no %s given.\" % (needed,))\n                raise failure\n",
           more=[(_V, "class DigestCredentialFactory:\n", "def _refusal(what):\n    return error.LoginFailed(\"Invalid response, \" + what)\n\n\nclass DigestCredentialFactory:\n")]),
    Silent("digest-fields-from-a-generator", DIGEST, "    m = algorithms[algo]()\n    m.update(pszMethod)\n    m.update(b\":\")\n    m.update(pszDigestUri)\n    if pszQop == b\"auth-int\":\n        m.update(b\":\")\n        m.update(pszHEntity)\n    return hexlify(m.digest())",
           "    def parts():\n        yield pszMethod\n        yield pszDigestUri\n        if pszQop == b\"auth-int\":\n            yield pszHEntity\n\n    m = algorithms[algo]()\n    first = True\n    for part in parts():\n        if not first:\n            m.update(b\":\")\n        m.update(part)\n        first = False\n    return hexlify(m.digest())"),
    Silent("key-decoded-by-a-private-classmethod-with-a-constant-message", CRED, '        try:\n            key = base64.b64decode(opaqueParts[1])\n        except ValueError:\n            raise error.LoginFailed("Invalid response, invalid opaque value")\n        keyParts = key.split(b",")\n', '        key, keyParts = self._splitKey(opaqueParts[1])\n', more=[(CRED, "    def _verifyOpaque(", '    _BAD_OPAQUE = "Invalid response, invalid opaque value"\n\n    @classmethod\n    def _splitKey(cls, encoded):\n        try:\n            raw = base64.b64decode(encoded)\n        except ValueError:\n            raise error.LoginFailed(cls._BAD_OPAQUE)\n        return raw, raw.split(b",")\n\n    def _verifyOpaque(')]),
]
